//! C51 — the command-line client splits scripts and formats results faithfully.
//!
//! Part A (splitting, REAL binary): generated scripts of statements `SELECT '<payload>' AS "<ident>"`
//! (payloads / identifiers with `;`, doubled quotes, the other quote kind, unicode, comment markers,
//! newlines; several statements per line, statements spanning lines, blank lines, a trailing statement
//! without `;`) are fed to `target/verif/dfcli` (= /repo/datafusion-cli/src/main.rs) through a pipe
//! (REPL path: rustyline non-tty → `CliHelper` validator → `split_from_semicolon`) and through
//! `-f file` (`exec_from_lines`), with `--format csv|tsv|json|nd-json`. Every statement carries a unique
//! marker in its payload and its column name, so the list of executed statements is read off stdout.
//! Oracle: a reference splitter (semicolons outside '…' / "…", doubled quotes honoured) applied to the
//! script text + the expected (column name, cell) pairs.
//! Part B (formats, in-process): `PrintFormat::{Csv,Tsv,Json,NdJson,Automatic,Table}::print_batches` on
//! generated record batches (sliced, multi-batch; strings with NULL / separators / quotes / newlines /
//! unicode, integers, floats incl. NaN/inf, dates, timestamps, decimals, lists, structs); the output is
//! parsed back with an RFC-4180 reader written here (`,` and TAB) and with serde_json and compared with
//! the values.

use arrow::array::*;
use arrow::datatypes::{DataType, Field, Fields, Schema, SchemaRef};
use arrow::record_batch::RecordBatch;
use datafusion_cli::print_format::PrintFormat;
use datafusion_cli::print_options::MaxRows;
use std::io::{Read, Write};
use std::path::{Path, PathBuf};
use std::sync::Arc;
use vcommon::{fp_mix, fp_str, json, Args, Json, Report, Rng};

// ---------------------------------------------------------------------------------------------
// Shared: RFC-4180 reader
// ---------------------------------------------------------------------------------------------

/// records of fields; a quoted field may hold the delimiter, quotes (doubled) and line breaks
fn csv_parse(text: &str, delim: char) -> Result<Vec<Vec<String>>, String> {
    let (mut recs, mut rec, mut cur) = (vec![], Vec::<String>::new(), String::new());
    let mut it = text.chars().peekable();
    let (mut in_q, mut any, mut was_q) = (false, false, false);
    while let Some(c) = it.next() {
        if in_q {
            if c == '"' {
                if it.peek() == Some(&'"') {
                    it.next();
                    cur.push('"');
                } else {
                    in_q = false;
                }
            } else {
                cur.push(c);
            }
            continue;
        }
        match c {
            '"' if cur.is_empty() && !was_q => {
                in_q = true;
                was_q = true;
                any = true;
            }
            '"' => return Err("quote inside an unquoted field".into()),
            c if c == delim => {
                rec.push(std::mem::take(&mut cur));
                any = true;
                was_q = false;
            }
            '\r' if it.peek() == Some(&'\n') => {}
            '\n' => {
                if any || !cur.is_empty() {
                    rec.push(std::mem::take(&mut cur));
                    recs.push(std::mem::take(&mut rec));
                }
                any = false;
                was_q = false;
            }
            c if was_q => return Err(format!("character {c:?} after a closing quote")),
            c => {
                cur.push(c);
                any = true;
            }
        }
    }
    if in_q {
        return Err("unterminated quoted field".into());
    }
    if any || !cur.is_empty() {
        rec.push(cur);
        recs.push(rec);
    }
    Ok(recs)
}

// ---------------------------------------------------------------------------------------------
// Part A: scripts
// ---------------------------------------------------------------------------------------------

/// reference splitter: statements end at semicolons outside '…' and "…" ('' and "" stay inside)
fn reference_split(script: &str) -> Vec<String> {
    let (mut out, mut cur, mut q) = (vec![], String::new(), None::<char>);
    for c in script.chars() {
        match (q, c) {
            (None, '\'') | (None, '"') => q = Some(c),
            (Some(open), c) if c == open => q = None, // a doubled quote re-opens at once
            (None, ';') => {
                out.push(std::mem::take(&mut cur));
                continue;
            }
            _ => {}
        }
        cur.push(c);
    }
    out.push(cur);
    out.into_iter().map(|s| s.trim().to_string()).filter(|s| !s.is_empty()).collect()
}

const PAYLOADS: &[(&str, &str)] = &[
    ("plain", "abc"),
    ("semicolon", "a;b"),
    ("semicolon", ";"),
    ("semicolon", ";;x;"),
    ("semicolon", "end;"),
    ("doubled-single-quote", "it's"),
    ("doubled-single-quote", "''"),
    ("doubled-single-quote", "';"),
    ("doubled-single-quote", "'; SELECT 'x"),
    ("doubled-single-quote", ";'';"),
    ("other-quote", "say \"hi\"; ok"),
    ("other-quote", "\""),
    ("other-quote", "\";\""),
    ("other-quote", "\"; SELECT \"y"),
    ("unicode", "é;日本"),
    ("unicode", "🦀;ß"),
    ("comment-marker", "-- not a comment; really"),
    ("comment-marker", "/* x; */"),
    ("comment-marker", "--';"),
    ("backslash", "a\\b;"),
    ("spaces", "  a ;  b  "),
    ("newline", "l1\nl2"),
    ("newline", "l1;x\n l2;y"),
    ("newline", "'\n;'"),
];
/// a semicolon directly before a line break inside the quotes
const PAYLOADS_SEMI_NL: &[(&str, &str)] = &[("semicolon-newline", "abc;\ndef"), ("semicolon-newline", "x';\n'y")];
const IDENTS: &[(&str, &str)] = &[
    ("plain", "col"),
    ("semicolon", "x;y"),
    ("semicolon", ";"),
    ("doubled-double-quote", "q\"q"),
    ("doubled-double-quote", "\";\""),
    ("other-quote", "it's;"),
    ("other-quote", "';"),
    ("unicode", "é;"),
    ("comment-marker", "-- c;"),
    ("spaces", " a ; b "),
];

#[derive(Clone, Debug)]
struct Stmt {
    text: String,
    /// (column name, cell) pairs of the single result row
    cols: Vec<(String, String)>,
}

fn gen_stmt(rng: &mut Rng, n: usize, rep: &Report, pool: &[(&str, &str)], allow_newline: bool) -> Stmt {
    let ncols = if rng.chance(1, 5) { 2 } else { 1 };
    let mut cols = vec![];
    let mut parts = vec![];
    for k in 0..ncols {
        let (pc, p) = loop {
            let x = *rng.pick(pool);
            if allow_newline || !x.1.contains('\n') {
                break x;
            }
        };
        let (ic, i) = *rng.pick(IDENTS);
        rep.seen("payload_classes", &format!("literal:{pc}"));
        rep.seen("payload_classes", &format!("identifier:{ic}"));
        let (payload, ident) = (format!("m{n}.{k}:{p}"), format!("c{n}.{k}:{i}"));
        parts.push(format!("'{}' AS \"{}\"", payload.replace('\'', "''"), ident.replace('"', "\"\"")));
        cols.push((ident, payload));
    }
    let text = match rng.below(4) {
        0 => format!("SELECT\n  {}", parts.join(",\n  ")), // spans lines; continuation lines start with a blank
        1 => format!("select {}", parts.join(" , ")),
        _ => format!("SELECT {}", parts.join(", ")),
    };
    Stmt { text, cols }
}

struct Script {
    text: String,
    stmts: Vec<Stmt>,
    /// the last statement has no `;` (own last line)
    trailing_unterminated: bool,
    semi_newline: bool,
}

fn gen_script(rng: &mut Rng, rep: &Report, n_stmts: usize, semi_newline: bool, allow_newline: bool) -> Script {
    let mut text = String::new();
    let mut stmts = vec![];
    let trailing = rng.chance(1, 2);
    for n in 0..n_stmts {
        let pool: &[(&str, &str)] = if semi_newline && n % 3 == 1 { PAYLOADS_SEMI_NL } else { PAYLOADS };
        let s = gen_stmt(rng, n, rep, pool, allow_newline);
        text.push_str(&s.text);
        let last = n + 1 == n_stmts;
        if last && trailing {
            // nothing: unterminated
        } else if last || (n + 2 == n_stmts && trailing) {
            text.push_str(";\n"); // the last terminated statement closes its line
        } else {
            text.push_str(*rng.pick(&[";\n", ";\n", "; ", ";", " ;\n", ";  \n", ";\n\n", ";\t"]));
        }
        stmts.push(s);
    }
    Script { text, stmts, trailing_unterminated: trailing, semi_newline }
}

fn find_dfcli(args: &Args) -> Option<PathBuf> {
    let mut cands = vec![args.root.join("harness/target/verif/dfcli")];
    if let Ok(exe) = std::env::current_exe() {
        if let Some(d) = exe.parent() {
            cands.push(d.join("dfcli"));
        }
    }
    cands.into_iter().find(|p| p.is_file())
}

struct Spawned {
    stdout: String,
    stderr: String,
    status: Option<i32>,
    timed_out: bool,
}

fn run_cli(dfcli: &Path, cwd: &Path, cli_args: &[&str], stdin: Option<&str>) -> std::io::Result<Spawned> {
    let mut cmd = std::process::Command::new(dfcli);
    cmd.args(cli_args).current_dir(cwd).env("HOME", cwd).env_remove("DATAFUSION_EXPLAIN_FORMAT");
    cmd.stdin(if stdin.is_some() { std::process::Stdio::piped() } else { std::process::Stdio::null() });
    cmd.stdout(std::process::Stdio::piped()).stderr(std::process::Stdio::piped());
    let mut child = cmd.spawn()?;
    let feeder = stdin.map(|s| {
        let (mut pipe, data) = (child.stdin.take().expect("stdin"), s.as_bytes().to_vec());
        std::thread::spawn(move || {
            let _ = pipe.write_all(&data);
        })
    });
    let (mut so, mut se) = (child.stdout.take().expect("stdout"), child.stderr.take().expect("stderr"));
    let t_out = std::thread::spawn(move || {
        let mut b = vec![];
        let _ = so.read_to_end(&mut b);
        b
    });
    let t_err = std::thread::spawn(move || {
        let mut b = vec![];
        let _ = se.read_to_end(&mut b);
        b
    });
    let deadline = std::time::Instant::now() + std::time::Duration::from_secs(180);
    let (mut status, mut timed_out) = (None, false);
    loop {
        match child.try_wait()? {
            Some(st) => {
                status = st.code();
                break;
            }
            None if std::time::Instant::now() > deadline => {
                let _ = child.kill();
                let _ = child.wait();
                timed_out = true;
                break;
            }
            None => std::thread::sleep(std::time::Duration::from_millis(3)),
        }
    }
    if let Some(f) = feeder {
        let _ = f.join();
    }
    let stdout = String::from_utf8_lossy(&t_out.join().unwrap_or_default()).into_owned();
    let stderr = String::from_utf8_lossy(&t_err.join().unwrap_or_default()).into_owned();
    Ok(Spawned { stdout, stderr, status, timed_out })
}

/// one result set per executed statement: (column name, cell) pairs
fn parse_cli_output(format: &str, stdout: &str) -> Result<Vec<Vec<(String, String)>>, String> {
    // the piped REPL says `\q` at end of input
    let body = stdout.strip_suffix("\\q\n").unwrap_or(stdout);
    match format {
        "csv" | "tsv" => {
            let recs = csv_parse(body, if format == "csv" { ',' } else { '\t' })?;
            if recs.len() % 2 != 0 {
                return Err(format!("{} records: not header/row pairs", recs.len()));
            }
            recs.chunks(2)
                .map(|p| if p[0].len() == p[1].len() { Ok(p[0].iter().cloned().zip(p[1].iter().cloned()).collect()) } else { Err("header and row differ in width".to_string()) })
                .collect()
        }
        _ => {
            let mut out = vec![];
            for v in serde_json::Deserializer::from_str(body).into_iter::<Json>() {
                let v = v.map_err(|e| format!("json: {e}"))?;
                let objs: Vec<Json> = if format == "json" { v.as_array().cloned().ok_or("json: not an array")? } else { vec![v] };
                for o in objs {
                    let o = o.as_object().ok_or("json: row is not an object")?;
                    out.push(o.iter().map(|(k, v)| (k.clone(), v.as_str().map(|s| s.to_string()).unwrap_or_else(|| v.to_string()))).collect());
                }
            }
            Ok(out)
        }
    }
}

fn script_case(rep: &Report, args: &Args, dfcli: &Path, root: &Path, idx: u64, mode: &'static str, semi_newline: bool, rng: &mut Rng) {
    let format = ["csv", "json", "nd-json", "tsv"][(idx % 4) as usize];
    let n_stmts = args.bound("stmts_per_script", 36, 60) as usize;
    // `-f` reads line by line without looking at quotes (not part of the statement): keep line breaks out of the quotes there
    let script = gen_script(rng, rep, n_stmts, semi_newline, mode == "piped");
    let fp = fp_mix(fp_str(&script.text), fp_str(mode));
    // the generator and the reference splitter must agree on what the script says
    let pieces = reference_split(&script.text);
    if pieces != script.stmts.iter().map(|s| s.text.clone()).collect::<Vec<_>>() {
        rep.inconclusive("harness: the reference splitter does not give back the generated statements");
        rep.extra("harness_splitter_disagreement", json!({"script": script.text, "reference": pieces}));
        return;
    }
    let dir = root.join(format!("s{idx}"));
    std::fs::create_dir_all(&dir).expect("script dir");
    let res = if mode == "piped" {
        run_cli(dfcli, &dir, &["-q", "--format", format], Some(&script.text))
    } else {
        std::fs::write(dir.join("script.sql"), &script.text).expect("write script");
        run_cli(dfcli, &dir, &["-q", "--format", format, "-f", "script.sql"], None)
    };
    let _ = std::fs::remove_dir_all(&dir);
    let sp = match res {
        Ok(s) => s,
        Err(e) => {
            rep.inconclusive(&format!("cannot spawn dfcli: {e}"));
            return;
        }
    };
    if sp.timed_out {
        rep.inconclusive("a dfcli process exceeded the 180 s wall-clock guard");
        return;
    }
    rep.count(&format!("spawns/{mode}/{format}"), 1);
    rep.seen("formats", &format!("cli:{format}"));
    // expected: every terminated statement; the unterminated last one is executed by -f (explicit in
    // exec_from_lines) and left pending by the REPL (not a statement yet): not asserted for the pipe
    let mut expected: Vec<Vec<(String, String)>> = script.stmts.iter().map(|s| s.cols.clone()).collect();
    let trailing = if script.trailing_unterminated { expected.pop() } else { None };
    let mut observed = parse_cli_output(format, &sp.stdout);
    if let (Ok(obs), Some(t)) = (&mut observed, &trailing) {
        if mode == "file" {
            expected.push(t.clone());
        } else if obs.last() == Some(t) {
            rep.count("piped/trailing-unterminated/executed", 1);
            obs.pop();
        } else {
            rep.count("piped/trailing-unterminated/not-executed", 1);
        }
    }
    if args.opt_u64("selftest", 0) == 2 && idx % 3 == 0 {
        if let Ok(o) = &mut observed {
            o.pop(); // corrupt the observation
        }
    }
    rep.case(fp, true);
    rep.count(&format!("statements_expected/{mode}"), expected.len() as u64);
    let witness = |what: &str, obs: Json| {
        json!({"mode": mode, "format": format, "script": script.text, "expected_statements": expected, "observed": obs, "what": what,
            "stdout": sp.stdout.chars().take(4000).collect::<String>(), "stderr": sp.stderr.chars().take(1500).collect::<String>(), "exit": sp.status})
    };
    match observed {
        Ok(obs) if obs == expected => {
            rep.count(&format!("statements_executed_as_expected/{mode}"), obs.len() as u64);
            if sp.status != Some(0) {
                rep.violation(&format!("{mode}/nonzero-exit"), witness("all statements ran but the exit status is not 0", json!(obs)));
            } else if rep.want_sample() && idx % 7 == 0 {
                rep.sample(json!({"mode": mode, "format": format, "script_head": script.text.chars().take(400).collect::<String>(), "statements": obs.len()}));
            }
        }
        other => {
            // known shape: `;` directly before a line break inside quotes -> the line break disappears
            let strip = |v: &Vec<Vec<(String, String)>>| -> Vec<Vec<(String, String)>> { v.iter().map(|r| r.iter().map(|(a, b)| (a.replace(";\n", ";"), b.replace(";\n", ";"))).collect()).collect() };
            let cleaned = clean_invalid_notes(&sp.stdout);
            let reparsed = parse_cli_output(format, &cleaned).map(|mut o| {
                if trailing.is_some() && mode == "piped" && o.last() == trailing.as_ref() {
                    o.pop();
                }
                o
            });
            let sig = match (&other, &reparsed) {
                (_, Ok(o)) if script.semi_newline && mode == "piped" && *o != expected && *o == strip(&expected) => "piped/semicolon-before-newline-inside-quotes-loses-the-newline".to_string(),
                (Ok(o), _) if o.len() < expected.len() => format!("{mode}/statement-not-executed"),
                (Ok(o), _) if o.len() > expected.len() => format!("{mode}/extra-statement-executed"),
                (Ok(_), _) => format!("{mode}/executed-statement-differs"),
                (Err(_), _) => format!("{mode}/output-unparseable"),
            };
            let obs = match other {
                Ok(o) => json!(o),
                Err(e) => json!({"parse_error": e}),
            };
            rep.violation(&sig, witness("executed statements differ from the reference split", obs));
        }
    }
}

/// the validator's complaint is written to stdout without a line break: `  🤔 Invalid statement: …")<next output>`
fn clean_invalid_notes(stdout: &str) -> String {
    stdout
        .split_inclusive('\n')
        .map(|l| match (l.find("🤔 Invalid statement:"), l.rfind("\")")) {
            (Some(_), Some(end)) => l[end + 2..].to_string(),
            _ => l.to_string(),
        })
        .collect()
}

// ---------------------------------------------------------------------------------------------
// Part B: formats on generated batches
// ---------------------------------------------------------------------------------------------

const STRINGS: &[(&str, &str)] = &[
    ("plain", "abc"),
    ("empty", ""),
    ("comma", "a,b"),
    ("comma", ","),
    ("tab", "a\tb"),
    ("tab", "\t"),
    ("dquote", "q\"q"),
    ("dquote", "\""),
    ("dquote", "\"\""),
    ("dquote", "\"x\""),
    ("squote", "it's"),
    ("newline", "a\nb"),
    ("newline", "\n"),
    ("newline", "x,\n\"y\"\tz"),
    ("cr", "a\rb"),
    ("crlf", "a\r\nb"),
    ("space", " a "),
    ("unicode", "é"),
    ("unicode", "日本語,ß"),
    ("unicode", "🦀\"\t"),
    ("backslash", "a\\b"),
    ("backslash", "\\\""),
    ("backslash", "\\n"),
    ("control", "a\u{1}b"),
    ("control", "\u{8}\u{c}"),
    ("json-like", "{\"k\":[1,null]}"),
    ("json-like", "</script>"),
    ("null-word", "NULL"),
    ("null-word", "null"),
    ("numlike", "1e3"),
    ("boollike", "true"),
    ("semicolon", "a;b"),
];
const COL_NAMES: &[&str] = &["a", "b,c", "t\tt", "q\"q", "Col X", "é", "n\nl", "it's", "{k}", "x;y"];

#[derive(Clone, Debug)]
enum Exp {
    Null,
    Text(String),
    Int(i128),
    Bool(bool),
    F64(f64),
    F32(f32),
    /// date / timestamp / decimal: the expected text is arrow's display form
    Display(String),
    List(Vec<Option<i64>>),
    Struct(Option<i64>, Option<String>),
}

struct GenCol {
    name: String,
    ty: &'static str,
    array: ArrayRef,
    exp: Vec<Exp>,
    nested: bool,
}

fn gen_col(rng: &mut Rng, rep: &Report, idx: usize, nrows: usize, allow_nested: bool) -> GenCol {
    let name = if rng.chance(1, 2) { format!("c{idx}") } else { format!("{}{idx}", rng.pick(COL_NAMES)) };
    let null = |rng: &mut Rng| rng.chance(1, 5);
    let kind = rng.weighted(&[6, 2, 2, 2, 1, 1, 2, 3, 2, 1, 1, 1, if allow_nested { 2 } else { 0 }, if allow_nested { 2 } else { 0 }]);
    let mut exp = vec![];
    let (ty, array, nested): (&'static str, ArrayRef, bool) = match kind {
        0..=2 => {
            let vals: Vec<Option<String>> = (0..nrows)
                .map(|_| {
                    if null(rng) {
                        rep.seen("payload_classes", "cell:NULL");
                        return None;
                    }
                    let (c, s) = *rng.pick(STRINGS);
                    rep.seen("payload_classes", &format!("cell:{c}"));
                    if rng.chance(1, 6) {
                        let (c2, s2) = *rng.pick(STRINGS);
                        rep.seen("payload_classes", &format!("cell:{c2}"));
                        Some(format!("{s}{s2}"))
                    } else {
                        Some(s.to_string())
                    }
                })
                .collect();
            exp = vals.iter().map(|v| v.clone().map(Exp::Text).unwrap_or(Exp::Null)).collect();
            match kind {
                0 => ("Utf8", Arc::new(StringArray::from(vals)) as ArrayRef, false),
                1 => ("LargeUtf8", Arc::new(LargeStringArray::from(vals)) as ArrayRef, false),
                _ => ("Utf8View", Arc::new(StringViewArray::from(vals)) as ArrayRef, false),
            }
        }
        3 => {
            let v: Vec<Option<i64>> = (0..nrows).map(|_| if null(rng) { None } else { Some(*rng.pick(&[0, 1, -1, 42, i64::MAX, i64::MIN, 9007199254740993])) }).collect();
            exp = v.iter().map(|x| x.map(|i| Exp::Int(i as i128)).unwrap_or(Exp::Null)).collect();
            ("Int64", Arc::new(Int64Array::from(v)) as ArrayRef, false)
        }
        4 => {
            let v: Vec<Option<i32>> = (0..nrows).map(|_| if null(rng) { None } else { Some(*rng.pick(&[0, 7, -7, i32::MAX, i32::MIN])) }).collect();
            exp = v.iter().map(|x| x.map(|i| Exp::Int(i as i128)).unwrap_or(Exp::Null)).collect();
            ("Int32", Arc::new(Int32Array::from(v)) as ArrayRef, false)
        }
        5 => {
            let v: Vec<Option<u64>> = (0..nrows).map(|_| if null(rng) { None } else { Some(*rng.pick(&[0, 1, u64::MAX, 1 << 63])) }).collect();
            exp = v.iter().map(|x| x.map(|i| Exp::Int(i as i128)).unwrap_or(Exp::Null)).collect();
            ("UInt64", Arc::new(UInt64Array::from(v)) as ArrayRef, false)
        }
        6 => {
            let v: Vec<Option<bool>> = (0..nrows).map(|_| if null(rng) { None } else { Some(rng.bool()) }).collect();
            exp = v.iter().map(|x| x.map(Exp::Bool).unwrap_or(Exp::Null)).collect();
            ("Boolean", Arc::new(BooleanArray::from(v)) as ArrayRef, false)
        }
        7 => {
            let pool = [0.0, -0.0, 1.5, -2.25, 0.1, 1e20, 1.5e-7, 123456.789, 1e300, f64::NAN, f64::INFINITY, f64::NEG_INFINITY];
            let v: Vec<Option<f64>> = (0..nrows).map(|_| if null(rng) { None } else { Some(*rng.pick(&pool)) }).collect();
            for x in v.iter().flatten() {
                rep.seen("payload_classes", if x.is_finite() { "cell:float" } else { "cell:float-nonfinite" });
            }
            exp = v.iter().map(|x| x.map(Exp::F64).unwrap_or(Exp::Null)).collect();
            ("Float64", Arc::new(Float64Array::from(v)) as ArrayRef, false)
        }
        8 => {
            let pool = [0.0f32, -0.0, 1.5, 0.1, 3.4e38, 1e-40, f32::NAN, f32::INFINITY, f32::NEG_INFINITY];
            let v: Vec<Option<f32>> = (0..nrows).map(|_| if null(rng) { None } else { Some(*rng.pick(&pool)) }).collect();
            for x in v.iter().flatten() {
                rep.seen("payload_classes", if x.is_finite() { "cell:float" } else { "cell:float-nonfinite" });
            }
            exp = v.iter().map(|x| x.map(Exp::F32).unwrap_or(Exp::Null)).collect();
            ("Float32", Arc::new(Float32Array::from(v)) as ArrayRef, false)
        }
        9 | 10 | 11 => {
            let (ty, a): (&'static str, ArrayRef) = match kind {
                9 => ("Date32", Arc::new(Date32Array::from((0..nrows).map(|_| if null(rng) { None } else { Some(*rng.pick(&[0, 19000, -1, 10957, -25567])) }).collect::<Vec<_>>()))),
                10 => (
                    "Timestamp(us)",
                    Arc::new(TimestampMicrosecondArray::from((0..nrows).map(|_| if null(rng) { None } else { Some(*rng.pick(&[0i64, 1_600_000_000_123_456, -1, 1_000_000])) }).collect::<Vec<_>>())),
                ),
                _ => (
                    "Decimal128(10,2)",
                    Arc::new(
                        Decimal128Array::from((0..nrows).map(|_| if null(rng) { None } else { Some(*rng.pick(&[0i128, 1230, -5, 9999999999, 100])) }).collect::<Vec<_>>())
                            .with_precision_and_scale(10, 2)
                            .expect("decimal"),
                    ),
                ),
            };
            rep.seen("payload_classes", "cell:temporal/decimal");
            exp = (0..nrows).map(|r| if a.is_null(r) { Exp::Null } else { Exp::Display(arrow::util::display::array_value_to_string(&a, r).unwrap_or_default()) }).collect();
            (ty, a, false)
        }
        12 => {
            let rows: Vec<Option<Vec<Option<i64>>>> =
                (0..nrows).map(|_| if null(rng) { None } else { Some((0..rng.usize(4)).map(|_| if rng.chance(1, 4) { None } else { Some(rng.range(-5, 5)) }).collect()) }).collect();
            rep.seen("payload_classes", "cell:list");
            exp = rows.iter().map(|r| r.clone().map(Exp::List).unwrap_or(Exp::Null)).collect();
            ("List<Int64>", Arc::new(ListArray::from_iter_primitive::<arrow::datatypes::Int64Type, _, _>(rows)) as ArrayRef, true)
        }
        _ => {
            let rows: Vec<Option<(Option<i64>, Option<String>)>> = (0..nrows)
                .map(|_| if null(rng) { None } else { Some((if rng.chance(1, 4) { None } else { Some(rng.range(-9, 9)) }, if rng.chance(1, 4) { None } else { Some(rng.pick(STRINGS).1.to_string()) })) })
                .collect();
            rep.seen("payload_classes", "cell:struct");
            exp = rows.iter().map(|r| r.clone().map(|(a, b)| Exp::Struct(a, b)).unwrap_or(Exp::Null)).collect();
            let fields = Fields::from(vec![Field::new("a", DataType::Int64, true), Field::new("b", DataType::Utf8, true)]);
            let a = Int64Array::from(rows.iter().map(|r| r.as_ref().and_then(|x| x.0)).collect::<Vec<_>>());
            let b = StringArray::from(rows.iter().map(|r| r.as_ref().and_then(|x| x.1.clone())).collect::<Vec<_>>());
            let nulls = arrow::buffer::NullBuffer::from(rows.iter().map(|r| r.is_some()).collect::<Vec<bool>>());
            ("Struct{a,b}", Arc::new(StructArray::new(fields, vec![Arc::new(a), Arc::new(b)], Some(nulls))) as ArrayRef, true)
        }
    };
    GenCol { name, ty, array, exp, nested }
}

fn near(a: f64, b: f64) -> bool {
    a.to_bits() == b.to_bits() || (a == b) || ((a - b).abs() <= a.abs().max(b.abs()) * 1e-15)
}

/// does the text of a CSV / TSV cell denote the value?
fn text_matches(e: &Exp, t: &str) -> bool {
    match e {
        Exp::Null => t.is_empty(),
        Exp::Text(s) | Exp::Display(s) => t == s,
        Exp::Int(i) => t == i.to_string(),
        Exp::Bool(b) => t == b.to_string(),
        Exp::F64(f) => t.parse::<f64>().map(|p| p.to_bits() == f.to_bits() || (p.is_nan() && f.is_nan())).unwrap_or(false),
        Exp::F32(f) => t.parse::<f32>().map(|p| p.to_bits() == f.to_bits() || (p.is_nan() && f.is_nan())).unwrap_or(false),
        Exp::List(_) | Exp::Struct(..) => false,
    }
}

/// does the JSON value (None = key absent) denote the value? `Err` names what is wrong
fn json_matches(e: &Exp, v: Option<&Json>, rep: &Report) -> bool {
    let v = match v {
        None | Some(Json::Null) => return matches!(e, Exp::Null) || nonfinite(e, rep, "null"),
        Some(v) => v,
    };
    match e {
        Exp::Null => false,
        Exp::Text(s) => v.as_str() == Some(s.as_str()),
        Exp::Int(i) => v.as_i64().map(|x| x as i128 == *i).or(v.as_u64().map(|x| x as i128 == *i)).unwrap_or(false),
        Exp::Bool(b) => v.as_bool() == Some(*b),
        Exp::F64(f) if f.is_finite() => v.as_f64().map(|x| near(x, *f)).unwrap_or(false),
        Exp::F32(f) if f.is_finite() => v.as_f64().map(|x| (x as f32).to_bits() == f.to_bits() || near(x, *f as f64)).unwrap_or(false),
        // JSON has no NaN / infinity: any valid JSON value is tolerated (the document as a whole must parse)
        Exp::F64(_) | Exp::F32(_) => nonfinite(e, rep, if v.is_string() { "string" } else { "other" }),
        Exp::Display(s) => v.as_str().map(|x| x == s).or(v.as_f64().and_then(|x| s.parse::<f64>().ok().map(|y| near(x, y)))).unwrap_or(false),
        Exp::List(items) => v.as_array().map(|a| a.len() == items.len() && a.iter().zip(items).all(|(x, y)| match y { None => x.is_null(), Some(i) => x.as_i64() == Some(*i) })).unwrap_or(false),
        Exp::Struct(a, b) => v
            .as_object()
            .map(|o| {
                o.keys().all(|k| k == "a" || k == "b")
                    && match a { None => o.get("a").map(|x| x.is_null()).unwrap_or(true), Some(i) => o.get("a").and_then(|x| x.as_i64()) == Some(*i) }
                    && match b { None => o.get("b").map(|x| x.is_null()).unwrap_or(true), Some(s) => o.get("b").and_then(|x| x.as_str()) == Some(s.as_str()) }
            })
            .unwrap_or(false),
    }
}

fn nonfinite(e: &Exp, rep: &Report, how: &str) -> bool {
    let nf = matches!(e, Exp::F64(f) if !f.is_finite()) || matches!(e, Exp::F32(f) if !f.is_finite());
    if nf {
        rep.count(&format!("json-nonfinite-float-rendered-as/{how}"), 1);
    }
    nf
}

fn exp_json(e: &Exp) -> Json {
    match e {
        Exp::Null => Json::Null,
        Exp::Text(s) | Exp::Display(s) => json!(s),
        Exp::Int(i) => json!(i.to_string()),
        Exp::Bool(b) => json!(b),
        Exp::F64(f) => json!(format!("{f:?}")),
        Exp::F32(f) => json!(format!("{f:?}f32")),
        Exp::List(l) => json!(l),
        Exp::Struct(a, b) => json!({"a": a, "b": b}),
    }
}

fn batch_case(rep: &Report, args: &Args, idx: u64, rng: &mut Rng) {
    let ncols = 1 + rng.usize(4);
    let nrows = *rng.pick(&[0usize, 1, 2, 3, 5, 8]);
    let allow_nested = rng.chance(1, 4);
    let cols: Vec<GenCol> = (0..ncols).map(|i| gen_col(rng, rep, i, nrows, allow_nested)).collect();
    let schema: SchemaRef = Arc::new(Schema::new(cols.iter().map(|c| Field::new(&c.name, c.array.data_type().clone(), true)).collect::<Vec<_>>()));
    let full = RecordBatch::try_new(schema.clone(), cols.iter().map(|c| c.array.clone()).collect()).expect("batch");
    // slices (non-zero offsets), sometimes with empty batches in between
    let mut batches = vec![];
    let mut off = 0;
    for c in rng.chunks(nrows, 3) {
        if rng.chance(1, 5) {
            batches.push(full.slice(off, 0));
        }
        batches.push(full.slice(off, c));
        off += c;
    }
    if nrows == 0 && rng.bool() {
        batches.push(full.clone());
    }
    let with_header = !rng.chance(1, 5);
    let has_nested = cols.iter().any(|c| c.nested);
    let opts = datafusion::config::FormatOptions::default();
    let fp0 = fp_str(&format!("{:?}{:?}{:?}", cols.iter().map(|c| (&c.name, c.ty)).collect::<Vec<_>>(), cols.iter().map(|c| c.exp.iter().map(exp_json).collect::<Vec<_>>()).collect::<Vec<_>>(), batches.iter().map(|b| b.num_rows()).collect::<Vec<_>>()));
    for (fname, fmt) in [("csv", PrintFormat::Csv), ("tsv", PrintFormat::Tsv), ("json", PrintFormat::Json), ("nd-json", PrintFormat::NdJson), ("automatic", PrintFormat::Automatic), ("table", PrintFormat::Table)] {
        let mut buf: Vec<u8> = vec![];
        let r = vcommon::par::guard(|| fmt.print_batches(&mut buf, schema.clone(), &batches, MaxRows::Unlimited, with_header, &opts));
        rep.case(fp_mix(fp0, fp_str(fname)), nrows > 0);
        let witness = |what: &str, out: &str| {
            json!({"format": fname, "with_header": with_header, "columns": cols.iter().map(|c| json!({"name": c.name, "type": c.ty, "values": c.exp.iter().map(exp_json).collect::<Vec<_>>() })).collect::<Vec<_>>(),
                "batch_rows": batches.iter().map(|b| b.num_rows()).collect::<Vec<_>>(), "output": out, "what": what})
        };
        let out = match r {
            Err(p) => {
                rep.violation(&format!("panic/print_batches/{fname}"), witness(&p, ""));
                continue;
            }
            Ok(Err(e)) => {
                if has_nested && matches!(fname, "csv" | "tsv" | "automatic") {
                    rep.skip("csv-writer-declines-nested-types");
                } else {
                    rep.skip(&format!("print_batches-error/{fname}"));
                    rep.extra(&format!("print_error_sample_{fname}"), json!({"error": e.to_string(), "types": cols.iter().map(|c| c.ty).collect::<Vec<_>>() }));
                }
                continue;
            }
            Ok(Ok(())) => String::from_utf8_lossy(&buf).into_owned(),
        };
        rep.seen("formats", &format!("print_batches:{fname}"));
        for c in &cols {
            rep.seen("types", &format!("{}:{fname}", c.ty));
        }
        if fname == "table" {
            rep.count("table_rendered(no parse-back claimed)", 1);
            continue;
        }
        let mut bad: Option<String> = None;
        if nrows == 0 {
            if !out.is_empty() {
                bad = Some("output for a result without rows".into());
            }
        } else if matches!(fname, "csv" | "tsv" | "automatic") {
            match csv_parse(&out, if fname == "tsv" { '\t' } else { ',' }) {
                Err(e) => bad = Some(format!("unparseable: {e}")),
                Ok(mut recs) => {
                    if with_header {
                        if recs.is_empty() || recs[0] != cols.iter().map(|c| c.name.clone()).collect::<Vec<_>>() {
                            bad = Some("header record differs from the column names".into());
                        } else {
                            recs.remove(0);
                        }
                    }
                    if args.opt_u64("selftest", 0) == 1 && idx % 4 == 0 {
                        if let Some(c) = recs.first_mut().and_then(|r| r.first_mut()) {
                            c.push('~'); // corrupt the observation
                        }
                    }
                    if bad.is_none() && recs.len() != nrows {
                        bad = Some(format!("{} data records for {nrows} rows", recs.len()));
                    }
                    if bad.is_none() {
                        'rows: for (r, rec) in recs.iter().enumerate() {
                            if rec.len() != ncols {
                                bad = Some(format!("record {r} has {} fields for {ncols} columns", rec.len()));
                                break;
                            }
                            for (c, col) in cols.iter().enumerate() {
                                if !text_matches(&col.exp[r], &rec[c]) {
                                    bad = Some(format!("row {r}, column {c}: parsed {:?}, value {}", rec[c], exp_json(&col.exp[r])));
                                    break 'rows;
                                }
                            }
                        }
                    }
                    // plain TAB-splitting must agree wherever no field needed quoting
                    if bad.is_none() && fname == "tsv" && !out.contains('"') {
                        let lines: Vec<&str> = out.lines().collect();
                        let plain: Vec<Vec<String>> = lines.iter().map(|l| l.split('\t').map(|s| s.to_string()).collect()).collect();
                        let again = csv_parse(&out, '\t').unwrap_or_default();
                        if plain.iter().filter(|r| !(r.len() == 1 && r[0].is_empty())).cloned().collect::<Vec<_>>() != again && ncols > 1 {
                            bad = Some("unquoted TSV output does not split at TABs into the same fields".into());
                        }
                    }
                }
            }
        } else {
            let rows: Result<Vec<Json>, String> = if fname == "json" {
                serde_json::from_str::<Json>(&out).map_err(|e| e.to_string()).and_then(|v| v.as_array().cloned().ok_or("not an array".to_string()))
            } else {
                out.lines().map(|l| serde_json::from_str::<Json>(l).map_err(|e| e.to_string())).collect()
            };
            match rows {
                Err(e) => bad = Some(format!("unparseable: {e}")),
                Ok(mut rows) => {
                    if args.opt_u64("selftest", 0) == 1 && idx % 4 == 1 {
                        rows.pop(); // corrupt the observation
                    }
                    if rows.len() != nrows {
                        bad = Some(format!("{} JSON rows for {nrows} rows", rows.len()));
                    } else {
                        'jrows: for (r, row) in rows.iter().enumerate() {
                            let Some(o) = row.as_object() else {
                                bad = Some(format!("row {r} is not an object"));
                                break;
                            };
                            if let Some(k) = o.keys().find(|k| !cols.iter().any(|c| &c.name == *k)) {
                                bad = Some(format!("row {r}: unknown key {k:?}"));
                                break;
                            }
                            for (c, col) in cols.iter().enumerate() {
                                if !json_matches(&col.exp[r], o.get(&col.name), rep) {
                                    bad = Some(format!("row {r}, column {c}: parsed {}, value {}", o.get(&col.name).cloned().unwrap_or(json!("<absent>")), exp_json(&col.exp[r])));
                                    break 'jrows;
                                }
                            }
                        }
                    }
                }
            }
        }
        match bad {
            None => {
                rep.count(&format!("parsed_back_equal/{fname}"), 1);
                if rep.want_sample() && nrows >= 2 && idx % 97 == 0 && fname != "automatic" {
                    rep.sample(json!({"format": fname, "types": cols.iter().map(|c| c.ty).collect::<Vec<_>>(), "output": out.chars().take(300).collect::<String>()}));
                }
            }
            Some(what) => {
                let class = if what.starts_with("unparseable") { "unparseable" } else if what.contains("header") { "header" } else if what.contains("records for") || what.contains("JSON rows for") || what.contains("fields for") { "shape" } else { "cell" };
                rep.violation(&format!("format/{fname}/{class}"), witness(&what, &out));
            }
        }
    }
}

// ---------------------------------------------------------------------------------------------

fn run(args: &Args) -> i32 {
    let rep = Report::new("C51", "exploration", args);
    rep.set_rule("script case = generated script (36 statements `SELECT '<payload>' AS \"<ident>\"` with unique markers; payload / identifier classes x separators `;\\n`, `; `, `;`, blank lines, multi-line statements, optional unterminated last statement) x {piped stdin, -f file} x --format {csv,json,nd-json,tsv} run by the real CLI binary; format case = generated record batches (1-4 columns of 14 types, 0-8 rows, sliced into 1-3 batches) x 6 PrintFormat variants; distinct = hash(script, mode) / hash(schema, values, batch sizes, format); non-trivial = every script case; format cases with at least one row");
    rep.assume("expected cell text for date / timestamp / decimal columns is arrow's display form; floats are compared by value after parsing the text back");
    rep.assume("JSON cannot express NaN / infinity: for such cells only a parseable document is demanded; a NULL may be an absent key or null");
    rep.assume("TSV is written by the CSV writer with TAB as delimiter (print_format.rs: print_batches_with_sep): fields holding TAB, quote or line break are quoted, so they are read back with the quote-aware reader; where nothing is quoted plain TAB splitting must agree");
    rep.assume("piped input: a last statement without `;` is left pending by the REPL (incomplete input), only -f promises to run it (exec_from_lines); -f reads line by line without regard to quotes, so line breaks inside quotes are only generated for the pipe");
    let tmp = tempfile::Builder::new().prefix("c51-").tempdir().expect("tempdir");
    let root = tmp.path().to_path_buf();

    // Part A
    match find_dfcli(args) {
        None => rep.inconclusive("the dfcli binary is not built (cargo build --profile verif -p extra --bin dfcli)"),
        Some(dfcli) => {
            let n_piped = args.bound("piped_scripts", 56, 720);
            let n_file = args.bound("file_scripts", 28, 360);
            let n_semi_nl = args.bound("semicolon_newline_scripts", 4, 16);
            let jobs: Vec<(u64, &'static str, bool)> =
                (0..n_piped).map(|i| (i, "piped", false)).chain((0..n_file).map(|i| (n_piped + i, "file", false))).chain((0..n_semi_nl).map(|i| (n_piped + n_file + i, "piped", true))).collect();
            vcommon::par::run(args.workers, jobs.into_iter(), |(i, mode, semi_nl)| {
                // the first eight scripts of each mode are seed independent
                let mut rng = if semi_nl {
                    Rng::derive(0xC51, &[2, i]) // the scripts that show the known deviation are the same for every seed
                } else if i % (n_piped.max(1)) < 8 {
                    Rng::derive(0xC51, &[0, i])
                } else {
                    Rng::derive(args.seed, &[51, 0, i])
                };
                script_case(&rep, args, &dfcli, &root, i, mode, semi_nl, &mut rng);
            });
            for m in ["piped", "file"] {
                for f in ["csv", "json", "nd-json", "tsv"] {
                    rep.obligation(&format!("cli:{m}/{f}"), rep.get_count(&format!("spawns/{m}/{f}")) > 0, "every mode x --format must have been run");
                }
            }
            for c in ["literal:semicolon", "literal:doubled-single-quote", "literal:other-quote", "literal:unicode", "literal:comment-marker", "literal:newline", "identifier:semicolon", "identifier:doubled-double-quote", "identifier:other-quote"] {
                rep.obligation(&format!("payload:{c}"), rep.has_seen("payload_classes", c), "payload class must occur in an executed script");
            }
        }
    }

    // Part B
    let n_sys = 600u64;
    let n_rand = args.bound("batches", 2400, 40000);
    vcommon::par::run(args.workers, 0..(n_sys + n_rand), |i| {
        let mut rng = if i < n_sys { Rng::derive(0xC51, &[1, i]) } else { Rng::derive(args.seed, &[51, 1, i]) };
        batch_case(&rep, args, i, &mut rng);
    });
    for f in ["csv", "tsv", "json", "nd-json", "automatic"] {
        rep.obligation(&format!("format:{f}"), rep.get_count(&format!("parsed_back_equal/{f}")) > 0 || rep.violation_count() > 0, "every format must have been parsed back");
    }
    for c in ["cell:NULL", "cell:comma", "cell:tab", "cell:dquote", "cell:newline", "cell:unicode", "cell:float-nonfinite", "cell:list", "cell:struct"] {
        rep.obligation(&format!("payload:{c}"), rep.has_seen("payload_classes", c), "cell class must have been printed");
    }
    rep.finish()
}

fn main() {
    let args = Args::parse();
    vcommon::par::quiet_panics();
    std::process::exit(run(&args));
}
