//! The real `datafusion-cli` entry point, compiled from /repo's unmodified main.rs inside the
//! harness workspace (so it is rebuilt from /repo's working tree together with everything else).
#![allow(clippy::all)]
include!("/repo/datafusion-cli/src/main.rs");
