//! Shared pieces of the file-level checks (C25 write/read-back, C26 byte-range scans, C27 listing
//! pruning): small typed tables incl. dates, SQL literal rendering, physical-plan file-group
//! extraction, and an in-memory `ObjectStore` that re-chunks every GET response.

use crate::value::{Row, Value};
use arrow::array::*;
use arrow::datatypes::{DataType, Field, Schema, SchemaRef};
use arrow::record_batch::RecordBatch;
use async_trait::async_trait;
use bytes::Bytes;
use datafusion::datasource::physical_plan::FileScanConfig;
use datafusion::datasource::source::DataSourceExec;
use datafusion::physical_plan::ExecutionPlan;
use futures::stream::BoxStream;
use futures::StreamExt;
use object_store::memory::InMemory;
use object_store::path::Path;
use object_store::{
    CopyOptions, GetOptions, GetResult, GetResultPayload, ListResult, MultipartUpload, ObjectMeta, ObjectStore, PutMultipartOptions, PutOptions,
    PutPayload, PutResult,
};
use std::sync::atomic::{AtomicU64, Ordering};
use std::sync::Arc;

// ------------------------------------------------------------------------------------------
// typed columns (dates are `Value::Int(days since epoch)`, Int32 values are `Value::Int`)

#[derive(Clone, Copy, Debug, PartialEq, Eq, Hash)]
pub enum CT {
    I64,
    I32,
    F64,
    Str,
    Bool,
    Date,
}

impl CT {
    pub fn sql(&self) -> &'static str {
        match self {
            CT::I64 => "BIGINT",
            CT::I32 => "INT",
            CT::F64 => "DOUBLE",
            CT::Str => "VARCHAR",
            CT::Bool => "BOOLEAN",
            CT::Date => "DATE",
        }
    }
    pub fn arrow(&self) -> DataType {
        match self {
            CT::I64 => DataType::Int64,
            CT::I32 => DataType::Int32,
            CT::F64 => DataType::Float64,
            CT::Str => DataType::Utf8,
            CT::Bool => DataType::Boolean,
            CT::Date => DataType::Date32,
        }
    }
}

pub type Cols = Vec<(String, CT)>;

pub fn schema_of(cols: &[(String, CT)], non_null: &[&str]) -> SchemaRef {
    Arc::new(Schema::new(cols.iter().map(|(n, t)| Field::new(n, t.arrow(), !non_null.contains(&n.as_str()))).collect::<Vec<_>>()))
}

pub fn column_of(rows: &[&Row], c: usize, ty: CT) -> ArrayRef {
    let int = |r: &&Row| if let Value::Int(i) = &r[c] { Some(*i) } else { None };
    match ty {
        CT::I64 => Arc::new(Int64Array::from_iter(rows.iter().map(int))),
        CT::I32 => Arc::new(Int32Array::from_iter(rows.iter().map(|r| int(r).map(|x| x as i32)))),
        CT::Date => Arc::new(Date32Array::from_iter(rows.iter().map(|r| int(r).map(|x| x as i32)))),
        CT::F64 => Arc::new(Float64Array::from_iter(rows.iter().map(|r| if let Value::Float(f) = &r[c] { Some(*f) } else { None }))),
        CT::Str => Arc::new(StringArray::from_iter(rows.iter().map(|r| if let Value::Str(s) = &r[c] { Some(s.clone()) } else { None }))),
        CT::Bool => Arc::new(BooleanArray::from_iter(rows.iter().map(|r| r[c].as_bool()))),
    }
}

pub fn batch_of(schema: &SchemaRef, cols: &[(String, CT)], rows: &[&Row]) -> RecordBatch {
    let arrays: Vec<ArrayRef> = cols.iter().enumerate().map(|(c, (_, t))| column_of(rows, c, *t)).collect();
    RecordBatch::try_new(schema.clone(), arrays).expect("harness batch")
}

/// days since 1970-01-01 → `YYYY-MM-DD`
pub fn date_str(days: i64) -> String {
    let d = chrono::NaiveDate::from_num_days_from_ce_opt(719_163 + days as i32).expect("date in range");
    d.format("%Y-%m-%d").to_string()
}

/// `'…'` with single quotes doubled
pub fn sql_str(s: &str) -> String {
    format!("'{}'", s.replace('\'', "''"))
}

/// SQL literal of a value of the given column type
pub fn sql_lit(v: &Value, ty: CT) -> String {
    match (v, ty) {
        (Value::Null, _) => "NULL".into(),
        (Value::Int(d), CT::Date) => format!("DATE '{}'", date_str(*d)),
        (Value::Int(i), _) => i.to_string(),
        (Value::Float(f), _) => format!("{f:?}"),
        (Value::Str(s), _) => sql_str(s),
        (Value::Bool(b), _) => b.to_string(),
    }
}

// ------------------------------------------------------------------------------------------
// what a physical plan scans

#[derive(Clone, Debug)]
pub struct ScannedFile {
    /// object-store path (no leading slash)
    pub path: String,
    pub range: Option<(i64, i64)>,
    pub size: u64,
}

fn walk(plan: &Arc<dyn ExecutionPlan>, out: &mut Vec<Vec<Vec<ScannedFile>>>) {
    if let Some(ds) = plan.downcast_ref::<DataSourceExec>() {
        if let Some(cfg) = ds.data_source().downcast_ref::<FileScanConfig>() {
            out.push(
                cfg.file_groups
                    .iter()
                    .map(|g| {
                        g.iter()
                            .map(|f| ScannedFile { path: f.object_meta.location.to_string(), range: f.range.as_ref().map(|r| (r.start, r.end)), size: f.object_meta.size })
                            .collect()
                    })
                    .collect(),
            );
        }
    }
    for c in plan.children() {
        walk(c, out);
    }
}

/// file groups of every file scan in the plan: scans → groups → files
pub fn plan_file_groups(plan: &Arc<dyn ExecutionPlan>) -> Vec<Vec<Vec<ScannedFile>>> {
    let mut out = vec![];
    walk(plan, &mut out);
    out
}

// ------------------------------------------------------------------------------------------
// re-chunking object store

#[derive(Clone, Copy, Debug, PartialEq, Eq, Hash)]
pub enum Chunking {
    /// as the wrapped store delivers it (one chunk)
    Whole,
    Fixed(usize),
    /// chunk sizes uniform in 1..=max from a generator seeded by (seed, range.start, range.end)
    Random { seed: u64, max: usize },
}

impl Chunking {
    pub fn name(&self) -> String {
        match self {
            Chunking::Whole => "whole".into(),
            Chunking::Fixed(n) => format!("fixed{n}"),
            Chunking::Random { max, .. } => format!("random<= {max}").replace(' ', ""),
        }
    }
}

/// `InMemory` store whose GET responses are delivered as a stream of chunks cut by `Chunking`.
#[derive(Debug)]
pub struct ChunkStore {
    inner: InMemory,
    pub chunking: Chunking,
    /// number of `get_opts` calls served (range reads + full reads)
    pub gets: AtomicU64,
}

impl ChunkStore {
    pub fn new(chunking: Chunking) -> Self {
        ChunkStore { inner: InMemory::new(), chunking, gets: AtomicU64::new(0) }
    }
    pub fn gets(&self) -> u64 {
        self.gets.load(Ordering::Relaxed)
    }
}

impl std::fmt::Display for ChunkStore {
    fn fmt(&self, f: &mut std::fmt::Formatter<'_>) -> std::fmt::Result {
        write!(f, "ChunkStore({})", self.chunking.name())
    }
}

pub fn cut(data: Bytes, chunking: Chunking, salt: (u64, u64)) -> Vec<Bytes> {
    let mut out = vec![];
    let mut off = 0usize;
    let mut rng = match chunking {
        Chunking::Random { seed, .. } => Some(vcommon::Rng::derive(seed, &[salt.0, salt.1])),
        _ => None,
    };
    while off < data.len() {
        let n = match chunking {
            Chunking::Whole => data.len(),
            Chunking::Fixed(n) => n.max(1),
            Chunking::Random { max, .. } => 1 + rng.as_mut().unwrap().usize(max.max(1)),
        }
        .min(data.len() - off);
        out.push(data.slice(off..off + n));
        off += n;
    }
    out
}

#[async_trait]
impl ObjectStore for ChunkStore {
    async fn put_opts(&self, location: &Path, payload: PutPayload, opts: PutOptions) -> object_store::Result<PutResult> {
        self.inner.put_opts(location, payload, opts).await
    }
    async fn put_multipart_opts(&self, location: &Path, opts: PutMultipartOptions) -> object_store::Result<Box<dyn MultipartUpload>> {
        self.inner.put_multipart_opts(location, opts).await
    }
    async fn get_opts(&self, location: &Path, options: GetOptions) -> object_store::Result<GetResult> {
        self.gets.fetch_add(1, Ordering::Relaxed);
        let head = options.head;
        let res = self.inner.get_opts(location, options).await?;
        if head {
            return Ok(res);
        }
        let (meta, range, attributes) = (res.meta.clone(), res.range.clone(), res.attributes.clone());
        let data = res.bytes().await?;
        let chunks = cut(data, self.chunking, (range.start, range.end));
        let stream: BoxStream<'static, object_store::Result<Bytes>> = futures::stream::iter(chunks.into_iter().map(Ok)).boxed();
        Ok(GetResult { payload: GetResultPayload::Stream(stream), meta, range, attributes })
    }
    fn delete_stream(&self, locations: BoxStream<'static, object_store::Result<Path>>) -> BoxStream<'static, object_store::Result<Path>> {
        self.inner.delete_stream(locations)
    }
    fn list(&self, prefix: Option<&Path>) -> BoxStream<'static, object_store::Result<ObjectMeta>> {
        self.inner.list(prefix)
    }
    async fn list_with_delimiter(&self, prefix: Option<&Path>) -> object_store::Result<ListResult> {
        self.inner.list_with_delimiter(prefix).await
    }
    async fn copy_opts(&self, from: &Path, to: &Path, options: CopyOptions) -> object_store::Result<()> {
        self.inner.copy_opts(from, to, options).await
    }
}
