//! Shared engines for the engine-level checks (see /verif/DESIGN.md §3).
pub mod ast;
pub mod canon;
pub mod diffrun;
pub mod cases;
pub mod chaos;
pub mod dfapi;
pub mod engine;
pub mod exprgen;
pub mod filetab;
pub mod fnrep;
pub mod planmon;
pub mod qgen;
pub mod refint;
pub mod replay;
pub mod shrink;
pub mod sched;
pub mod value;

pub use vcommon;
