pub fn dummy(){}
