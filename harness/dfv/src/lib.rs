//! Shared engines for the engine-level checks (see /verif/DESIGN.md §3).
pub mod ast;
pub mod canon;
pub mod cases;
pub mod engine;
pub mod qgen;
pub mod refint;
pub mod replay;
pub mod value;

pub use vcommon;
