//! Witness minimisation: greedy delta debugging over the query AST and the table contents.
//! `still_fails(case)` decides whether a candidate still shows the deviation.

use crate::ast::*;
use crate::canon::mode_for;
use crate::cases::Case;
use crate::refint::Db;

fn rebuild(case: &Case, q: Query, db: Db) -> Case {
    let sql = to_sql(&q);
    let mode = mode_for(&q);
    // keep the original physical layout shape when the table row counts are unchanged, else one partition
    let same = db.tables.iter().zip(case.db.tables.iter()).all(|(a, b)| a.rows.len() == b.rows.len()) && db.tables.len() == case.db.tables.len();
    let layout = if same {
        case.layout.clone()
    } else {
        db.tables.iter().map(|t| vec![(0..t.rows.len()).map(|i| vec![i]).collect::<Vec<_>>()]).collect()
    };
    Case { db, query: q, sql, tys: case.tys.clone(), feats: case.feats.clone(), mode, layout }
}

/// all one-step simplifications of an expression (children first, then NULL / simple literals)
fn expr_variants(e: &Expr) -> Vec<Expr> {
    let mut out: Vec<Expr> = vec![];
    match e {
        Expr::Bin(a, op, b) => {
            out.push((**a).clone());
            out.push((**b).clone());
            for x in expr_variants(a) {
                out.push(Expr::Bin(Box::new(x), *op, b.clone()));
            }
            for x in expr_variants(b) {
                out.push(Expr::Bin(a.clone(), *op, Box::new(x)));
            }
        }
        Expr::Not(a) | Expr::Neg(a) => {
            out.push((**a).clone());
            for x in expr_variants(a) {
                out.push(if matches!(e, Expr::Not(_)) { Expr::Not(Box::new(x)) } else { Expr::Neg(Box::new(x)) });
            }
        }
        Expr::Cast(a, ty) => {
            out.push((**a).clone());
            for x in expr_variants(a) {
                out.push(Expr::Cast(Box::new(x), *ty));
            }
        }
        Expr::IsNull(a, n) => {
            for x in expr_variants(a) {
                out.push(Expr::IsNull(Box::new(x), *n));
            }
        }
        Expr::Case { operand, whens, else_ } => {
            for (_, t) in whens {
                out.push(t.clone());
            }
            if let Some(x) = else_ {
                out.push((**x).clone());
            }
            if whens.len() > 1 {
                for i in 0..whens.len() {
                    let mut w = whens.clone();
                    w.remove(i);
                    out.push(Expr::Case { operand: operand.clone(), whens: w, else_: else_.clone() });
                }
            }
            if else_.is_some() {
                out.push(Expr::Case { operand: operand.clone(), whens: whens.clone(), else_: None });
            }
        }
        Expr::Coalesce(xs) | Expr::Func(_, xs) => {
            for x in xs {
                out.push(x.clone());
            }
        }
        Expr::NullIf(a, _) => out.push((**a).clone()),
        Expr::InList { e: x, list, negated } if list.len() > 1 => {
            for i in 0..list.len() {
                let mut l = list.clone();
                l.remove(i);
                out.push(Expr::InList { e: x.clone(), list: l, negated: *negated });
            }
        }
        Expr::Exists { q, negated } => {
            for q2 in query_variants(q) {
                out.push(Expr::Exists { q: Box::new(q2), negated: *negated });
            }
        }
        Expr::InSubquery { e: x, q, negated } => {
            for q2 in query_variants(q) {
                out.push(Expr::InSubquery { e: x.clone(), q: Box::new(q2), negated: *negated });
            }
            for x2 in expr_variants(x) {
                out.push(Expr::InSubquery { e: Box::new(x2), q: q.clone(), negated: *negated });
            }
        }
        Expr::Scalar(q) => {
            for q2 in query_variants(q) {
                out.push(Expr::Scalar(Box::new(q2)));
            }
        }
        Expr::Quantified { e: x, op, all, q } => {
            for q2 in query_variants(q) {
                out.push(Expr::Quantified { e: x.clone(), op: *op, all: *all, q: Box::new(q2) });
            }
        }
        Expr::Agg { f, arg, distinct, filter } => {
            if filter.is_some() {
                out.push(Expr::Agg { f: *f, arg: arg.clone(), distinct: *distinct, filter: None });
            }
            if *distinct {
                out.push(Expr::Agg { f: *f, arg: arg.clone(), distinct: false, filter: filter.clone() });
            }
            if let Some(a) = arg {
                for x in expr_variants(a) {
                    out.push(Expr::Agg { f: *f, arg: Some(Box::new(x)), distinct: *distinct, filter: filter.clone() });
                }
            }
        }
        Expr::Win { f, args, partition_by, order_by, frame } => {
            if !partition_by.is_empty() {
                out.push(Expr::Win { f: *f, args: args.clone(), partition_by: vec![], order_by: order_by.clone(), frame: frame.clone() });
            }
            if order_by.len() > 1 {
                for i in 0..order_by.len() {
                    let mut o = order_by.clone();
                    o.remove(i);
                    out.push(Expr::Win { f: *f, args: args.clone(), partition_by: partition_by.clone(), order_by: o, frame: frame.clone() });
                }
            }
            for (i, a) in args.iter().enumerate() {
                for x in expr_variants(a) {
                    let mut a2 = args.clone();
                    a2[i] = x;
                    out.push(Expr::Win { f: *f, args: a2, partition_by: partition_by.clone(), order_by: order_by.clone(), frame: frame.clone() });
                }
            }
        }
        _ => {}
    }
    out
}

fn from_variants(f: &From) -> Vec<From> {
    let mut out = vec![];
    match f {
        From::Join { left, right, kind, on } => {
            out.push((**left).clone());
            out.push((**right).clone());
            if let Some(o) = on {
                for x in expr_variants(o) {
                    out.push(From::Join { left: left.clone(), right: right.clone(), kind: *kind, on: Some(x) });
                }
            }
            for l in from_variants(left) {
                out.push(From::Join { left: Box::new(l), right: right.clone(), kind: *kind, on: on.clone() });
            }
            for r in from_variants(right) {
                out.push(From::Join { left: left.clone(), right: Box::new(r), kind: *kind, on: on.clone() });
            }
        }
        From::Derived { q, alias } => {
            for q2 in query_variants(q) {
                out.push(From::Derived { q: Box::new(q2), alias: alias.clone() });
            }
        }
        _ => {}
    }
    out
}

fn select_variants(s: &Select) -> Vec<Select> {
    let mut out = vec![];
    let with = |f: &dyn Fn(&mut Select)| {
        let mut c = s.clone();
        f(&mut c);
        c
    };
    if s.where_.is_some() {
        out.push(with(&|c| c.where_ = None));
        for x in expr_variants(s.where_.as_ref().unwrap()) {
            out.push(with(&|c| c.where_ = Some(x.clone())));
        }
    }
    if s.having.is_some() {
        out.push(with(&|c| c.having = None));
    }
    if s.distinct {
        out.push(with(&|c| c.distinct = false));
    }
    if s.grouping != Grouping::Plain {
        out.push(with(&|c| {
            c.grouping = Grouping::Plain;
            c.sets.clear();
        }));
    }
    if let Some(f) = &s.from {
        for f2 in from_variants(f) {
            out.push(with(&|c| c.from = Some(f2.clone())));
        }
    }
    for i in 0..s.items.len() {
        for x in expr_variants(&s.items[i].0) {
            out.push(with(&|c| c.items[i].0 = x.clone()));
        }
    }
    for i in 0..s.group_by.len() {
        out.push(with(&|c| {
            c.group_by.remove(i);
        }));
    }
    out
}

fn set_variants(s: &SetExpr) -> Vec<SetExpr> {
    match s {
        SetExpr::Select(sel) => select_variants(sel).into_iter().map(|x| SetExpr::Select(Box::new(x))).collect(),
        SetExpr::SetOp { op, all, left, right } => {
            let mut out = vec![(**left).clone(), (**right).clone()];
            for l in set_variants(left) {
                out.push(SetExpr::SetOp { op: *op, all: *all, left: Box::new(l), right: right.clone() });
            }
            for r in set_variants(right) {
                out.push(SetExpr::SetOp { op: *op, all: *all, left: left.clone(), right: Box::new(r) });
            }
            out
        }
    }
}

/// drop the i-th output column consistently from every branch of a set expression
fn drop_column(s: &SetExpr, i: usize) -> SetExpr {
    match s {
        SetExpr::Select(sel) => {
            let mut c = (**sel).clone();
            if c.items.len() > 1 && i < c.items.len() {
                c.items.remove(i);
            }
            SetExpr::Select(Box::new(c))
        }
        SetExpr::SetOp { op, all, left, right } => SetExpr::SetOp { op: *op, all: *all, left: Box::new(drop_column(left, i)), right: Box::new(drop_column(right, i)) },
    }
}

pub fn query_variants(q: &Query) -> Vec<Query> {
    let mut out = vec![];
    if q.limit.is_some() || q.offset.is_some() {
        let mut c = q.clone();
        c.limit = None;
        c.offset = None;
        out.push(c);
    }
    if !q.order_by.is_empty() {
        let mut c = q.clone();
        c.order_by.clear();
        c.limit = None;
        c.offset = None;
        out.push(c);
        if q.order_by.len() > 1 {
            for i in 0..q.order_by.len() {
                let mut c = q.clone();
                c.order_by.remove(i);
                out.push(c);
            }
        }
    }
    if !q.ctes.is_empty() {
        let mut c = q.clone();
        c.ctes.clear();
        out.push(c);
    }
    for b in set_variants(&q.body) {
        let mut c = q.clone();
        c.body = b;
        out.push(c);
    }
    let n = q.output_names().len();
    if n > 1 {
        let names = q.output_names();
        for i in 0..n {
            let mut c = q.clone();
            c.body = drop_column(&q.body, i);
            c.order_by.retain(|o| !matches!(&o.expr, Expr::OutCol(x) if *x == names[i]));
            out.push(c);
        }
    }
    out
}

/// Greedy minimisation. `still_fails` is called on each candidate (it should be cheap and must be
/// robust: engine rejections / reference refusals count as "does not fail").
pub fn shrink(case: &Case, still_fails: &dyn Fn(&Case) -> bool, max_steps: usize) -> Case {
    let mut cur = rebuild(case, case.query.clone(), case.db.clone());
    let mut steps = 0;
    'outer: loop {
        if steps >= max_steps {
            break;
        }
        // 1. query simplifications
        for q in query_variants(&cur.query) {
            steps += 1;
            let cand = rebuild(&cur, q, cur.db.clone());
            if cand.sql.len() < cur.sql.len() && still_fails(&cand) {
                cur = cand;
                continue 'outer;
            }
            if steps >= max_steps {
                break 'outer;
            }
        }
        // 2. data simplifications: drop halves, then single rows
        for ti in 0..cur.db.tables.len() {
            let n = cur.db.tables[ti].rows.len();
            if n == 0 {
                continue;
            }
            let mut cands: Vec<Vec<usize>> = vec![];
            if n > 1 {
                cands.push((0..n / 2).collect());
                cands.push((n / 2..n).collect());
            }
            for i in 0..n {
                cands.push(vec![i]);
            }
            for drop in cands {
                steps += 1;
                let mut db = cur.db.clone();
                db.tables[ti].rows = db.tables[ti].rows.iter().enumerate().filter(|(i, _)| !drop.contains(i)).map(|(_, r)| r.clone()).collect();
                let cand = rebuild(&cur, cur.query.clone(), db);
                if still_fails(&cand) {
                    cur = cand;
                    continue 'outer;
                }
                if steps >= max_steps {
                    break 'outer;
                }
            }
        }
        break;
    }
    cur
}
