//! Plain SQL values for the reference side (no arrow, no datafusion).

use std::cmp::Ordering;
use vcommon::{json, Json};

#[derive(Clone, Copy, Debug, PartialEq, Eq, Hash, PartialOrd, Ord)]
pub enum Ty {
    Int,
    Float,
    Str,
    Bool,
}

impl Ty {
    pub fn sql(&self) -> &'static str {
        match self {
            Ty::Int => "BIGINT",
            Ty::Float => "DOUBLE",
            Ty::Str => "VARCHAR",
            Ty::Bool => "BOOLEAN",
        }
    }
    pub fn is_num(&self) -> bool {
        matches!(self, Ty::Int | Ty::Float)
    }
}

#[derive(Clone, Debug)]
pub enum Value {
    Null,
    Int(i64),
    Float(f64),
    Str(String),
    Bool(bool),
}

pub type Row = Vec<Value>;

impl Value {
    pub fn is_null(&self) -> bool {
        matches!(self, Value::Null)
    }
    pub fn as_f64(&self) -> Option<f64> {
        match self {
            Value::Int(i) => Some(*i as f64),
            Value::Float(f) => Some(*f),
            _ => None,
        }
    }
    pub fn as_bool(&self) -> Option<bool> {
        match self {
            Value::Bool(b) => Some(*b),
            _ => None,
        }
    }
    pub fn to_json(&self) -> Json {
        match self {
            Value::Null => Json::Null,
            Value::Int(i) => json!(i),
            Value::Float(f) => {
                if f.is_finite() {
                    json!(f)
                } else {
                    json!(format!("{f}"))
                }
            }
            Value::Str(s) => json!(s),
            Value::Bool(b) => json!(b),
        }
    }
    pub fn from_json(j: &Json, ty: Ty) -> Value {
        match (j, ty) {
            (Json::Null, _) => Value::Null,
            (Json::Bool(b), _) => Value::Bool(*b),
            (Json::String(s), Ty::Float) => Value::Float(s.parse().unwrap_or(f64::NAN)),
            (Json::String(s), _) => Value::Str(s.clone()),
            (Json::Number(n), Ty::Float) => Value::Float(n.as_f64().unwrap_or(0.0)),
            (Json::Number(n), _) => n.as_i64().map(Value::Int).unwrap_or_else(|| Value::Float(n.as_f64().unwrap_or(0.0))),
            _ => Value::Null,
        }
    }
    pub fn render(&self) -> String {
        match self {
            Value::Null => "NULL".into(),
            Value::Int(i) => i.to_string(),
            Value::Float(f) => format!("{f:?}"),
            Value::Str(s) => format!("'{s}'"),
            Value::Bool(b) => b.to_string(),
        }
    }
}

/// SQL comparison of two non-null values of comparable types (numeric mixes compare as f64).
/// Floats: the engine's total order for comparisons (NaN = NaN, NaN greatest, -0.0 = 0.0).
pub fn cmp_nonnull(a: &Value, b: &Value) -> Option<Ordering> {
    match (a, b) {
        (Value::Int(x), Value::Int(y)) => Some(x.cmp(y)),
        (Value::Str(x), Value::Str(y)) => Some(x.as_bytes().cmp(y.as_bytes())),
        (Value::Bool(x), Value::Bool(y)) => Some(x.cmp(y)),
        (Value::Null, _) | (_, Value::Null) => None,
        _ => {
            let (x, y) = (a.as_f64()?, b.as_f64()?);
            Some(cmp_f64(x, y))
        }
    }
}

pub fn cmp_f64(x: f64, y: f64) -> Ordering {
    match (x.is_nan(), y.is_nan()) {
        (true, true) => Ordering::Equal,
        (true, false) => Ordering::Greater,
        (false, true) => Ordering::Less,
        _ => x.partial_cmp(&y).unwrap_or(Ordering::Equal),
    }
}

/// Grouping / DISTINCT / set-operation equality: NULL equals NULL.
pub fn group_eq(a: &Value, b: &Value) -> bool {
    match (a, b) {
        (Value::Null, Value::Null) => true,
        (Value::Null, _) | (_, Value::Null) => false,
        _ => cmp_nonnull(a, b) == Some(Ordering::Equal),
    }
}

/// Total order used for canonical sorting of rows (NULL last); numeric mixes by value.
pub fn total_cmp(a: &Value, b: &Value) -> Ordering {
    fn rank(v: &Value) -> u8 {
        match v {
            Value::Bool(_) => 0,
            Value::Int(_) | Value::Float(_) => 1,
            Value::Str(_) => 2,
            Value::Null => 9,
        }
    }
    match (a, b) {
        (Value::Null, Value::Null) => Ordering::Equal,
        _ if rank(a) != rank(b) => rank(a).cmp(&rank(b)),
        _ => cmp_nonnull(a, b).unwrap_or(Ordering::Equal),
    }
}

pub fn row_total_cmp(a: &[Value], b: &[Value]) -> Ordering {
    for (x, y) in a.iter().zip(b.iter()) {
        let c = total_cmp(x, y);
        if c != Ordering::Equal {
            return c;
        }
    }
    a.len().cmp(&b.len())
}

pub fn row_group_eq(a: &[Value], b: &[Value]) -> bool {
    a.len() == b.len() && a.iter().zip(b.iter()).all(|(x, y)| group_eq(x, y))
}

/// Output comparison of two cells: exact, except floats within a relative tolerance
/// (only `avg`-like results are ever inexact; everything else in the generators is dyadic).
pub fn cell_close(a: &Value, b: &Value) -> bool {
    match (a, b) {
        (Value::Null, Value::Null) => true,
        (Value::Null, _) | (_, Value::Null) => false,
        (Value::Str(x), Value::Str(y)) => x == y,
        (Value::Bool(x), Value::Bool(y)) => x == y,
        (Value::Int(x), Value::Int(y)) => x == y,
        (Value::Str(_), _) | (_, Value::Str(_)) | (Value::Bool(_), _) | (_, Value::Bool(_)) => false,
        _ => {
            let (x, y) = (a.as_f64().unwrap(), b.as_f64().unwrap());
            if x.is_nan() || y.is_nan() {
                return x.is_nan() && y.is_nan();
            }
            if x == y {
                return true;
            }
            let d = (x - y).abs();
            d <= 1e-9 * x.abs().max(y.abs()).max(1.0)
        }
    }
}

pub fn row_close(a: &[Value], b: &[Value]) -> bool {
    a.len() == b.len() && a.iter().zip(b.iter()).all(|(x, y)| cell_close(x, y))
}

pub fn rows_to_json(rows: &[Row]) -> Json {
    Json::Array(rows.iter().map(|r| Json::Array(r.iter().map(|v| v.to_json()).collect())).collect())
}

/// Structural equality (AST equality): NULL == NULL, floats by bit pattern.
impl PartialEq for Value {
    fn eq(&self, other: &Self) -> bool {
        match (self, other) {
            (Value::Null, Value::Null) => true,
            (Value::Int(a), Value::Int(b)) => a == b,
            (Value::Float(a), Value::Float(b)) => a.to_bits() == b.to_bits(),
            (Value::Str(a), Value::Str(b)) => a == b,
            (Value::Bool(a), Value::Bool(b)) => a == b,
            _ => false,
        }
    }
}
