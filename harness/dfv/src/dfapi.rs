//! Query-AST → DataFusion API objects (ScalarValue / `Expr`), shared by C41 and C48.
//!
//! The conversion is purely syntactic: one AST node becomes the API spelling of the same SQL
//! construct (no simplification, no coercion — those stay the engine's job).

use crate::ast::{self, AggFn, BinOp, Bound, FrameUnit, WinFn};
use crate::value::{Ty, Value};
use datafusion::common::{Column, ScalarValue, TableReference};
use datafusion::logical_expr::expr::Sort;
use datafusion::logical_expr::{
    Between, BinaryExpr, Cast, Expr, ExprFunctionExt, Like, LogicalPlan, Operator, WindowFrame, WindowFrameBound, WindowFrameUnits,
};
use std::sync::Arc;

/// typed scalar (NULL keeps the type of its slot)
pub fn scalar_of(v: &Value, ty: Ty) -> ScalarValue {
    match (v, ty) {
        (Value::Null, Ty::Int) => ScalarValue::Int64(None),
        (Value::Null, Ty::Float) => ScalarValue::Float64(None),
        (Value::Null, Ty::Str) => ScalarValue::Utf8(None),
        (Value::Null, Ty::Bool) => ScalarValue::Boolean(None),
        (Value::Int(i), Ty::Float) => ScalarValue::Float64(Some(*i as f64)),
        (Value::Int(i), _) => ScalarValue::Int64(Some(*i)),
        (Value::Float(f), _) => ScalarValue::Float64(Some(*f)),
        (Value::Str(s), _) => ScalarValue::Utf8(Some(s.clone())),
        (Value::Bool(b), _) => ScalarValue::Boolean(Some(*b)),
    }
}

pub fn lit_of(v: &Value, ty: Ty) -> Expr {
    Expr::Literal(scalar_of(v, ty), None)
}

pub fn qcol(rel: &str, name: &str) -> Expr {
    Expr::Column(Column::new(Some(TableReference::bare(rel.to_string())), name.to_string()))
}

pub fn operator(op: BinOp) -> Operator {
    match op {
        BinOp::Add => Operator::Plus,
        BinOp::Sub => Operator::Minus,
        BinOp::Mul => Operator::Multiply,
        BinOp::Div => Operator::Divide,
        BinOp::Mod => Operator::Modulo,
        BinOp::Eq => Operator::Eq,
        BinOp::Ne => Operator::NotEq,
        BinOp::Lt => Operator::Lt,
        BinOp::Le => Operator::LtEq,
        BinOp::Gt => Operator::Gt,
        BinOp::Ge => Operator::GtEq,
        BinOp::And => Operator::And,
        BinOp::Or => Operator::Or,
        BinOp::IsDistinct => Operator::IsDistinctFrom,
        BinOp::IsNotDistinct => Operator::IsNotDistinctFrom,
        BinOp::Concat => Operator::StringConcat,
    }
}

/// Why an AST node has no DataFrame/Expr-API spelling in this harness.
#[derive(Debug, Clone)]
pub struct NoSpelling(pub String);

pub type Conv<T> = Result<T, NoSpelling>;

/// Callbacks the expression converter needs from its user: how a nested query becomes a plan
/// (C48 builds it with the DataFrame API) and how a column reference is spelled (plain qualified
/// column, `out_ref_col` for a column of an enclosing query, unqualified name in a builder chain).
pub trait SubqueryPlanner {
    fn plan(&mut self, q: &ast::Query) -> Conv<Arc<LogicalPlan>>;
    fn column(&mut self, rel: &str, name: &str) -> Conv<Expr> {
        Ok(qcol(rel, name))
    }
}

/// converter context for expressions without subqueries
pub struct NoSubqueries;

impl SubqueryPlanner for NoSubqueries {
    fn plan(&mut self, _q: &ast::Query) -> Conv<Arc<LogicalPlan>> {
        Err(NoSpelling("subquery in a context without a subquery planner".into()))
    }
}

pub fn sort_of(e: Expr, desc: bool, nulls_first: bool) -> Sort {
    Sort { expr: e, asc: !desc, nulls_first }
}

fn frame_bound(b: &Bound, unit: FrameUnit) -> WindowFrameBound {
    // ROWS / GROUPS offsets are UInt64; a RANGE offset has the type of the ORDER BY key (the AST only
    // has RANGE offsets over BIGINT keys)
    let off = |k: u64| match unit {
        FrameUnit::Rows | FrameUnit::Groups => ScalarValue::UInt64(Some(k)),
        FrameUnit::Range => ScalarValue::Int64(Some(k as i64)),
    };
    match b {
        Bound::UnboundedPreceding => WindowFrameBound::Preceding(match unit {
            FrameUnit::Range => ScalarValue::Null,
            _ => ScalarValue::UInt64(None),
        }),
        Bound::Preceding(k) => WindowFrameBound::Preceding(off(*k)),
        Bound::CurrentRow => WindowFrameBound::CurrentRow,
        Bound::Following(k) => WindowFrameBound::Following(off(*k)),
        Bound::UnboundedFollowing => WindowFrameBound::Following(match unit {
            FrameUnit::Range => ScalarValue::Null,
            _ => ScalarValue::UInt64(None),
        }),
    }
}

pub fn window_frame(fr: &ast::Frame) -> WindowFrame {
    let units = match fr.unit {
        FrameUnit::Rows => WindowFrameUnits::Rows,
        FrameUnit::Range => WindowFrameUnits::Range,
        FrameUnit::Groups => WindowFrameUnits::Groups,
    };
    WindowFrame::new_bounds(units, frame_bound(&fr.start, fr.unit), frame_bound(&fr.end, fr.unit))
}

pub fn arrow_ty(ty: Ty) -> arrow::datatypes::DataType {
    crate::engine::arrow_type(ty)
}

/// `ast::Expr` → `datafusion::prelude::Expr`, one API call per AST node.
pub fn to_expr(e: &ast::Expr, sp: &mut dyn SubqueryPlanner) -> Conv<Expr> {
    use datafusion::functions::expr_fn as f;
    use datafusion::functions_aggregate::expr_fn as af;
    let bx = |e: Expr| Box::new(e);
    Ok(match e {
        ast::Expr::Col { rel, name } => sp.column(rel, name)?,
        ast::Expr::OutCol(n) => Expr::Column(Column::new_unqualified(n.clone())),
        ast::Expr::Lit(v, ty) => lit_of(v, *ty),
        ast::Expr::Param(i, _) => datafusion::prelude::placeholder(format!("${}", i + 1)),
        ast::Expr::Bin(a, op, b) => Expr::BinaryExpr(BinaryExpr::new(bx(to_expr(a, sp)?), operator(*op), bx(to_expr(b, sp)?))),
        ast::Expr::Not(a) => Expr::Not(bx(to_expr(a, sp)?)),
        ast::Expr::Neg(a) => Expr::Negative(bx(to_expr(a, sp)?)),
        ast::Expr::IsNull(a, neg) => {
            let x = to_expr(a, sp)?;
            if *neg { x.is_not_null() } else { x.is_null() }
        }
        ast::Expr::InList { e, list, negated } => {
            let items = list.iter().map(|x| to_expr(x, sp)).collect::<Conv<Vec<_>>>()?;
            to_expr(e, sp)?.in_list(items, *negated)
        }
        ast::Expr::Between { e, lo, hi, negated } => Expr::Between(Between::new(bx(to_expr(e, sp)?), *negated, bx(to_expr(lo, sp)?), bx(to_expr(hi, sp)?))),
        ast::Expr::Like { e, pat, negated, ci } => Expr::Like(Like::new(*negated, bx(to_expr(e, sp)?), bx(to_expr(pat, sp)?), None, *ci)),
        ast::Expr::Case { operand, whens, else_ } => {
            let mut it = whens.iter();
            let (w0, t0) = it.next().ok_or_else(|| NoSpelling("CASE without WHEN".into()))?;
            let mut b = match operand {
                Some(o) => datafusion::logical_expr::case(to_expr(o, sp)?).when(to_expr(w0, sp)?, to_expr(t0, sp)?),
                None => datafusion::logical_expr::when(to_expr(w0, sp)?, to_expr(t0, sp)?),
            };
            for (w, t) in it {
                b = b.when(to_expr(w, sp)?, to_expr(t, sp)?);
            }
            match else_ {
                Some(x) => b.otherwise(to_expr(x, sp)?),
                None => b.end(),
            }
            .map_err(|e| NoSpelling(format!("case builder: {e}")))?
        }
        ast::Expr::Coalesce(xs) => f::coalesce(xs.iter().map(|x| to_expr(x, sp)).collect::<Conv<Vec<_>>>()?),
        ast::Expr::NullIf(a, b) => f::nullif(to_expr(a, sp)?, to_expr(b, sp)?),
        ast::Expr::Cast(a, ty) => Expr::Cast(Cast::new(bx(to_expr(a, sp)?), arrow_ty(*ty))),
        ast::Expr::Func(name, args) => {
            let mut a = args.iter().map(|x| to_expr(x, sp)).collect::<Conv<Vec<_>>>()?;
            match (*name, a.len()) {
                ("abs", 1) => f::abs(a.remove(0)),
                ("length", 1) => f::length(a.remove(0)),
                ("character_length", 1) => f::character_length(a.remove(0)),
                ("upper", 1) => f::upper(a.remove(0)),
                ("lower", 1) => f::lower(a.remove(0)),
                _ => return Err(NoSpelling(format!("function {name}"))),
            }
        }
        ast::Expr::Exists { q, negated } => {
            let p = sp.plan(q)?;
            if *negated { datafusion::logical_expr::not_exists(p) } else { datafusion::logical_expr::exists(p) }
        }
        ast::Expr::InSubquery { e, q, negated } => {
            let x = to_expr(e, sp)?;
            let p = sp.plan(q)?;
            if *negated { datafusion::logical_expr::not_in_subquery(x, p) } else { datafusion::logical_expr::in_subquery(x, p) }
        }
        ast::Expr::Scalar(q) => datafusion::logical_expr::scalar_subquery(sp.plan(q)?),
        ast::Expr::Quantified { .. } => return Err(NoSpelling("quantified comparison (ANY/ALL) has no expr_fn spelling".into())),
        ast::Expr::Agg { f: func, arg, distinct, filter } => {
            let a = match arg {
                Some(a) => Some(to_expr(a, sp)?),
                None => None,
            };
            let base = match (func, a) {
                (AggFn::CountStar, _) => af::count(Expr::Literal(datafusion::logical_expr::utils::COUNT_STAR_EXPANSION, None)),
                (AggFn::Count, Some(a)) => af::count(a),
                (AggFn::Sum, Some(a)) => af::sum(a),
                (AggFn::Min, Some(a)) => af::min(a),
                (AggFn::Max, Some(a)) => af::max(a),
                (AggFn::Avg, Some(a)) => af::avg(a),
                _ => return Err(NoSpelling("aggregate without argument".into())),
            };
            if !*distinct && filter.is_none() {
                base
            } else {
                let mut b = if *distinct { base.distinct() } else { base.filter(to_expr(filter.as_ref().unwrap(), sp)?) };
                if *distinct {
                    if let Some(fe) = filter {
                        b = b.filter(to_expr(fe, sp)?);
                    }
                }
                b.build().map_err(|e| NoSpelling(format!("aggregate builder: {e}")))?
            }
        }
        ast::Expr::Win { f: func, args, partition_by, order_by, frame } => {
            use datafusion::functions_window::expr_fn as wf;
            use datafusion::logical_expr::expr::WindowFunction;
            use datafusion::logical_expr::WindowFunctionDefinition as Def;
            let mut a = args.iter().map(|x| to_expr(x, sp)).collect::<Conv<Vec<_>>>()?;
            let agg_win = |udaf: Arc<datafusion::logical_expr::AggregateUDF>, a: Vec<Expr>| Expr::WindowFunction(Box::new(WindowFunction::new(Def::AggregateUDF(udaf), a)));
            let base = match func {
                WinFn::RowNumber => wf::row_number(),
                WinFn::Rank => wf::rank(),
                WinFn::DenseRank => wf::dense_rank(),
                WinFn::Lag | WinFn::Lead => {
                    // the expr_fn spelling takes the offset / default as plain Rust values
                    let off = match args.get(1) {
                        None => None,
                        Some(ast::Expr::Lit(Value::Int(k), _)) => Some(*k),
                        Some(_) => return Err(NoSpelling("lag/lead offset is not a literal".into())),
                    };
                    let dflt = match args.get(2) {
                        None => None,
                        Some(ast::Expr::Lit(v, ty)) => Some(scalar_of(v, *ty)),
                        Some(_) => return Err(NoSpelling("lag/lead default is not a literal".into())),
                    };
                    let arg = a.remove(0);
                    if *func == WinFn::Lag { wf::lag(arg, off, dflt) } else { wf::lead(arg, off, dflt) }
                }
                WinFn::FirstValue => wf::first_value(a.remove(0)),
                WinFn::LastValue => wf::last_value(a.remove(0)),
                WinFn::Sum => agg_win(datafusion::functions_aggregate::sum::sum_udaf(), a),
                WinFn::Count => agg_win(datafusion::functions_aggregate::count::count_udaf(), a),
                WinFn::Min => agg_win(datafusion::functions_aggregate::min_max::min_udaf(), a),
                WinFn::Max => agg_win(datafusion::functions_aggregate::min_max::max_udaf(), a),
                WinFn::Avg => agg_win(datafusion::functions_aggregate::average::avg_udaf(), a),
            };
            let pb = partition_by.iter().map(|x| to_expr(x, sp)).collect::<Conv<Vec<_>>>()?;
            let mut ob = vec![];
            for o in order_by {
                ob.push(sort_of(to_expr(&o.expr, sp)?, o.desc, o.nulls_first_eff()));
            }
            // one builder chain, exactly the clauses the AST has: no `window_frame` call when the
            // OVER clause has no frame (the builder then picks its own default)
            let mut b = base.partition_by(pb);
            if !ob.is_empty() {
                b = b.order_by(ob);
            }
            if let Some(fr) = frame {
                b = b.window_frame(window_frame(fr));
            }
            b.build().map_err(|e| NoSpelling(format!("window builder: {e}")))?
        }
    })
}
