//! Result comparison modes: multiset, sequence, sorted-on-keys + multiset.

use crate::ast::{Expr, Query};
use crate::value::*;
use std::cmp::Ordering;

#[derive(Clone, Debug)]
pub enum CmpMode {
    Multiset,
    Sequence,
    /// multiset equality, and the engine's sequence must be sorted on (column, desc, nulls_first)
    SortedOn(Vec<(usize, bool, bool)>),
}

/// Comparison mode implied by a generated query's top-level ORDER BY (items are output columns).
pub fn mode_for(q: &Query) -> CmpMode {
    if q.order_by.is_empty() {
        return CmpMode::Multiset;
    }
    let names = q.output_names();
    let mut keys = vec![];
    for o in &q.order_by {
        if let Expr::OutCol(n) = &o.expr {
            if let Some(i) = names.iter().position(|x| x == n) {
                keys.push((i, o.desc, o.nulls_first_eff()));
                continue;
            }
        }
        return CmpMode::Multiset;
    }
    let mut covered: Vec<usize> = keys.iter().map(|k| k.0).collect();
    covered.sort();
    covered.dedup();
    if covered.len() == names.len() { CmpMode::Sequence } else { CmpMode::SortedOn(keys) }
}

pub fn multiset_eq(a: &[Row], b: &[Row]) -> bool {
    if a.len() != b.len() {
        return false;
    }
    let mut x: Vec<&Row> = a.iter().collect();
    let mut y: Vec<&Row> = b.iter().collect();
    x.sort_by(|p, q| row_total_cmp(p, q));
    y.sort_by(|p, q| row_total_cmp(p, q));
    if x.iter().zip(y.iter()).all(|(p, q)| row_close(p, q)) {
        return true;
    }
    // tolerance may perturb the sort alignment: greedy matching as a fallback
    let mut used = vec![false; y.len()];
    'outer: for p in &x {
        for (j, q) in y.iter().enumerate() {
            if !used[j] && row_close(p, q) {
                used[j] = true;
                continue 'outer;
            }
        }
        return false;
    }
    true
}

fn key_cmp(a: &Value, b: &Value, desc: bool, nulls_first: bool) -> Ordering {
    match (a.is_null(), b.is_null()) {
        (true, true) => Ordering::Equal,
        (true, false) => if nulls_first { Ordering::Less } else { Ordering::Greater },
        (false, true) => if nulls_first { Ordering::Greater } else { Ordering::Less },
        _ => {
            let o = cmp_nonnull(a, b).unwrap_or(Ordering::Equal);
            if desc { o.reverse() } else { o }
        }
    }
}

/// Ok(()) or a description of the first difference.
pub fn compare(engine: &[Row], reference: &[Row], mode: &CmpMode) -> Result<(), String> {
    match mode {
        CmpMode::Sequence => {
            if engine.len() != reference.len() {
                return Err(format!("row count {} vs reference {}", engine.len(), reference.len()));
            }
            for (i, (a, b)) in engine.iter().zip(reference.iter()).enumerate() {
                if !row_close(a, b) {
                    return Err(format!("row {i}: engine {:?} vs reference {:?}", a, b));
                }
            }
            Ok(())
        }
        CmpMode::Multiset => {
            if multiset_eq(engine, reference) { Ok(()) } else { Err(format!("multisets differ: engine {} rows vs reference {} rows", engine.len(), reference.len())) }
        }
        CmpMode::SortedOn(keys) => {
            if !multiset_eq(engine, reference) {
                return Err(format!("multisets differ: engine {} rows vs reference {} rows", engine.len(), reference.len()));
            }
            for w in engine.windows(2) {
                for (c, desc, nf) in keys {
                    match key_cmp(&w[0][*c], &w[1][*c], *desc, *nf) {
                        Ordering::Less => break,
                        Ordering::Equal => continue,
                        Ordering::Greater => return Err(format!("engine output not sorted on ORDER BY keys: {:?} before {:?}", w[0], w[1])),
                    }
                }
            }
            Ok(())
        }
    }
}
