//! A generated end-to-end case: tables + query + rendered SQL + reference answer.

use crate::ast::{to_sql, Query};
use crate::canon::{mode_for, CmpMode};
use crate::engine::db_to_json;
use crate::qgen::{gen_db, gen_query, GenCfg};
use crate::refint::{Db, Interp, RefErr, RefOpts};
use crate::value::{rows_to_json, Row, Ty};
use std::collections::BTreeSet;
use vcommon::{json, Json, Rng};

pub struct Case {
    pub db: Db,
    pub query: Query,
    pub sql: String,
    pub tys: Vec<Ty>,
    pub feats: BTreeSet<&'static str>,
    pub mode: CmpMode,
    /// physical layout (partitions / batches) of every table, recorded so a witness replays exactly
    pub layout: crate::engine::DbLayout,
}

impl Case {
    pub fn generate(rng: &mut Rng, cfg: &GenCfg) -> Case {
        let db = gen_db(rng, cfg.max_rows);
        let (query, tys, feats) = gen_query(rng, &db, cfg);
        let sql = to_sql(&query);
        let mode = mode_for(&query);
        let nparts = 1 + rng.usize(3);
        let layout = crate::engine::random_db_layout(&db, nparts, 3, rng);
        Case { db, query, sql, tys, feats, mode, layout }
    }

    pub fn reference(&self) -> Result<Vec<Row>, RefErr> {
        let mut it = Interp::new(&self.db);
        it.run(&self.query).map(|r| r.rows)
    }

    pub fn reference_with(&self, opts: RefOpts) -> Result<Vec<Row>, RefErr> {
        let mut it = Interp::new(&self.db);
        it.opts = opts;
        it.run(&self.query).map(|r| r.rows)
    }

    pub fn fingerprint(&self) -> u64 {
        vcommon::fp_mix(vcommon::fp_str(&self.sql), vcommon::fp_str(&db_to_json(&self.db).to_string()))
    }

    pub fn witness(&self, engine: Option<&[Row]>, reference: Option<&[Row]>, what: &str) -> Json {
        json!({
            "sql": self.sql,
            "tables": db_to_json(&self.db),
            "layout": json!(self.layout),
            "compare_mode": format!("{:?}", self.mode),
            "engine_rows": engine.map(rows_to_json),
            "reference_rows": reference.map(rows_to_json),
            "what": what,
            "features": self.feats.iter().collect::<Vec<_>>(),
        })
    }
}

/// Known-deviation models: when the engine disagrees with the reference, try the reference under
/// each documented deviation (and their combination). Some(signature) if one explains the engine's
/// answer exactly; None otherwise (⇒ an unexplained mismatch).
pub fn explain_by_known_deviation(case: &Case, engine_rows: &[Row]) -> Option<String> {
    let has_all = case.feats.contains("intersect-all") || case.feats.contains("except-all");
    let has_in = case.feats.contains("in-subquery") || case.feats.contains("not-in-subquery");
    let mut tries: Vec<(RefOpts, &str)> = vec![];
    if has_all {
        tries.push((RefOpts { setop_all_semi_anti: true, in_subquery_two_valued_nested: false }, "setop-all-multiplicity"));
    }
    if has_in {
        tries.push((RefOpts { setop_all_semi_anti: false, in_subquery_two_valued_nested: true }, "in-subquery-two-valued-nested"));
    }
    if has_all && has_in {
        tries.push((RefOpts { setop_all_semi_anti: true, in_subquery_two_valued_nested: true }, "setop-all-multiplicity+in-subquery-two-valued-nested"));
    }
    for (opts, sig) in tries {
        if let Ok(alt) = case.reference_with(opts) {
            if crate::canon::compare(engine_rows, &alt, &case.mode).is_ok() {
                return Some(sig.to_string());
            }
        }
    }
    None
}
