//! C43 — configuration options round-trip through their text form.
//!
//! For every key of `ConfigOptions::entries()` (and the runtime keys reachable through
//! `SET datafusion.runtime.*`): (1) setting the reported text leaves the whole configuration
//! unchanged, (2) a value domain chosen by the option's kind: valid values reach a fixpoint
//! (set -> read back -> set read-back -> same text) and touch no other key, invalid values are
//! rejected and leave the full `entries()` snapshot unchanged, (3) `SET k = 'v'` / `SHOW k` agree
//! with the programmatic path. Every probe is run from two base configurations: the defaults and a
//! perturbed one in which (nearly) every key holds a non-default value, so that a setter that
//! resets another field to its default is visible.

use datafusion::common::config::ConfigOptions;
use datafusion::prelude::{SessionConfig, SessionContext};
use dfv::engine::{batches_to_rows, current_thread_rt};
use dfv::value::Value;
use std::collections::{BTreeMap, BTreeSet};
use vcommon::{fp_str, json, Args, Json, Report, Rng};

type Snap = BTreeMap<String, Option<String>>;

fn snap(c: &ConfigOptions) -> Snap {
    c.entries().into_iter().map(|e| (e.key, e.value)).collect()
}

fn diff(a: &Snap, b: &Snap) -> Vec<(String, Option<String>, Option<String>)> {
    let keys: BTreeSet<&String> = a.keys().chain(b.keys()).collect();
    keys.into_iter().filter(|k| a.get(*k) != b.get(*k)).map(|k| (k.clone(), a.get(k).cloned().flatten(), b.get(k).cloned().flatten())).collect()
}

fn diff_json(d: &[(String, Option<String>, Option<String>)]) -> Json {
    json!(d.iter().map(|(k, a, b)| json!({"key": k, "before": a, "after": b})).collect::<Vec<_>>())
}

// ------------------------------------------------------------------------------------------
// kinds + value domains
// ------------------------------------------------------------------------------------------

#[derive(Clone, Copy, Debug, PartialEq)]
enum Kind {
    Bool,
    OptBool,
    Usize,
    /// usize where "0" is documented to mean "number of cores" (value is transformed)
    Parallelism,
    NonZero,
    MinTwo,
    Percent,
    OptUsize,
    OptPosUsize,
    I32,
    F64,
    OptF64,
    Str,
    OptStr,
    /// optional string that is documented/declared to be lower-cased on input
    OptStrLower,
    Enum(&'static [&'static str]),
    /// explain.analyze_categories: all | none | comma list of categories
    CatList,
}

impl Kind {
    fn name(&self) -> &'static str {
        match self {
            Kind::Bool => "bool",
            Kind::OptBool => "optional-bool",
            Kind::Usize => "usize",
            Kind::Parallelism => "usize(0=cores)",
            Kind::NonZero => "non-zero-usize",
            Kind::MinTwo => "usize>=2",
            Kind::Percent => "percent(0..=100)",
            Kind::OptUsize => "optional-unsigned",
            Kind::OptPosUsize => "optional-positive-usize",
            Kind::I32 => "i32",
            Kind::F64 => "f64",
            Kind::OptF64 => "optional-f64",
            Kind::Str => "string",
            Kind::OptStr => "optional-string",
            Kind::OptStrLower => "optional-string(lower-cased)",
            Kind::Enum(_) => "enum",
            Kind::CatList => "category-list",
        }
    }
}

const DIALECTS: &[&str] = &["generic", "mysql", "postgresql", "hive", "sqlite", "snowflake", "redshift", "mssql", "clickhouse", "bigquery", "ansi", "duckdb", "databricks", "spark"];

/// (kind, true when the kind had to be inferred from the default's text because the key is not in the table)
fn kind_of(key: &str, default: &Option<String>) -> (Kind, bool) {
    let k = key.strip_prefix("datafusion.").unwrap_or(key);
    let table: Option<Kind> = match k {
        "catalog.default_catalog" | "catalog.default_schema" | "sql_parser.default_null_ordering" | "execution.parquet.created_by" | "format.null" => Some(Kind::Str),
        "catalog.location" | "catalog.format" | "execution.time_zone" | "execution.parquet.coerce_int96_tz" | "format.date_format" | "format.datetime_format" | "format.timestamp_format" | "format.timestamp_tz_format" | "format.time_format" => Some(Kind::OptStr),
        "execution.parquet.coerce_int96" | "execution.parquet.compression" | "execution.parquet.statistics_enabled" | "execution.parquet.encoding" => Some(Kind::OptStrLower),
        "execution.parquet.metadata_size_hint" | "execution.parquet.max_predicate_cache_size" | "execution.parquet.column_index_truncate_length" | "execution.parquet.statistics_truncate_length" | "execution.parquet.bloom_filter_ndv" => Some(Kind::OptUsize),
        "execution.parquet.bloom_filter_fpp" => Some(Kind::OptF64),
        "execution.parquet.dictionary_enabled" => Some(Kind::OptBool),
        "execution.parquet.max_row_group_bytes" => Some(Kind::OptPosUsize),
        "sql_parser.recursion_limit" | "execution.batch_size" | "execution.max_spill_file_size_bytes" | "execution.meta_fetch_concurrency" | "execution.minimum_parallel_output_files" | "execution.soft_max_rows_per_output_file" => Some(Kind::NonZero),
        "execution.max_buffered_batches_per_output_file" => Some(Kind::MinTwo),
        "optimizer.default_filter_selectivity" => Some(Kind::Percent),
        "execution.parquet.content_defined_chunking.norm_level" => Some(Kind::I32),
        "execution.perfect_hash_join_min_key_density" | "execution.skip_partial_aggregation_probe_ratio_threshold" => Some(Kind::F64),
        "execution.target_partitions" | "execution.planning_concurrency" => Some(Kind::Parallelism),
        "sql_parser.dialect" => Some(Kind::Enum(DIALECTS)),
        "execution.spill_compression" => Some(Kind::Enum(&["zstd", "lz4_frame", "uncompressed"])),
        "execution.parquet.writer_version" => Some(Kind::Enum(&["1.0", "2.0"])),
        "explain.format" => Some(Kind::Enum(&["indent", "tree", "pgjson", "graphviz"])),
        "explain.analyze_level" => Some(Kind::Enum(&["summary", "dev"])),
        "explain.analyze_categories" => Some(Kind::CatList),
        "format.duration_format" => Some(Kind::Enum(&["pretty", "iso8601"])),
        "spark.map_key_dedup_policy" => Some(Kind::Enum(&["EXCEPTION", "LAST_WIN"])),
        _ => None,
    };
    if let Some(t) = table {
        return (t, false);
    }
    match default.as_deref() {
        Some("true") | Some("false") => (Kind::Bool, false),
        Some(s) if !s.is_empty() && s.bytes().all(|b| b.is_ascii_digit()) => (Kind::Usize, false),
        Some(s) if s.parse::<f64>().is_ok() => (Kind::F64, true),
        None => (Kind::OptStr, true),
        Some(_) => (Kind::Str, true),
    }
}

#[derive(Clone, Copy, Debug, PartialEq)]
enum Class {
    /// the option's type makes the value clearly valid
    Valid,
    /// the option's type makes the value clearly invalid
    Invalid,
    /// the setter's own result decides (then the round-trip / atomicity obligations of that branch apply)
    Open,
}
use Class::*;

fn s(x: &str, c: Class) -> (String, Class) {
    (x.to_string(), c)
}

const LONG: &str = "xxxxxxxxxxxxxxxxxxxxxxxxxxxxxxxxxxxxxxxxxxxxxxxxxxxxxxxxxxxxxxxxxxxxxxxxxxxxxxxxxxxxxxxxxxxxxxxxxxxxxxxxxxxxxxxxxxxxxxxxxxxxxxxxxxxxxxxxxxxxxxxxxxxxxxxxxxxxxxxxxxxxxxxxxxxxxxxxxxxxxxxxxxxxxxxxxxxxxxxxxxxxxxxxxxxxxxxxxxxxxxxxxxxxxxxxxxxxxxxxxxxxxxxxxxxxxxxxxxx";

fn domain(kind: Kind) -> Vec<(String, Class)> {
    let umax = usize::MAX.to_string();
    let unsigned = |zero: Class, one: Class, empty: Class| {
        vec![s("0", zero), s("1", one), s("2", Valid), s("7", Valid), s("4096", Valid), s(&umax, Valid), s("18446744073709551616", Invalid), s("-1", Invalid), s("abc", Invalid), s("1.5", Invalid), s("", empty), s("+7", Open), s(" 7", Open), s("1K", Open), s("0x10", Open)]
    };
    let strings = || vec![s("", Open), s("x", Open), s("MiXed Case", Open), s("a'b\"c", Open), s("h\u{e9}llo w\u{f6}rld \u{2713}", Open), s(" lead", Open), s("%Y/%m/%d", Open), s(LONG, Open), s("zstd(5)", Open), s("utc", Open)];
    match kind {
        Kind::Bool | Kind::OptBool => vec![s("true", Valid), s("false", Valid), s("TRUE", Open), s("False", Open), s("1", Open), s("0", Open), s("", Open), s("yes", Open), s(" true", Open), s("abc", Invalid), s("2.5", Invalid)],
        Kind::Usize | Kind::Parallelism => unsigned(Valid, Valid, Invalid),
        Kind::NonZero => unsigned(Invalid, Valid, Invalid),
        Kind::MinTwo => unsigned(Invalid, Invalid, Invalid),
        Kind::OptUsize => unsigned(Valid, Valid, Open),
        Kind::OptPosUsize => unsigned(Open, Valid, Open),
        Kind::Percent => vec![s("0", Valid), s("1", Valid), s("20", Valid), s("100", Valid), s("101", Invalid), s("255", Invalid), s("256", Invalid), s("-1", Invalid), s("abc", Invalid), s("1.5", Invalid), s("", Invalid), s("18446744073709551616", Invalid), s("+7", Open)],
        Kind::I32 => vec![s("0", Valid), s("1", Valid), s("-1", Valid), s("2147483647", Valid), s("-2147483648", Valid), s("2147483648", Invalid), s("-2147483649", Invalid), s("abc", Invalid), s("1.5", Invalid), s("", Invalid), s("+7", Open)],
        Kind::F64 | Kind::OptF64 => vec![s("0", Valid), s("1", Valid), s("0.5", Valid), s("1e3", Valid), s("-2.5", Valid), s("0.15", Valid), s("1e400", Open), s("NaN", Open), s("inf", Open), s("1,5", Open), s("", if kind == Kind::F64 { Invalid } else { Open }), s("abc", Invalid), s("0.5x", Invalid)],
        Kind::Str | Kind::OptStr | Kind::OptStrLower => strings(),
        Kind::Enum(vars) => {
            let mut v: Vec<(String, Class)> = vars.iter().map(|x| s(x, Valid)).collect();
            for x in vars.iter().take(3) {
                let flipped: String = if x.chars().any(|c| c.is_ascii_lowercase()) { x.to_uppercase() } else { x.to_lowercase() };
                if flipped != **x {
                    v.push(s(&flipped, Open));
                }
                let mut cap = x.to_lowercase();
                if let Some(f) = cap.get_mut(0..1) {
                    f.make_ascii_uppercase();
                }
                if cap != **x && cap != flipped {
                    v.push(s(&cap, Open));
                }
            }
            v.push(s(&format!("{} ", vars[0]), Open));
            v.push(s("", Open));
            v.push(s("not-a-variant", Invalid));
            v.push(s("7", Invalid));
            v
        }
        Kind::CatList => vec![s("all", Valid), s("none", Valid), s("rows", Valid), s("bytes", Valid), s("timing", Valid), s("uncategorized", Valid), s("rows,timing", Valid), s("ROWS", Open), s("rows, bytes", Open), s("rows,rows", Open), s("rows,,timing", Open), s("", Open), s("bogus", Invalid), s("rows,bogus", Invalid)],
    }
}

/// a non-default valid value for the perturbed base
fn perturbed_value(kind: Kind, default: &Option<String>) -> String {
    let d = default.clone().unwrap_or_default();
    match kind {
        Kind::Bool | Kind::OptBool => if d == "true" { "false".into() } else { "true".into() },
        Kind::Usize | Kind::Parallelism | Kind::NonZero | Kind::MinTwo | Kind::OptUsize | Kind::OptPosUsize => (d.parse::<u64>().unwrap_or(2) + 1).to_string(),
        Kind::Percent => "21".into(),
        Kind::I32 => (d.parse::<i64>().unwrap_or(0) + 1).to_string(),
        Kind::F64 | Kind::OptF64 => (d.parse::<f64>().unwrap_or(0.0) + 0.25).to_string(),
        Kind::Str | Kind::OptStr | Kind::OptStrLower => format!("{d}x"),
        Kind::Enum(vars) => vars.iter().find(|v| **v != d).unwrap_or(&vars[0]).to_string(),
        Kind::CatList => "rows".into(),
    }
}

/// Keys that are documented to write other keys (an umbrella switch): key -> the keys it may change.
fn documented_dependents(key: &str) -> &'static [&'static str] {
    match key {
        // "The config will suppress enable_join_dynamic_filter_pushdown, enable_topk_dynamic_filter_pushdown & enable_aggregate_dynamic_filter_pushdown"
        "datafusion.optimizer.enable_dynamic_filter_pushdown" => {
            &["datafusion.optimizer.enable_topk_dynamic_filter_pushdown", "datafusion.optimizer.enable_join_dynamic_filter_pushdown", "datafusion.optimizer.enable_aggregate_dynamic_filter_pushdown"]
        }
        _ => &[],
    }
}

// ------------------------------------------------------------------------------------------
// programmatic path
// ------------------------------------------------------------------------------------------

struct Ctx<'a> {
    rep: &'a Report,
    selftest: u64,
    /// the check is deterministic per (key, value): one witness per signature is kept, the rest is counted
    seen_signatures: std::sync::Mutex<BTreeSet<String>>,
}

impl Ctx<'_> {
    fn violation(&self, sig: &str, witness: Json) {
        self.rep.count(&format!("occurrences/{sig}"), 1);
        if self.seen_signatures.lock().unwrap_or_else(|e| e.into_inner()).insert(sig.to_string()) {
            self.rep.violation(sig, witness);
        }
    }
}

const FLIP_KEY: &str = "datafusion.catalog.create_default_catalog_and_schema";

/// `SET datafusion.runtime.*` rebuilds the session state (SessionStateBuilder::new_from_existing), which
/// rewrites this option to false: keyed separately so that any other difference still surfaces.
fn split_flip(d: Vec<(String, Option<String>, Option<String>)>) -> (bool, Vec<(String, Option<String>, Option<String>)>) {
    let flipped = d.iter().any(|(k, _, _)| k == FLIP_KEY);
    // `runtime.temp_directory` is derived state: it reports the spill directory once the disk manager has
    // lazily created one (e.g. when a SHOW query spills under a tiny memory limit)
    (flipped, d.into_iter().filter(|(k, _, _)| k != FLIP_KEY && k != "datafusion.runtime.temp_directory").collect())
}

fn witness(key: &str, kind: Kind, base: &str, value: &str, extra: Json) -> Json {
    json!({"key": key, "kind": kind.name(), "base_configuration": base, "value": value, "how": format!("ConfigOptions::new() [{base}] ; set({key:?}, {value:?}) ; entries()"), "detail": extra})
}

/// One probe of `set(key, value)` from `base`. Returns the read-back text when the value was accepted.
fn probe(cx: &Ctx, base: &ConfigOptions, base_name: &str, key: &str, kind: Kind, value: &str, class: Class) -> Option<Option<String>> {
    let rep = cx.rep;
    let short = key.strip_prefix("datafusion.").unwrap_or(key);
    let mut cfg = base.clone();
    let s0 = snap(&cfg);
    let res = cfg.set(key, value);
    let mut s1 = snap(&cfg);
    rep.case(fp_str(&format!("{base_name}|{key}|{value}")), true);
    match res {
        Err(e) => {
            rep.count(&format!("rejected/{}", kind.name()), 1);
            rep.count("probes/rejected", 1);
            if class == Valid {
                cx.violation(&format!("valid-value-rejected/{}", kind.name()), witness(key, kind, base_name, value, json!({"error": e.to_string()})));
            }
            let d = diff(&s0, &s1);
            if !d.is_empty() {
                // keyed root cause: the blanket Option<F> setter inserts F::default() before parsing
                let only_self_none_to_default = d.len() == 1 && d[0].0 == key && d[0].1.is_none();
                let sig = if only_self_none_to_default { { rep.seen("keys affected by failed-set-mutates-config/unset-option-becomes-default", short); "failed-set-mutates-config/unset-option-becomes-default".to_string() } } else { format!("failed-set-mutates-config/{short}") };
                cx.violation(&sig, witness(key, kind, base_name, value, json!({"error": e.to_string(), "changed_entries": diff_json(&d)})));
            }
            None
        }
        Ok(()) => {
            rep.count(&format!("accepted/{}", kind.name()), 1);
            rep.count("probes/accepted", 1);
            if class == Invalid {
                cx.violation(&format!("invalid-value-accepted/{}", kind.name()), witness(key, kind, base_name, value, json!({"read_back": s1.get(key)})));
            }
            if cx.selftest == 1 && key.ends_with("coalesce_batches") {
                // corrupt the observation: pretend an unrelated entry changed
                s1.insert("datafusion.execution.batch_size".into(), Some("1".into()));
            }
            let allowed = documented_dependents(key);
            let others: Vec<_> = diff(&s0, &s1).into_iter().filter(|(k, _, _)| k != key && !allowed.contains(&k.as_str())).collect();
            if !others.is_empty() {
                cx.violation(&format!("set-writes-other-key/{short}"), witness(key, kind, base_name, value, json!({"changed_entries": diff_json(&others)})));
            }
            let r1 = s1.get(key).cloned().flatten();
            if r1.as_deref() != Some(value) {
                rep.count("accepted/text-normalised", 1);
                rep.seen("keys whose accepted text is normalised on read-back", short);
            }
            // set the read-back: must be accepted and be a fixpoint of the whole configuration
            if let Some(r) = &r1 {
                let before = snap(&cfg);
                match cfg.set(key, r) {
                    Err(e) => cx.violation(&format!("read-back-rejected/{short}"), witness(key, kind, base_name, value, json!({"read_back": r, "error": e.to_string()}))),
                    Ok(()) => {
                        let s2 = snap(&cfg);
                        let d = diff(&before, &s2);
                        if !d.is_empty() {
                            cx.violation(&format!("read-back-not-a-fixpoint/{short}"), witness(key, kind, base_name, value, json!({"read_back": r, "changed_entries": diff_json(&d)})));
                        }
                    }
                }
            } else {
                rep.count("accepted/read-back-is-unset", 1);
            }
            Some(r1)
        }
    }
}

// ------------------------------------------------------------------------------------------
// SQL path
// ------------------------------------------------------------------------------------------

fn sql_quote(v: &str) -> String {
    format!("'{}'", v.replace('\'', "''"))
}

fn new_ctx() -> SessionContext {
    SessionContext::new_with_config(SessionConfig::new().with_information_schema(true))
}

fn ctx_snap(ctx: &SessionContext) -> Snap {
    let mut m = snap(ctx.copied_config().options());
    for e in ctx.runtime_env().config_entries() {
        m.insert(e.key, e.value);
    }
    m
}

async fn run(ctx: &SessionContext, sql: &str) -> Result<Vec<Vec<Value>>, String> {
    match ctx.sql(sql).await {
        Ok(df) => df.collect().await.map(|b| batches_to_rows(&b)).map_err(|e| e.to_string()),
        Err(e) => Err(e.to_string()),
    }
}

/// `SHOW key` -> Ok(Some(text) | None for NULL) or Err when SHOW itself is unavailable in this state
async fn show(ctx: &SessionContext, key: &str) -> Result<Option<String>, String> {
    let rows = run(ctx, &format!("SHOW {key}")).await?;
    match rows.as_slice() {
        [r] if r.len() == 2 => match &r[1] {
            Value::Null => Ok(None),
            Value::Str(s) => Ok(Some(s.clone())),
            other => Err(format!("unexpected SHOW value {other:?}")),
        },
        other => Err(format!("SHOW returned {} rows", other.len())),
    }
}

/// SQL probe for a configuration (non-runtime) key; `api` = what the programmatic path did with the same value.
fn sql_probe(cx: &Ctx, key: &str, kind: Kind, value: &str, api: &Option<Option<String>>) {
    let rep = cx.rep;
    let short = key.strip_prefix("datafusion.").unwrap_or(key);
    let rt = current_thread_rt();
    let r = vcommon::par::guard(|| {
        rt.block_on(async {
            let ctx = new_ctx();
            let s0 = ctx_snap(&ctx);
            let stmt = format!("SET {key} = {}", sql_quote(value));
            let res = run(&ctx, &stmt).await;
            let s1 = ctx_snap(&ctx);
            let w = |extra: Json| json!({"key": key, "kind": kind.name(), "value": value, "how": format!("SessionContext (information_schema=true) ; {stmt} ; SHOW {key}"), "detail": extra});
            rep.case(fp_str(&format!("sql|{key}|{value}")), true);
            match (res, api) {
                (Err(e), Some(_)) => cx.violation(&format!("sql-set-rejects-value-the-setter-accepts/{short}"), w(json!({"error": e}))),
                (Ok(_), None) => cx.violation(&format!("sql-set-accepts-value-the-setter-rejects/{short}"), w(json!({"read_back": s1.get(key)}))),
                (Err(_), None) => {
                    rep.count("sql/rejected", 1);
                    let d = diff(&s0, &s1);
                    if !d.is_empty() {
                        let only_self = d.len() == 1 && d[0].0 == key && d[0].1.is_none();
                        let sig = if only_self { { rep.seen("keys affected by failed-set-mutates-config/unset-option-becomes-default", short); "failed-set-mutates-config/unset-option-becomes-default".to_string() } } else { format!("sql-failed-set-mutates-config/{short}") };
                        cx.violation(&sig, w(json!({"changed_entries": diff_json(&d)})));
                    }
                }
                (Ok(_), Some(expected)) => {
                    rep.count("sql/accepted", 1);
                    let allowed = documented_dependents(key);
                    let others: Vec<_> = diff(&s0, &s1).into_iter().filter(|(k, _, _)| k != key && !allowed.contains(&k.as_str())).collect();
                    if !others.is_empty() {
                        cx.violation(&format!("sql-set-writes-other-key/{short}"), w(json!({"changed_entries": diff_json(&others)})));
                    }
                    use futures::FutureExt;
                    let shown = std::panic::AssertUnwindSafe(show(&ctx, key)).catch_unwind().await.unwrap_or_else(|_| {
                        // a panic of the SHOW *query* under a pathological setting is outside this property
                        rep.seen("settings under which the SHOW query panics (outside the property; reported separately)", &format!("{short} = {}", value.chars().take(24).collect::<String>()));
                        Err("SHOW panicked".to_string())
                    });
                    match shown {
                        Ok(mut shown) => {
                            rep.count("sql/show-compared", 1);
                            if cx.selftest == 2 && key.ends_with("batch_size") {
                                shown = Some("corrupted".into());
                            }
                            if &shown != expected {
                                cx.violation(&format!("set-show-mismatch/{short}"), w(json!({"show_reports": shown, "text_form_of_the_value": expected})));
                            }
                        }
                        Err(e) => {
                            // SHOW needs the information schema / a parsable dialect / an existing default catalog: outside the property
                            rep.count("sql/show-unavailable-after-set", 1);
                            rep.seen("keys after whose SET a SHOW statement is unavailable", &format!("{short}: {}", e.chars().take(80).collect::<String>()));
                            let got = s1.get(key).cloned().flatten();
                            if &got != expected {
                                cx.violation(&format!("set-show-mismatch/{short}"), w(json!({"session_config_reports": got, "text_form_of_the_value": expected})));
                            }
                        }
                    }
                }
            }
        })
    });
    if let Err(p) = r {
        cx.violation(&format!("panic-in-set/{short}"), json!({"key": key, "value": value, "panic": p}));
    }
}

// ------------------------------------------------------------------------------------------
// runtime options (only reachable through SQL)
// ------------------------------------------------------------------------------------------

#[derive(Clone, Copy, Debug, PartialEq)]
enum RtKind {
    Size,
    Duration,
    Count,
    Path,
}

fn rt_kind(key: &str) -> Option<RtKind> {
    match key.strip_prefix("datafusion.runtime.")? {
        "memory_limit" | "max_temp_directory_size" | "metadata_cache_limit" | "list_files_cache_limit" | "file_statistics_cache_limit" => Some(RtKind::Size),
        "list_files_cache_ttl" => Some(RtKind::Duration),
        "max_spill_merge_fan_in" => Some(RtKind::Count),
        "temp_directory" => Some(RtKind::Path),
        _ => None,
    }
}

fn rt_domain(kind: RtKind, tmp: &str) -> Vec<(String, Class)> {
    match kind {
        RtKind::Size => vec![s("0", Valid), s("1K", Valid), s("1.5M", Valid), s("10G", Valid), s("1024K", Valid), s("2048M", Valid), s("0.5K", Open), s("512", Open), s("1.5", Open), s("unlimited", Open), s("1T", Invalid), s("abc", Invalid), s("-1K", Invalid), s("", Invalid), s("K", Invalid)],
        RtKind::Duration => vec![s("30s", Valid), s("2m", Valid), s("1m30s", Valid), s("90s", Valid), s("0s", Invalid), s("abc", Invalid), s("", Invalid), s("1h", Open), s("30", Open), s("30s1m", Open)],
        RtKind::Count => vec![s("2", Valid), s("16", Valid), s("1000", Valid), s("abc", Invalid), s("-1", Invalid), s("1.5", Invalid), s("", Invalid), s("0", Open), s("1", Open)],
        RtKind::Path => vec![s(tmp, Open)],
    }
}

fn runtime_probe(cx: &Ctx, key: &str, kind: RtKind, value: &str, class: Class) {
    let rep = cx.rep;
    let short = key.strip_prefix("datafusion.").unwrap_or(key);
    let rt = current_thread_rt();
    let r = vcommon::par::guard(|| {
        rt.block_on(async {
            let ctx = new_ctx();
            let s0 = ctx_snap(&ctx);
            let stmt = format!("SET {key} = {}", sql_quote(value));
            let res = run(&ctx, &stmt).await;
            let s1 = ctx_snap(&ctx);
            let w = |extra: Json| json!({"key": key, "kind": format!("runtime/{kind:?}"), "value": value, "how": format!("SessionContext ; {stmt} ; SHOW {key} ; SET {key} = <shown text>"), "detail": extra});
            rep.case(fp_str(&format!("runtime|{key}|{value}")), true);
            match res {
                Err(e) => {
                    rep.count("runtime/rejected", 1);
                    if class == Valid {
                        cx.violation(&format!("valid-value-rejected/{short}"), w(json!({"error": e})));
                    }
                    let d = diff(&s0, &s1);
                    if !d.is_empty() {
                        cx.violation(&format!("failed-set-mutates-config/{short}"), w(json!({"changed_entries": diff_json(&d)})));
                    }
                }
                Ok(_) => {
                    rep.count("runtime/accepted", 1);
                    if class == Invalid {
                        cx.violation(&format!("invalid-value-accepted/{short}"), w(json!({"read_back": s1.get(key)})));
                    }
                    let (flipped, others) = split_flip(diff(&s0, &s1).into_iter().filter(|(k, _, _)| k != key).collect());
                    if flipped {
                        cx.violation("runtime-set-rewrites/catalog.create_default_catalog_and_schema", w(json!({"changed_entries": [{"key": FLIP_KEY, "before": s0.get(FLIP_KEY), "after": s1.get(FLIP_KEY)}]})));
                    }
                    if !others.is_empty() {
                        cx.violation(&format!("set-writes-other-key/{short}"), w(json!({"changed_entries": diff_json(&others)})));
                    }
                    let r1 = s1.get(key).cloned().flatten();
                    match show(&ctx, key).await {
                        Ok(shown) => {
                            rep.count("runtime/show-compared", 1);
                            if shown != r1 {
                                cx.violation(&format!("set-show-mismatch/{short}"), w(json!({"show_reports": shown, "runtime_env_reports": r1})));
                            }
                        }
                        Err(e) => cx.violation(&format!("show-fails-for-runtime-key/{short}"), w(json!({"error": e}))),
                    }
                    if r1.as_deref() != Some(value) {
                        rep.count("runtime/text-normalised-or-rounded", 1);
                    }
                    if kind == RtKind::Path {
                        // the reported path is a fresh sub-directory created below the given path: derived by design
                        rep.count("runtime/derived-temp-directory", 1);
                        return;
                    }
                    if let Some(r) = &r1 {
                        match run(&ctx, &format!("SET {key} = {}", sql_quote(r))).await {
                            Err(e) => {
                                let sig = if kind == RtKind::Size && r.bytes().all(|b| b.is_ascii_digit()) {
                                    rep.seen("keys affected by read-back-rejected/runtime-size-below-1K-printed-without-unit", short);
                                    "read-back-rejected/runtime-size-below-1K-printed-without-unit".to_string()
                                } else {
                                    format!("read-back-rejected/{short}")
                                };
                                cx.violation(&sig, w(json!({"read_back": r, "error": e})));
                            }
                            Ok(_) => {
                                let s2 = ctx_snap(&ctx);
                                let (_, d) = split_flip(diff(&s1, &s2));
                                if !d.is_empty() {
                                    cx.violation(&format!("read-back-not-a-fixpoint/{short}"), w(json!({"read_back": r, "changed_entries": diff_json(&d)})));
                                }
                            }
                        }
                    }
                }
            }
        })
    });
    if let Err(p) = r {
        cx.violation(&format!("panic-in-set/{short}"), json!({"key": key, "value": value, "panic": p}));
    }
}

/// (1) for runtime keys: the reported default text must be settable and change nothing
fn runtime_reported(cx: &Ctx, key: &str) {
    let rep = cx.rep;
    let short = key.strip_prefix("datafusion.").unwrap_or(key).to_string();
    let rt = current_thread_rt();
    let _ = vcommon::par::guard(|| {
        rt.block_on(async {
            let ctx = new_ctx();
            let s0 = ctx_snap(&ctx);
            let Some(Some(v)) = s0.get(key).cloned() else {
                rep.count("runtime/reported-unset", 1);
                return;
            };
            rep.case(fp_str(&format!("runtime-reported|{key}")), true);
            let stmt = format!("SET {key} = {}", sql_quote(&v));
            let w = |extra: Json| json!({"key": key, "reported_text": v, "how": format!("SessionContext::new ; SHOW {key} -> {v:?} ; {stmt}"), "detail": extra});
            match run(&ctx, &stmt).await {
                Err(e) => {
                    let why = if v == "unlimited" { "unlimited" } else { "other" };
                    cx.violation(&format!("reported-text-rejected/{short}/{why}"), w(json!({"error": e})));
                }
                Ok(_) => {
                    let (flipped, d) = split_flip(diff(&s0, &ctx_snap(&ctx)));
                    if flipped {
                        cx.violation("runtime-set-rewrites/catalog.create_default_catalog_and_schema", w(json!({"changed_entries": [{"key": FLIP_KEY, "before": "true", "after": "false"}]})));
                    }
                    if !d.is_empty() && rt_kind(key) != Some(RtKind::Path) {
                        cx.violation(&format!("reported-text-changes-config/{short}"), w(json!({"changed_entries": diff_json(&d)})));
                    }
                    rep.count("runtime/reported-roundtrip-ok", 1);
                }
            }
        })
    });
}

// ------------------------------------------------------------------------------------------

fn random_text(rng: &mut Rng) -> String {
    match rng.below(6) {
        0 => rng.range(-5, 100_000).to_string(),
        1 => format!("{}", rng.f64() * 100.0),
        2 => rng.pick(&["true", "FALSE", "t", "on", "off", "null", "None", "none", "NULL"]).to_string(),
        3 => format!("{}{}", rng.range(0, 2000), rng.pick(&["K", "M", "G", "k", "ms", "s", "%"])),
        _ => {
            let n = rng.usize(12);
            (0..n).map(|_| *rng.pick(&['a', 'Z', '0', ' ', '_', '-', '.', ',', '\'', '"', '(', ')', '%', '\u{e9}', '\t'])).collect()
        }
    }
}

fn run_check(args: &Args) -> i32 {
    let rep = Report::new("C43", "exploration", args);
    rep.set_rule("case = (base configuration [defaults | every key perturbed], key of ConfigOptions::entries() or runtime key, text value from the kind's domain [+ random texts in the thorough tier], path [ConfigOptions::set | SQL SET/SHOW]); oracle = equality of full entries() snapshots; distinct = (base, key, value, path); every case is non-trivial (a setter ran and the snapshot was compared)");
    rep.assume("the kind of a key (bool / integer flavours / float / enum / optional / string) is taken from the declared field types; values whose validity the type leaves open are classified by the setter's own result");
    rep.assume("SHOW needs the information schema: after SET of catalog.information_schema=false, a dialect that cannot parse SHOW, or a non-existing default catalog the session's ConfigOptions is read instead");
    let selftest = args.opt_u64("selftest", 0);
    let cx = Ctx { rep: &rep, selftest, seen_signatures: Default::default() };
    let n_random = args.bound("random_texts", 0, 100);

    let defaults = ConfigOptions::new();
    let entries = defaults.entries();
    let kinds: Vec<(String, Option<String>, Kind, bool)> = entries.iter().map(|e| {
        let (k, inferred) = kind_of(&e.key, &e.value);
        (e.key.clone(), e.value.clone(), k, inferred)
    }).collect();
    for (key, _, k, inferred) in &kinds {
        rep.count(&format!("kind/{}", k.name()), 1);
        if *inferred {
            rep.seen("keys whose kind was inferred from the default text (not in the type table)", key);
        }
    }

    // ---- the perturbed base
    let mut perturbed = ConfigOptions::new();
    let mut failures = vec![];
    for (key, dv, k, _) in &kinds {
        let v = perturbed_value(*k, dv);
        if let Err(e) = perturbed.set(key, &v) {
            failures.push(json!({"key": key, "value": v, "error": e.to_string()}));
        }
    }
    let n_diff = diff(&snap(&defaults), &snap(&perturbed)).len();
    rep.extra("perturbed_base", json!({"keys_differing_from_default": n_diff, "of": kinds.len(), "set_failures": failures}));
    rep.obligation("perturbed-base-differs", n_diff * 10 >= kinds.len() * 9, "the perturbed base must differ from the defaults in >= 90% of the keys");
    let bases: [(&str, &ConfigOptions); 2] = [("defaults", &defaults), ("perturbed", &perturbed)];

    // ---- (1) + (2) programmatic path, (3) SQL path
    let exempt: BTreeSet<&str> = kinds.iter().map(|k| k.0.as_str()).filter(|k| !documented_dependents(k).is_empty()).collect();
    vcommon::par::run(args.workers, kinds.iter().enumerate(), |(i, (key, _dv, kind, _))| {
        let short = key.strip_prefix("datafusion.").unwrap_or(key);
        // (1) the reported text
        for (bname, base) in bases {
            let s0 = snap(base);
            if let Some(Some(v)) = s0.get(key) {
                let mut cfg = (*base).clone();
                rep.case(fp_str(&format!("reported|{bname}|{key}")), true);
                match cfg.set(key, v) {
                    Err(e) => cx.violation(&format!("reported-text-rejected/{short}"), witness(key, *kind, bname, v, json!({"error": e.to_string()}))),
                    Ok(()) => {
                        let allowed = documented_dependents(key);
                        let d: Vec<_> = diff(&s0, &snap(&cfg)).into_iter().filter(|(k, _, _)| !allowed.contains(&k.as_str())).collect();
                        if !d.is_empty() {
                            cx.violation(&format!("reported-text-changes-config/{short}"), witness(key, *kind, bname, v, json!({"changed_entries": diff_json(&d)})));
                        }
                        rep.count("reported-text/roundtrip-compared", 1);
                    }
                }
            } else {
                rep.count("reported-text/unset-entries", 1);
            }
        }
        // (2) the value domain
        let mut dom = domain(*kind);
        let mut rng = Rng::derive(args.seed, &[43, i as u64]);
        for _ in 0..n_random {
            dom.push((random_text(&mut rng), Open));
        }
        let (mut n_ok, mut n_rej) = (0, 0);
        for (v, class) in &dom {
            let mut api_default = None;
            for (bname, base) in bases {
                let r = probe(&cx, base, bname, key, *kind, v, *class);
                if bname == "defaults" {
                    api_default = r.clone();
                }
                if r.is_some() { n_ok += 1 } else { n_rej += 1 }
            }
            // (3) SQL path (from the defaults)
            sql_probe(&cx, key, *kind, v, &api_default);
        }
        rep.seen("keys covered", short);
        if n_ok == 0 {
            rep.seen("keys without an accepted probe", short);
        }
        if n_rej == 0 {
            rep.seen("keys that accepted every probed text (free-form strings)", short);
        }
    });
    rep.obligation("every-key-covered", rep.seen_count("keys covered") == kinds.len() || kinds.len() > 400, &format!("{} of {} keys of ConfigOptions::entries() probed", rep.seen_count("keys covered"), kinds.len()));
    rep.obligation("every-key-has-an-accepted-value", rep.seen_count("keys without an accepted probe") == 0, "each key must accept at least one probed value (otherwise the valid branch of the oracle never ran for it)");

    // ---- runtime options
    let tmp = tempfile::tempdir().ok();
    let tmp_path = tmp.as_ref().map(|t| t.path().display().to_string()).unwrap_or_else(|| "/tmp".into());
    let rt_keys: Vec<String> = new_ctx().runtime_env().config_entries().into_iter().map(|e| e.key).collect();
    let mut rt_cases = vec![];
    for key in &rt_keys {
        match rt_kind(key) {
            Some(k) => {
                rep.seen("runtime keys covered", key);
                for (v, c) in rt_domain(k, &tmp_path) {
                    rt_cases.push((key.clone(), k, v, c));
                }
            }
            None => rep.seen("runtime keys of unknown kind (only the reported text is checked)", key),
        }
    }
    vcommon::par::run(args.workers, rt_keys.iter(), |key| runtime_reported(&cx, key));
    vcommon::par::run(args.workers, rt_cases.iter(), |(key, k, v, c)| runtime_probe(&cx, key, *k, v, *c));
    rep.obligation("runtime-keys-covered", rep.seen_count("runtime keys covered") == rt_keys.len(), &format!("{} runtime keys listed by RuntimeEnv::config_entries()", rt_keys.len()));

    rep.extra(
        "explicit_exemptions",
        json!({
            "documented umbrella switches (may write the listed keys)": exempt.iter().map(|k| json!({"key": k, "may_write": documented_dependents(k)})).collect::<Vec<_>>(),
            "derived by design": ["datafusion.runtime.temp_directory (reports the fresh sub-directory created below the given path, or the lazily created spill directory; never compared as an 'other key')"],
            "lossy text by design (fixpoint still required)": ["datafusion.runtime.* sizes are reported rounded down to whole K/M/G", "datafusion.execution.target_partitions / planning_concurrency: 0 is stored as the number of cores", "parquet.compression / statistics_enabled / encoding / coerce_int96 are lower-cased"],
        }),
    );
    rep.extra("keys_total", json!({"config": kinds.len(), "runtime": rt_keys.len()}));
    rep.sample(json!({"example": "set('datafusion.execution.batch_size','7') from both bases -> read back '7' -> set('7') again -> identical snapshot; SET ... = '7' ; SHOW -> '7'"}));
    rep.finish()
}

fn main() {
    let args = Args::parse();
    vcommon::par::quiet_panics();
    std::process::exit(run_check(&args));
}
