//! Candidate argument lists and input generation for C07.

use arrow::array::*;
use arrow::datatypes::*;
use datafusion::common::ScalarValue;
use std::sync::Arc;
use vcommon::Rng;

#[derive(Clone, Debug, PartialEq)]
pub enum ArgSpec {
    /// a column of this type
    Col(DataType),
    /// a constant argument (percentile, n, delimiter, ..)
    Lit(ScalarValue),
}

impl ArgSpec {
    pub fn data_type(&self) -> DataType {
        match self {
            ArgSpec::Col(d) => d.clone(),
            ArgSpec::Lit(s) => s.data_type(),
        }
    }
    pub fn label(&self) -> String {
        match self {
            ArgSpec::Col(d) => short(d),
            ArgSpec::Lit(s) => format!("lit({s})"),
        }
    }
}

pub fn short(d: &DataType) -> String {
    match d {
        DataType::Timestamp(u, tz) => format!("Timestamp({u:?}{})", tz.as_ref().map(|t| format!(",{t}")).unwrap_or_default()),
        DataType::Dictionary(k, v) => format!("Dict({},{})", short(k), short(v)),
        DataType::List(f) => format!("List({})", short(f.data_type())),
        DataType::Struct(fs) => format!("Struct({})", fs.iter().map(|f| short(f.data_type())).collect::<Vec<_>>().join(",")),
        other => format!("{other}"),
    }
}

pub fn label(args: &[ArgSpec]) -> String {
    args.iter().map(|a| a.label()).collect::<Vec<_>>().join(", ")
}

pub fn column_types() -> Vec<DataType> {
    vec![
        DataType::Int8,
        DataType::Int16,
        DataType::Int32,
        DataType::Int64,
        DataType::UInt8,
        DataType::UInt16,
        DataType::UInt32,
        DataType::UInt64,
        DataType::Float32,
        DataType::Float64,
        DataType::Decimal128(10, 2),
        DataType::Decimal128(38, 4),
        DataType::Decimal256(40, 3),
        DataType::Boolean,
        DataType::Utf8,
        DataType::LargeUtf8,
        DataType::Utf8View,
        DataType::Binary,
        DataType::LargeBinary,
        DataType::BinaryView,
        DataType::Date32,
        DataType::Date64,
        DataType::Time64(TimeUnit::Nanosecond),
        DataType::Timestamp(TimeUnit::Nanosecond, None),
        DataType::Timestamp(TimeUnit::Millisecond, Some("UTC".into())),
        DataType::Duration(TimeUnit::Millisecond),
        DataType::Dictionary(Box::new(DataType::Int32), Box::new(DataType::Utf8)),
        DataType::List(Arc::new(Field::new_list_field(DataType::Int32, true))),
        DataType::Struct(Fields::from(vec![Field::new("a", DataType::Int32, true), Field::new("b", DataType::Utf8, true)])),
        DataType::Null,
    ]
}

/// Candidate argument lists tried against every function's `Signature`.
pub fn candidates() -> Vec<Vec<ArgSpec>> {
    let mut out: Vec<Vec<ArgSpec>> = vec![];
    let cols = column_types();
    for t in &cols {
        out.push(vec![ArgSpec::Col(t.clone())]);
    }
    // two columns (covariance / correlation / regression / count(a, b))
    let num2 = [DataType::Int32, DataType::Int64, DataType::UInt32, DataType::Float32, DataType::Float64, DataType::Decimal128(10, 2)];
    for t in &num2 {
        out.push(vec![ArgSpec::Col(t.clone()), ArgSpec::Col(t.clone())]);
    }
    out.push(vec![ArgSpec::Col(DataType::Float64), ArgSpec::Col(DataType::Int64)]);
    out.push(vec![ArgSpec::Col(DataType::Utf8), ArgSpec::Col(DataType::Int32)]);
    // column + constant
    let lits = [
        ScalarValue::Float64(Some(0.5)),
        ScalarValue::Float64(Some(0.0)),
        ScalarValue::Float64(Some(1.0)),
        ScalarValue::Float64(Some(0.25)),
        ScalarValue::Int64(Some(1)),
        ScalarValue::Int64(Some(2)),
        ScalarValue::Int64(Some(-2)),
        ScalarValue::Utf8(Some(",".into())),
        ScalarValue::Utf8(Some("".into())),
        ScalarValue::LargeUtf8(Some("--".into())),
        ScalarValue::Utf8(None),
    ];
    let lit_cols = [
        DataType::Int32,
        DataType::Int64,
        DataType::UInt8,
        DataType::Float32,
        DataType::Float64,
        DataType::Decimal128(10, 2),
        DataType::Utf8,
        DataType::LargeUtf8,
        DataType::Utf8View,
        DataType::Boolean,
        DataType::Date32,
        DataType::Timestamp(TimeUnit::Nanosecond, None),
    ];
    for t in &lit_cols {
        for l in &lits {
            out.push(vec![ArgSpec::Col(t.clone()), ArgSpec::Lit(l.clone())]);
        }
    }
    // three arguments (the sketch quantiles; on the skip list but still probed for the evidence)
    out.push(vec![ArgSpec::Col(DataType::Float64), ArgSpec::Lit(ScalarValue::Float64(Some(0.5))), ArgSpec::Lit(ScalarValue::Int64(Some(100)))]);
    out.push(vec![ArgSpec::Col(DataType::Float64), ArgSpec::Col(DataType::Float64), ArgSpec::Lit(ScalarValue::Float64(Some(0.5)))]);
    out
}

const STRS: &[&str] = &["", "a", "b", "ab", "B", "zz", "a-longer-string-value", "a-longer-string-valuf", "\u{e9}", ","];

/// One random non-NULL value of the type. Integers are small (no overflow in sums), floats dyadic.
pub fn scalar_of(dt: &DataType, rng: &mut Rng) -> ScalarValue {
    let small = |rng: &mut Rng| rng.range(-20, 20);
    let pos = |rng: &mut Rng| rng.range(0, 40);
    match dt {
        DataType::Int8 => ScalarValue::Int8(Some(small(rng) as i8)),
        DataType::Int16 => ScalarValue::Int16(Some(small(rng) as i16)),
        DataType::Int32 => ScalarValue::Int32(Some(small(rng) as i32)),
        DataType::Int64 => ScalarValue::Int64(Some(small(rng))),
        DataType::UInt8 => ScalarValue::UInt8(Some(pos(rng) as u8)),
        DataType::UInt16 => ScalarValue::UInt16(Some(pos(rng) as u16)),
        DataType::UInt32 => ScalarValue::UInt32(Some(pos(rng) as u32)),
        DataType::UInt64 => ScalarValue::UInt64(Some(pos(rng) as u64)),
        DataType::Float32 => ScalarValue::Float32(Some(rng.range(-64, 64) as f32 / 4.0)),
        DataType::Float64 => ScalarValue::Float64(Some(rng.range(-64, 64) as f64 / 4.0)),
        DataType::Decimal128(p, s) => ScalarValue::Decimal128(Some(rng.range(-5000, 5000) as i128), *p, *s),
        DataType::Decimal256(p, s) => ScalarValue::Decimal256(Some(arrow::datatypes::i256::from_i128(rng.range(-5000, 5000) as i128)), *p, *s),
        DataType::Boolean => ScalarValue::Boolean(Some(rng.bool())),
        DataType::Utf8 => ScalarValue::Utf8(Some(rng.pick(STRS).to_string())),
        DataType::LargeUtf8 => ScalarValue::LargeUtf8(Some(rng.pick(STRS).to_string())),
        DataType::Utf8View => ScalarValue::Utf8View(Some(rng.pick(STRS).to_string())),
        DataType::Binary => ScalarValue::Binary(Some(rng.pick(STRS).as_bytes().to_vec())),
        DataType::LargeBinary => ScalarValue::LargeBinary(Some(rng.pick(STRS).as_bytes().to_vec())),
        DataType::BinaryView => ScalarValue::BinaryView(Some(rng.pick(STRS).as_bytes().to_vec())),
        DataType::Date32 => ScalarValue::Date32(Some(rng.range(-30, 20000) as i32)),
        DataType::Date64 => ScalarValue::Date64(Some(rng.range(-30, 20000) * 86_400_000)),
        DataType::Time64(TimeUnit::Nanosecond) => ScalarValue::Time64Nanosecond(Some(rng.range(0, 86_399) * 1_000_000_000)),
        DataType::Timestamp(TimeUnit::Nanosecond, tz) => ScalarValue::TimestampNanosecond(Some(rng.range(-1000, 1_000_000) * 1_000_003), tz.clone()),
        DataType::Timestamp(TimeUnit::Millisecond, tz) => ScalarValue::TimestampMillisecond(Some(rng.range(-1000, 1_000_000) * 1_003), tz.clone()),
        DataType::Duration(TimeUnit::Millisecond) => ScalarValue::DurationMillisecond(Some(rng.range(-500, 500))),
        DataType::Dictionary(k, v) => ScalarValue::Dictionary(k.clone(), Box::new(scalar_of(v, rng))),
        DataType::List(f) => {
            let n = rng.usize(3);
            let vals: Vec<ScalarValue> = (0..n).map(|_| if rng.chance(1, 5) { ScalarValue::try_new_null(f.data_type()).unwrap() } else { scalar_of(f.data_type(), rng) }).collect();
            ScalarValue::List(ScalarValue::new_list_nullable(&vals, f.data_type()))
        }
        DataType::Struct(fs) => {
            let cols: Vec<ArrayRef> = fs
                .iter()
                .map(|f| {
                    // fields are never NULL: partial_cmp_struct is not a total order over NULL fields
                    scalar_of(f.data_type(), rng).to_array().unwrap()
                })
                .collect();
            ScalarValue::Struct(Arc::new(StructArray::new(fs.clone(), cols, None)))
        }
        _ => ScalarValue::Null,
    }
}

/// A column of `n` values with NULLs (per-mille probability). `few` draws from a 3-value domain so
/// DISTINCT variants and min/max retraction see duplicates.
pub fn column(dt: &DataType, n: usize, null_pm: u64, few: bool, rng: &mut Rng) -> ArrayRef {
    if matches!(dt, DataType::Null) {
        return Arc::new(NullArray::new(n));
    }
    let null = ScalarValue::try_new_null(dt).expect("null of type");
    let domain: Vec<ScalarValue> = if few { (0..3).map(|_| scalar_of(dt, rng)).collect() } else { vec![] };
    let vals: Vec<ScalarValue> = (0..n)
        .map(|_| {
            if rng.below(1000) < null_pm {
                null.clone()
            } else if few {
                rng.pick_cloned(&domain)
            } else {
                scalar_of(dt, rng)
            }
        })
        .collect();
    if vals.is_empty() {
        return arrow::array::new_empty_array(dt);
    }
    ScalarValue::iter_to_array(vals).expect("harness column")
}

/// Pairwise distinct non-NULL values (numeric types only; other types fall back to `column`).
pub fn unique_column(dt: &DataType, n: usize, null_pm: u64, rng: &mut Rng) -> ArrayRef {
    let mut perm: Vec<i64> = (0..n as i64).collect();
    rng.shuffle(&mut perm);
    let null = match ScalarValue::try_new_null(dt) {
        Ok(x) => x,
        Err(_) => return column(dt, n, null_pm, false, rng),
    };
    let mk = |k: i64| -> Option<ScalarValue> {
        Some(match dt {
            DataType::Int8 => ScalarValue::Int8(Some((k - 20) as i8)),
            DataType::Int16 => ScalarValue::Int16(Some((k - 20) as i16)),
            DataType::Int32 => ScalarValue::Int32(Some((k - 20) as i32)),
            DataType::Int64 => ScalarValue::Int64(Some(k - 20)),
            DataType::UInt8 => ScalarValue::UInt8(Some(k as u8)),
            DataType::UInt16 => ScalarValue::UInt16(Some(k as u16)),
            DataType::UInt32 => ScalarValue::UInt32(Some(k as u32)),
            DataType::UInt64 => ScalarValue::UInt64(Some(k as u64)),
            DataType::Float32 => ScalarValue::Float32(Some((k - 20) as f32 / 4.0)),
            DataType::Float64 => ScalarValue::Float64(Some((k - 20) as f64 / 4.0)),
            DataType::Decimal128(p, s) => ScalarValue::Decimal128(Some(((k - 20) * 25) as i128), *p, *s),
            _ => return None,
        })
    };
    if mk(0).is_none() || n == 0 {
        return column(dt, n, null_pm, false, rng);
    }
    let vals: Vec<ScalarValue> = perm.iter().map(|k| if rng.below(1000) < null_pm { null.clone() } else { mk(*k).unwrap() }).collect();
    ScalarValue::iter_to_array(vals).expect("harness column")
}

pub fn take_rows(cols: &[ArrayRef], idx: &[usize]) -> Vec<ArrayRef> {
    let ix = UInt32Array::from_iter_values(idx.iter().map(|i| *i as u32));
    cols.iter().map(|c| arrow::compute::take(c.as_ref(), &ix, None).expect("take")).collect()
}

pub fn slice_rows(cols: &[ArrayRef], lo: usize, hi: usize) -> Vec<ArrayRef> {
    cols.iter().map(|c| c.slice(lo, hi - lo)).collect()
}
