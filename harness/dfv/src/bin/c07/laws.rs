//! The four decomposition laws.

use crate::tgen::*;
use crate::lv::{self, LV};
use crate::{Mon, Variant, first_line};
use arrow::array::{Array, ArrayRef, BooleanArray};
use datafusion::common::ScalarValue;
use datafusion::error::DataFusionError;
use datafusion::logical_expr::{Accumulator, EmitTo};
use vcommon::{Json, Rng, json};

pub enum Stop {
    /// the function says it cannot do this (NotImplemented) -> "unsupported" in the matrix
    Unsupported(String),
    /// any other engine error in the middle of a history
    Error(String),
}

fn stop(e: DataFusionError) -> Stop {
    let root_ni = matches!(e.find_root(), DataFusionError::NotImplemented(_));
    let msg = first_line(&e.to_string());
    if root_ni || msg.contains("not implemented") || msg.contains("Not implemented") || msg.contains("not supported") { Stop::Unsupported(msg) } else { Stop::Error(msg) }
}

type R<T> = Result<T, Stop>;

fn inputs_json(cols: &[ArrayRef]) -> Json {
    Json::Array(cols.iter().map(|c| json!({"type": short(c.data_type()), "values": lv::column(c.as_ref()).iter().map(|v| v.to_json()).collect::<Vec<_>>()})).collect())
}

fn one_shot(v: &Variant, cols: &[ArrayRef]) -> R<LV> {
    let mut acc = v.expr.create_accumulator().map_err(stop)?;
    if cols.first().map(|c| c.len()).unwrap_or(0) > 0 {
        acc.update_batch(cols).map_err(stop)?;
    }
    Ok(lv::scalar(&acc.evaluate().map_err(stop)?))
}

struct Chk<'a> {
    mon: &'a Mon<'a>,
    v: &'a Variant,
    law: &'static str,
    fp: u64,
    n_cmp: std::cell::Cell<u64>,
    failed: std::cell::Cell<bool>,
}

impl<'a> Chk<'a> {
    /// compare one decomposed result with the one-shot result
    fn cmp(&self, sub: &str, expected: &LV, observed: &LV, witness: &dyn Fn() -> Json) {
        let k = self.n_cmp.get();
        self.n_cmp.set(k + 1);
        let observed = if self.mon.selftest && (self.fp.wrapping_add(k)) % 5 == 0 { lv::corrupt(observed) } else { observed.clone() };
        if !lv::close(expected, &observed, self.v.tol, self.v.unordered_result) && !self.failed.get() {
            self.failed.set(true);
            let mut w = witness();
            if let Some(o) = w.as_object_mut() {
                o.insert("function".into(), json!(self.v.label()));
                o.insert("law".into(), json!(format!("{} {}", self.law, sub)));
                o.insert("expected_one_shot".into(), expected.to_json());
                o.insert("observed".into(), observed.to_json());
                o.insert("repro".into(), json!(format!("c07 C07 --opt only='{}'", self.v.label())));
            }
            if std::env::var("C07_DEBUG").is_ok() {
                eprintln!("VIOL {}-{}/{} :: {} :: expected {} observed {}", self.law, sub, self.v.fn_label, self.v.label(), expected.to_json(), observed.to_json());
            }
            self.mon.violation(&format!("{}/{}", self.law, self.v.fn_label), w);
        }
    }
}

pub fn run_law(mon: &Mon, v: &Variant, law: &str, rng: &mut Rng, fp: u64) {
    let law: &'static str = match law {
        "L1" => "L1",
        "L2" => "L2",
        "L3" => "L3",
        _ => "L4",
    };
    let n = *rng.pick(&[0usize, 1, 2, 3, 5, 8, 13, 21, 40]);
    let stat = crate::STAT_PREFIXES.iter().any(|p| v.base_name().starts_with(p));
    let cols = v.inputs(n, rng, law == "L4" && stat);
    let chk = Chk { mon, v, law, fp, n_cmp: std::cell::Cell::new(0), failed: std::cell::Cell::new(false) };
    let r = vcommon::par::guard(|| match law {
        "L1" => l1(&chk, &cols, n, rng),
        "L2" => l2(&chk, &cols, n, rng),
        "L3" => l3(&chk, &cols, n, rng),
        _ => l4(&chk, &cols, n, rng),
    });
    let what = match r {
        Ok(Ok(true)) => "checked",
        Ok(Ok(false)) => "unsupported",
        Ok(Err(Stop::Unsupported(why))) => {
            mon.rep.count(&format!("unsupported: {}", first_line(&why).chars().take(70).collect::<String>()), 1);
            "unsupported"
        }
        Ok(Err(Stop::Error(msg))) => {
            if std::env::var("C07_DEBUG").is_ok() {
                eprintln!("VIOL {law}-error/{} :: {} :: {msg}", v.fn_label, v.label());
            }
            mon.violation(&format!("{law}/{}", v.fn_label), json!({"function": v.label(), "law": format!("{law} engine-error"), "error": msg, "inputs": inputs_json(&cols), "repro": format!("c07 C07 --opt only='{}'", v.label())}));
            "error"
        }
        Err(panic) => {
            if std::env::var("C07_DEBUG").is_ok() {
                eprintln!("VIOL {law}-panic/{} :: {} :: {panic}", v.fn_label, v.label());
            }
            mon.violation(&format!("{law}/{}", v.fn_label), json!({"function": v.label(), "law": format!("{law} engine-panic"), "panic": panic, "inputs": inputs_json(&cols), "repro": format!("c07 C07 --opt only='{}'", v.label())}));
            "panic"
        }
    };
    mon.matrix.add(&v.fn_label, law, what);
    mon.rep.case(fp, n > 0 && what == "checked");
    if what == "checked" {
        mon.rep.count(&format!("{law}_comparisons"), chk.n_cmp.get());
        if mon.rep.want_sample() && n >= 5 && fp % 97 == 0 {
            mon.rep.sample(json!({"function": v.label(), "law": law, "rows": n, "comparisons": chk.n_cmp.get()}));
        }
    }
}

// ---- L1: batch-split invariance (+ independent fold) -----------------------------------------

fn l1(c: &Chk, cols: &[ArrayRef], n: usize, rng: &mut Rng) -> R<bool> {
    let v = c.v;
    let r0 = one_shot(v, cols)?;
    // independent definition for the simple functions
    // (spark try_sum accepts DISTINCT but ignores it; it is not one of the functions the fold is defined for)
    if v.order_by.is_none() && !v.ignore_nulls && !(v.distinct && v.base_name() == "try_sum") {
        let n_args = v.args.len();
        let lcols: Vec<Vec<LV>> = cols[..n_args].iter().map(|a| lv::column(a.as_ref())).collect();
        if let Some(f) = lv::fold(v.base_name(), v.distinct, &lcols, v.expr.field().data_type()) {
            c.mon.rep.count("independent_fold_comparisons", 1);
            c.mon.matrix.add(&v.fn_label, "fold", "checked");
            c.cmp("independent-fold", &f, &r0, &|| json!({"inputs": inputs_json(cols), "note": "expected = independent fold of the SQL definition; observed = one-shot update_batch + evaluate"}));
        }
    }
    for _ in 0..3 {
        let max_chunk = *rng.pick(&[1usize, 2, 3, 7, 50]);
        let mut chunks = rng.chunks(n, max_chunk);
        if rng.chance(1, 3) {
            let at = rng.usize(chunks.len() + 1);
            chunks.insert(at, 0); // an empty batch in the middle
        }
        let mut acc = v.expr.create_accumulator().map_err(stop)?;
        let mut at = 0;
        let peek = rng.chance(1, 3);
        for ch in &chunks {
            acc.update_batch(&slice_rows(cols, at, at + ch)).map_err(stop)?;
            at += ch;
            if peek {
                // evaluate must not consume the state (window frames evaluate repeatedly)
                let _ = acc.evaluate().map_err(stop)?;
            }
        }
        let r = lv::scalar(&acc.evaluate().map_err(stop)?);
        c.cmp("split", &r0, &r, &|| json!({"inputs": inputs_json(cols), "history": {"update_batch_sizes": chunks, "evaluate_after_every_batch": peek}}));
    }
    Ok(true)
}

// ---- L2: state() -> merge_batch over k partitions --------------------------------------------

fn states_to_arrays(states: &[&Vec<ScalarValue>]) -> Result<Vec<ArrayRef>, String> {
    let nf = states[0].len();
    (0..nf)
        .map(|j| {
            let parts: Vec<ArrayRef> = states.iter().map(|s| s[j].to_array().map_err(|e| e.to_string())).collect::<Result<_, _>>()?;
            let refs: Vec<&dyn Array> = parts.iter().map(|a| a.as_ref()).collect();
            arrow::compute::concat(&refs).map_err(|e| e.to_string())
        })
        .collect()
}

fn permutations(k: usize, rng: &mut Rng, all: bool) -> Vec<Vec<usize>> {
    let id: Vec<usize> = (0..k).collect();
    if !all {
        return vec![id];
    }
    if k <= 3 {
        let mut out = vec![];
        fn rec(cur: &mut Vec<usize>, left: &mut Vec<usize>, out: &mut Vec<Vec<usize>>) {
            if left.is_empty() {
                out.push(cur.clone());
                return;
            }
            for i in 0..left.len() {
                let x = left.remove(i);
                cur.push(x);
                rec(cur, left, out);
                cur.pop();
                left.insert(i, x);
            }
        }
        rec(&mut vec![], &mut id.clone(), &mut out);
        out
    } else {
        (0..4)
            .map(|_| {
                let mut p = id.clone();
                rng.shuffle(&mut p);
                p
            })
            .collect()
    }
}

fn l2(c: &Chk, cols: &[ArrayRef], n: usize, rng: &mut Rng) -> R<bool> {
    let v = c.v;
    let r0 = one_shot(v, cols)?;
    let k = 1 + rng.usize(4);
    // partition assignment: contiguous for order-dependent functions, free otherwise
    let mut parts: Vec<Vec<usize>> = vec![vec![]; k];
    if v.order_dependent {
        let mut cuts: Vec<usize> = (0..k - 1).map(|_| rng.usize(n + 1)).collect();
        cuts.sort();
        let mut p = 0;
        for i in 0..n {
            while p < k - 1 && i >= cuts[p] {
                p += 1;
            }
            parts[p].push(i);
        }
    } else {
        for i in 0..n {
            parts[rng.usize(k)].push(i);
        }
    }
    let mut states: Vec<Vec<ScalarValue>> = vec![];
    for p in &parts {
        let mut acc = v.expr.create_accumulator().map_err(stop)?;
        if !p.is_empty() || rng.bool() {
            let rows = take_rows(cols, p);
            // a partition may itself arrive in several batches
            let m = p.len();
            let cut = if m > 1 && rng.bool() { rng.usize(m) } else { m };
            acc.update_batch(&slice_rows(&rows, 0, cut)).map_err(stop)?;
            if cut < m {
                acc.update_batch(&slice_rows(&rows, cut, m)).map_err(stop)?;
            }
        }
        states.push(acc.state().map_err(stop)?);
    }
    for order in permutations(k, rng, !v.order_dependent) {
        let mode = rng.usize(3);
        let mut fin = v.expr.create_accumulator().map_err(stop)?;
        let ordered: Vec<&Vec<ScalarValue>> = order.iter().map(|i| &states[*i]).collect();
        let mut how = "one merge_batch per partial state";
        match mode {
            0 => {
                for s in &ordered {
                    fin.merge_batch(&states_to_arrays(&[s]).map_err(Stop::Error)?).map_err(stop)?;
                }
            }
            1 => match states_to_arrays(&ordered) {
                Ok(arrays) => {
                    how = "one merge_batch with all partial states as rows";
                    fin.merge_batch(&arrays).map_err(stop)?;
                }
                Err(_) => {
                    c.mon.rep.count("state_arrays_not_concatenable", 1);
                    for s in &ordered {
                        fin.merge_batch(&states_to_arrays(&[s]).map_err(Stop::Error)?).map_err(stop)?;
                    }
                }
            },
            _ => {
                how = "two levels: first half merged into an intermediate accumulator whose state is merged with the rest";
                let h = ordered.len() / 2;
                let mut mid = v.expr.create_accumulator().map_err(stop)?;
                for s in &ordered[..h] {
                    mid.merge_batch(&states_to_arrays(&[s]).map_err(Stop::Error)?).map_err(stop)?;
                }
                let ms = mid.state().map_err(stop)?;
                fin.merge_batch(&states_to_arrays(&[&ms]).map_err(Stop::Error)?).map_err(stop)?;
                for s in &ordered[h..] {
                    fin.merge_batch(&states_to_arrays(&[s]).map_err(Stop::Error)?).map_err(stop)?;
                }
            }
        }
        let r = lv::scalar(&fin.evaluate().map_err(stop)?);
        c.cmp("merge", &r0, &r, &|| json!({"inputs": inputs_json(cols), "history": {"partition_row_indices": parts, "merge_order": order, "how": how}}));
    }
    Ok(true)
}

// ---- L3: GroupsAccumulator == per-group Accumulator -------------------------------------------

fn filter_mask(m: usize, rng: &mut Rng) -> Option<BooleanArray> {
    match rng.usize(4) {
        0 | 1 => None,
        2 => Some(BooleanArray::from((0..m).map(|_| rng.chance(2, 3)).collect::<Vec<bool>>())),
        _ => Some(BooleanArray::from((0..m).map(|_| if rng.chance(1, 6) { None } else { Some(rng.bool()) }).collect::<Vec<Option<bool>>>())),
    }
}

fn passes(f: &Option<BooleanArray>, i: usize) -> bool {
    match f {
        None => true,
        Some(b) => b.is_valid(i) && b.value(i),
    }
}

fn mask_json(f: &Option<BooleanArray>) -> Json {
    match f {
        None => Json::Null,
        Some(b) => Json::Array((0..b.len()).map(|i| if b.is_valid(i) { json!(b.value(i)) } else { Json::Null }).collect()),
    }
}

/// Engine-like group index assignment: a row joins an existing group or opens group `total`.
fn assign_groups(m: usize, total: &mut usize, rng: &mut Rng) -> Vec<usize> {
    (0..m)
        .map(|_| {
            if *total == 0 || rng.chance(1, 3) {
                *total += 1;
                *total - 1
            } else {
                rng.usize(*total)
            }
        })
        .collect()
}

fn model_update(v: &Variant, model: &mut Vec<Box<dyn Accumulator>>, total: usize, rows: &[ArrayRef], gi: &[usize], filt: &Option<BooleanArray>) -> R<()> {
    while model.len() < total {
        model.push(v.expr.create_accumulator().map_err(stop)?);
    }
    for g in 0..total {
        let idx: Vec<usize> = (0..gi.len()).filter(|i| gi[*i] == g && passes(filt, *i)).collect();
        if !idx.is_empty() {
            model[g].update_batch(&take_rows(rows, &idx)).map_err(stop)?;
        }
    }
    Ok(())
}

fn l3(c: &Chk, cols: &[ArrayRef], n: usize, rng: &mut Rng) -> R<bool> {
    let v = c.v;
    if !v.expr.groups_accumulator_supported() {
        return Ok(false);
    }
    // (a) update / emit-prefix histories
    {
        let mut g = v.expr.create_groups_accumulator().map_err(stop)?;
        let mut model: Vec<Box<dyn Accumulator>> = vec![];
        let mut total = 0usize;
        let mut at = 0usize;
        let mut hist: Vec<Json> = vec![];
        let mut step = 0;
        while at < n || step < 2 {
            step += 1;
            let m = (1 + rng.usize(9)).min(n - at);
            let rows = slice_rows(cols, at, at + m);
            at += m;
            let gi = assign_groups(m, &mut total, rng);
            let filt = filter_mask(m, rng);
            g.update_batch(&rows, &gi, filt.as_ref(), total).map_err(stop)?;
            model_update(v, &mut model, total, &rows, &gi, &filt)?;
            hist.push(json!({"op": "update_batch", "rows": [at - m, at], "group_indices": gi, "opt_filter": mask_json(&filt), "total_num_groups": total}));
            // emit a prefix now and then, like the ordered aggregation streams do
            if total > 0 && rng.chance(1, 3) {
                let k = 1 + rng.usize(total);
                let via_state = rng.chance(1, 3);
                let observed: Vec<LV> = if via_state {
                    // the emitted partial state is finished by another GroupsAccumulator (what a Final stage does)
                    let st = g.state(EmitTo::First(k)).map_err(stop)?;
                    let mut f = v.expr.create_groups_accumulator().map_err(stop)?;
                    f.merge_batch(&st, &(0..k).collect::<Vec<usize>>(), k).map_err(stop)?;
                    let arr = f.evaluate(EmitTo::All).map_err(stop)?;
                    if arr.len() != k {
                        c.cmp("emit-length", &LV::Int(k as i128), &LV::Int(arr.len() as i128), &|| json!({"inputs": inputs_json(cols), "history": hist}));
                        return Ok(true);
                    }
                    lv::column(arr.as_ref())
                } else {
                    let arr = g.evaluate(EmitTo::First(k)).map_err(stop)?;
                    if arr.len() != k {
                        c.cmp("emit-length", &LV::Int(k as i128), &LV::Int(arr.len() as i128), &|| json!({"inputs": inputs_json(cols), "history": hist}));
                        return Ok(true);
                    }
                    lv::column(arr.as_ref())
                };
                hist.push(json!({"op": if via_state { "state(EmitTo::First) -> merge_batch into a fresh GroupsAccumulator -> evaluate" } else { "evaluate(EmitTo::First)" }, "n": k}));
                for (j, o) in observed.iter().enumerate() {
                    let e = lv::scalar(&model[j].evaluate().map_err(stop)?);
                    c.cmp("emit-first", &e, o, &|| json!({"inputs": inputs_json(cols), "history": hist, "group": j}));
                }
                model.drain(..k);
                total -= k;
            }
            if at >= n && step >= 2 {
                break;
            }
        }
        // the engine never emits from an empty group table
        let arr = if total > 0 { g.evaluate(EmitTo::All).map_err(stop)? } else { arrow::array::new_empty_array(v.expr.field().data_type()) };
        hist.push(json!({"op": "evaluate(EmitTo::All)"}));
        if arr.len() != total {
            c.cmp("emit-length", &LV::Int(total as i128), &LV::Int(arr.len() as i128), &|| json!({"inputs": inputs_json(cols), "history": hist}));
            return Ok(true);
        }
        for j in 0..total {
            let e = lv::scalar(&model[j].evaluate().map_err(stop)?);
            c.cmp("emit-all", &e, &lv::cell(arr.as_ref(), j), &|| json!({"inputs": inputs_json(cols), "history": hist, "group": j}));
        }
        // after EmitTo::All the accumulator is "equivalent to when it was first created": reuse it
        if n > 0 && rng.bool() {
            let mut total = 0usize;
            let gi = assign_groups(n, &mut total, rng);
            let mut model: Vec<Box<dyn Accumulator>> = vec![];
            g.update_batch(cols, &gi, None, total).map_err(stop)?;
            model_update(v, &mut model, total, cols, &gi, &None)?;
            let arr = g.evaluate(EmitTo::All).map_err(stop)?;
            hist.push(json!({"op": "reuse after EmitTo::All: update_batch(all rows)", "group_indices": gi}));
            for j in 0..total.min(arr.len()) {
                let e = lv::scalar(&model[j].evaluate().map_err(stop)?);
                c.cmp("reuse-after-emit-all", &e, &lv::cell(arr.as_ref(), j), &|| json!({"inputs": inputs_json(cols), "history": hist, "group": j}));
            }
        }
    }
    // (b) partial GroupsAccumulators -> state(All) -> merge_batch into a final GroupsAccumulator
    if n > 0 {
        let k = 1 + rng.usize(3);
        let mut cuts: Vec<usize> = (0..k - 1).map(|_| rng.usize(n + 1)).collect();
        cuts.sort();
        cuts.insert(0, 0);
        cuts.push(n);
        let mut total = 0usize;
        let gi_all = assign_groups(n, &mut total, rng);
        let mut model: Vec<Box<dyn Accumulator>> = vec![];
        model_update(v, &mut model, total, cols, &gi_all, &None)?;
        let mut fin = v.expr.create_groups_accumulator().map_err(stop)?;
        let mut seen_total = 0usize;
        // order-independent functions also get their partial states merged in a shuffled order
        let mut order: Vec<usize> = (0..k).collect();
        if !v.order_dependent && rng.bool() {
            rng.shuffle(&mut order);
        }
        // global indices are assigned engine-like in arrival order at the final stage
        let mut remap: Vec<Option<usize>> = vec![None; total];
        let mut pieces = vec![];
        for p in &order {
            let (lo, hi) = (cuts[*p], cuts[*p + 1]);
            if lo == hi {
                continue;
            }
            // local dense group indices of this partition
            let mut local: Vec<usize> = vec![];
            let mut local_of: Vec<Option<usize>> = vec![None; total];
            let lgi: Vec<usize> = (lo..hi)
                .map(|i| {
                    let g = gi_all[i];
                    *local_of[g].get_or_insert_with(|| {
                        local.push(g);
                        local.len() - 1
                    })
                })
                .collect();
            let mut part = v.expr.create_groups_accumulator().map_err(stop)?;
            part.update_batch(&slice_rows(cols, lo, hi), &lgi, None, local.len()).map_err(stop)?;
            let st = part.state(EmitTo::All).map_err(stop)?;
            let ggi: Vec<usize> = local
                .iter()
                .map(|g| {
                    *remap[*g].get_or_insert_with(|| {
                        seen_total += 1;
                        seen_total - 1
                    })
                })
                .collect();
            fin.merge_batch(&st, &ggi, seen_total).map_err(stop)?;
            pieces.push(json!({"rows": [lo, hi], "local_group_indices": lgi, "merged_into_groups": ggi}));
        }
        let via_state = rng.chance(1, 4);
        let observed: Vec<LV> = if via_state {
            // PartialReduce: the merged state is emitted as state again and finished by another GroupsAccumulator
            let st = fin.state(EmitTo::All).map_err(stop)?;
            let mut f = v.expr.create_groups_accumulator().map_err(stop)?;
            f.merge_batch(&st, &(0..seen_total).collect::<Vec<usize>>(), seen_total).map_err(stop)?;
            lv::column(f.evaluate(EmitTo::All).map_err(stop)?.as_ref())
        } else {
            lv::column(fin.evaluate(EmitTo::All).map_err(stop)?.as_ref())
        };
        for g in 0..total {
            if let Some(j) = remap[g] {
                if j < observed.len() {
                    let e = lv::scalar(&model[g].evaluate().map_err(stop)?);
                    c.cmp("groups-merge", &e, &observed[j], &|| json!({"inputs": inputs_json(cols), "history": {"group_index_per_row": gi_all, "partitions": pieces, "partition_merge_order": order, "finished_via_state": via_state}, "group": g}));
                }
            }
        }
    }
    // (c) convert_to_state(values, filter) merged == update_batch(values, filter)
    if n > 0 {
        let conv = v.expr.create_groups_accumulator().map_err(stop)?;
        let filt = filter_mask(n, rng);
        match conv.convert_to_state(cols, filt.as_ref()) {
            Err(e) => {
                if let Stop::Error(msg) = stop(e) {
                    return Err(Stop::Error(format!("convert_to_state: {msg}")));
                }
                c.mon.matrix.add(&v.fn_label, "L3-convert_to_state", "unsupported");
            }
            Ok(st) => {
                c.mon.matrix.add(&v.fn_label, "L3-convert_to_state", "checked");
                let mut total = 0usize;
                let gi = assign_groups(n, &mut total, rng);
                let mut model: Vec<Box<dyn Accumulator>> = vec![];
                model_update(v, &mut model, total, cols, &gi, &filt)?;
                if st.iter().any(|a| a.len() != n) {
                    c.cmp("convert-to-state-length", &LV::Int(n as i128), &LV::List(st.iter().map(|a| LV::Int(a.len() as i128)).collect()), &|| json!({"inputs": inputs_json(cols)}));
                    return Ok(true);
                }
                let mut fin = v.expr.create_groups_accumulator().map_err(stop)?;
                // the converted rows may be merged in several batches
                let cut = rng.usize(n + 1);
                // total_num_groups = groups interned so far (every index below it has appeared)
                if cut > 0 {
                    let seen = gi[..cut].iter().max().map(|m| m + 1).unwrap_or(0);
                    fin.merge_batch(&slice_rows(&st, 0, cut), &gi[..cut], seen).map_err(stop)?;
                }
                if cut < n {
                    fin.merge_batch(&slice_rows(&st, cut, n), &gi[cut..], total).map_err(stop)?;
                }
                let arr = fin.evaluate(EmitTo::All).map_err(stop)?;
                for g in 0..total.min(arr.len()) {
                    let e = lv::scalar(&model[g].evaluate().map_err(stop)?);
                    c.cmp("convert-to-state", &e, &lv::cell(arr.as_ref(), g), &|| json!({"inputs": inputs_json(cols), "history": {"opt_filter": mask_json(&filt), "group_indices": gi, "merged_in_two_batches_cut_at": cut}, "group": g}));
                }
            }
        }
    }
    Ok(true)
}

// ---- L4: retract_batch sliding windows == recompute -------------------------------------------

fn l4(c: &Chk, cols: &[ArrayRef], n: usize, rng: &mut Rng) -> R<bool> {
    let v = c.v;
    if v.order_by.is_some() {
        return Ok(false); // the planner rejects aggregate ORDER BY in window functions
    }
    let mut acc = match v.expr.create_sliding_accumulator() {
        Ok(a) => a,
        Err(_) => return Ok(false),
    };
    if !acc.supports_retract_batch() {
        return Ok(false);
    }
    // frames move monotonically, exactly as SlidingAggregateWindowExpr drives the accumulator
    let (mut lo, mut hi) = (0usize, 0usize);
    let mut hist: Vec<Json> = vec![];
    for _ in 0..(n + 3) {
        let nhi = (hi + rng.usize(4)).min(n);
        let nlo = (lo + rng.usize(3)).min(nhi).max(lo);
        let (nlo, nhi) = if rng.chance(1, 8) { (nhi, nhi) } else { (nlo, nhi) }; // RANGE frames with gaps become empty
        if nlo == nhi {
            // empty frame: everything still inside is retracted, the engine answers default_value itself
            if hi > lo {
                acc.retract_batch(&slice_rows(cols, lo, hi)).map_err(stop)?;
            }
            hist.push(json!({"frame": [nlo, nhi], "retract": [lo, hi]}));
            lo = nlo;
            hi = nhi;
            continue;
        }
        if nhi > hi {
            acc.update_batch(&slice_rows(cols, hi, nhi)).map_err(stop)?;
        }
        if nlo > lo {
            acc.retract_batch(&slice_rows(cols, lo, nlo)).map_err(stop)?;
        }
        hist.push(json!({"frame": [nlo, nhi], "update": [hi, nhi], "retract": [lo, nlo]}));
        lo = nlo;
        hi = nhi;
        let r = lv::scalar(&acc.evaluate().map_err(stop)?);
        let e = one_shot(v, &slice_rows(cols, lo, hi))?;
        c.cmp("retract", &e, &r, &|| json!({"inputs": inputs_json(cols), "history": hist, "note": "expected = fresh accumulator over rows[frame]"}));
        if hi == n && lo + 1 >= hi {
            break;
        }
    }
    Ok(true)
}
