//! C07 — aggregate function state can be split, merged and retracted exactly.
//!
//! Every aggregate function of the default session (+ datafusion-spark) x the argument lists its
//! Signature accepts x variants (DISTINCT / ORDER BY / IGNORE NULLS) is driven through random
//! histories of update/merge/emit/retract calls; the decomposed result must equal the function's
//! own one-shot `update_batch` + `evaluate` (and an independent fold for the simple functions).

mod tgen;
mod laws;
mod lv;

use arrow::array::ArrayRef;
use arrow::datatypes::{DataType, Field, FieldRef, Schema, SchemaRef};
use datafusion::execution::SessionStateDefaults;
use datafusion::logical_expr::AggregateUDF;
use datafusion::logical_expr::utils::AggregateOrderSensitivity;
use datafusion::physical_expr::aggregate::{AggregateExprBuilder, AggregateFunctionExpr};
use datafusion::physical_expr::expressions::{col, lit};
use datafusion::physical_expr::{PhysicalExpr, PhysicalSortExpr};
use tgen::*;
use std::collections::BTreeMap;
use std::sync::{Arc, Mutex};
use vcommon::{Args, Json, Report, Rng, fp_mix, fp_str, json};

/// Sketch-based approximations: documented as approximate, not split invariant (t-digest).
const SKIP_BY_NAME: &[&str] = &["approx_percentile_cont", "approx_percentile_cont_with_weight", "approx_median"];
/// Result depends on input order when no ORDER BY is given: partitions are contiguous and merged in input order.
const ORDER_SENSITIVE: &[&str] = &["first_value", "last_value", "nth_value", "array_agg", "string_agg", "any_value", "collect_list", "spark.collect_list"];
/// tolerance 1e-6 (documented floating formulas), everything else 1e-9
const STAT_PREFIXES: &[&str] = &["var", "stddev", "covar", "corr", "regr"];

#[derive(Clone)]
pub struct Variant {
    pub fn_label: String,
    pub udaf: Arc<AggregateUDF>,
    pub args: Vec<ArgSpec>,
    pub distinct: bool,
    /// None | Some(("ord" | "c0", descending))
    pub order_by: Option<(&'static str, bool)>,
    pub ignore_nulls: bool,
    pub expr: Arc<AggregateFunctionExpr>,
    pub schema: SchemaRef,
    /// result depends on the order in which rows/states arrive
    pub order_dependent: bool,
    /// top-level list result whose element order is unspecified
    pub unordered_result: bool,
    /// ORDER BY input must arrive sorted (HardRequirement)
    pub needs_sorted_input: bool,
    pub tol: f64,
}

impl Variant {
    pub fn label(&self) -> String {
        format!(
            "{}({}{}{}){}",
            self.fn_label,
            if self.distinct { "DISTINCT " } else { "" },
            label(&self.args),
            match self.order_by {
                Some((c, d)) => format!(" ORDER BY {c}{}", if d { " DESC" } else { "" }),
                None => String::new(),
            },
            if self.ignore_nulls { " IGNORE NULLS" } else { "" }
        )
    }
    pub fn base_name(&self) -> &str {
        self.fn_label.strip_prefix("spark.").unwrap_or(&self.fn_label)
    }
    /// Input arrays of `n` rows in accumulator order: arguments, then ORDER BY expressions.
    pub fn inputs(&self, n: usize, rng: &mut Rng, unique: bool) -> Vec<ArrayRef> {
        let few = self.distinct || rng.chance(1, 3);
        let null_pm = *rng.pick(&[0u64, 150, 300, 700, 1000]);
        let mut cols: Vec<ArrayRef> = vec![];
        for a in &self.args {
            cols.push(match a {
                ArgSpec::Col(dt) if unique => unique_column(dt, n, null_pm.min(300), rng),
                ArgSpec::Col(dt) => column(dt, n, null_pm, few, rng),
                ArgSpec::Lit(s) => s.to_array_of_size(n).expect("literal array"),
            });
        }
        let n_ord = self.expr.order_bys().len();
        if n_ord > 0 {
            match self.order_by {
                Some(("ord", desc)) => {
                    let mut ord: Vec<i64> = (0..n as i64).collect();
                    if self.needs_sorted_input {
                        if desc {
                            ord.reverse();
                        }
                    } else {
                        rng.shuffle(&mut ord);
                    }
                    cols.push(Arc::new(arrow::array::Int64Array::from(ord)));
                }
                _ => {
                    // ORDER BY the argument itself
                    let c0 = cols[0].clone();
                    if self.needs_sorted_input {
                        let desc = self.order_by.map(|o| o.1).unwrap_or(false);
                        let ix = arrow::compute::sort_to_indices(c0.as_ref(), Some(arrow::compute::SortOptions { descending: desc, nulls_first: desc }), None).expect("sort");
                        cols = cols.iter().map(|c| arrow::compute::take(c.as_ref(), &ix, None).expect("take")).collect();
                        let c0 = cols[0].clone();
                        cols.push(c0);
                    } else {
                        cols.push(c0);
                    }
                }
            }
        }
        cols
    }
}

fn build_expr(udaf: &Arc<AggregateUDF>, args: &[ArgSpec], distinct: bool, order_by: Option<(&'static str, bool)>, ignore_nulls: bool) -> Result<(Arc<AggregateFunctionExpr>, SchemaRef), String> {
    let mut fields: Vec<Field> = vec![];
    for (i, a) in args.iter().enumerate() {
        if let ArgSpec::Col(dt) = a {
            fields.push(Field::new(format!("c{i}"), dt.clone(), true));
        }
    }
    fields.push(Field::new("ord", DataType::Int64, false));
    let schema: SchemaRef = Arc::new(Schema::new(fields));
    let mut pargs: Vec<Arc<dyn PhysicalExpr>> = vec![];
    for (i, a) in args.iter().enumerate() {
        pargs.push(match a {
            ArgSpec::Col(_) => col(&format!("c{i}"), &schema).map_err(|e| e.to_string())?,
            ArgSpec::Lit(s) => lit(s.clone()),
        });
    }
    let mut b = AggregateExprBuilder::new(udaf.clone(), pargs).schema(schema.clone()).alias("agg");
    if distinct {
        b = b.distinct();
    }
    if ignore_nulls {
        b = b.ignore_nulls();
    }
    if let Some((c, desc)) = order_by {
        let e = col(c, &schema).map_err(|e| e.to_string())?;
        // NULLs of an argument used as its own ordering key sort like the engine's default
        b = b.order_by(vec![PhysicalSortExpr::new(e, arrow::compute::SortOptions { descending: desc, nulls_first: desc })]);
    }
    let expr = b.build().map_err(|e| e.to_string())?;
    Ok((Arc::new(expr), schema))
}

/// Accept `args` for `udaf` iff the Signature takes exactly these types (no coercion needed),
/// the expression builds and a tiny one-shot accumulation works. Returns the coerced list when
/// the Signature would coerce to something else (a further candidate).
fn probe(fn_label: &str, udaf: &Arc<AggregateUDF>, args: &[ArgSpec], distinct: bool, order_by: Option<(&'static str, bool)>, ignore_nulls: bool) -> Result<Variant, (String, Option<Vec<DataType>>)> {
    let fields: Vec<FieldRef> = args.iter().enumerate().map(|(i, a)| Arc::new(Field::new(format!("c{i}"), a.data_type(), true))).collect();
    let coerced = datafusion::logical_expr::type_coercion::functions::fields_with_udf(&fields, udaf.as_ref()).map_err(|e| (format!("signature: {}", first_line(&e.to_string())), None))?;
    let ctypes: Vec<DataType> = coerced.iter().map(|f| f.data_type().clone()).collect();
    let given: Vec<DataType> = args.iter().map(|a| a.data_type()).collect();
    if ctypes != given {
        return Err(("signature coerces to another list".into(), Some(ctypes)));
    }
    let (expr, schema) = build_expr(udaf, args, distinct, order_by, ignore_nulls).map_err(|e| (format!("build: {}", first_line(&e)), None))?;
    let sens = if order_by.is_some() { udaf.order_sensitivity() } else { AggregateOrderSensitivity::Insensitive };
    let base = fn_label.strip_prefix("spark.").unwrap_or(fn_label);
    let list_result = matches!(expr.field().data_type(), DataType::List(_) | DataType::LargeList(_));
    let order_dependent_fn = ORDER_SENSITIVE.contains(&fn_label) || ORDER_SENSITIVE.contains(&base);
    let has_effective_order = !expr.order_bys().is_empty();
    let v = Variant {
        fn_label: fn_label.to_string(),
        udaf: udaf.clone(),
        args: args.to_vec(),
        distinct,
        order_by,
        ignore_nulls,
        schema,
        order_dependent: order_dependent_fn && !has_effective_order,
        unordered_result: (list_result && distinct && !has_effective_order) || base == "collect_set",
        needs_sorted_input: matches!(sens, AggregateOrderSensitivity::HardRequirement),
        tol: if STAT_PREFIXES.iter().any(|p| base.starts_with(p)) { 1e-6 } else { 1e-9 },
        expr,
    };
    // tiny smoke run
    let r = vcommon::par::guard(|| -> Result<(), String> {
        let mut rng = Rng::new(7);
        let cols = v.inputs(3, &mut rng, false);
        let mut acc = v.expr.create_accumulator().map_err(|e| format!("accumulator: {}", first_line(&e.to_string())))?;
        acc.update_batch(&cols).map_err(|e| format!("update_batch: {}", first_line(&e.to_string())))?;
        acc.evaluate().map_err(|e| format!("evaluate: {}", first_line(&e.to_string())))?;
        Ok(())
    });
    match r {
        Ok(Ok(())) => Ok(v),
        Ok(Err(e)) => Err((e, None)),
        Err(p) => Err((format!("panic in smoke run: {p}"), None)),
    }
}

pub fn first_line(s: &str) -> String {
    s.lines().next().unwrap_or("").chars().take(160).collect()
}

/// Per (function, law): checked / unsupported / skipped counts.
#[derive(Default)]
pub struct Matrix(pub Mutex<BTreeMap<String, BTreeMap<String, BTreeMap<String, u64>>>>);

impl Matrix {
    pub fn add(&self, f: &str, law: &str, what: &str) {
        *self.0.lock().unwrap_or_else(|e| e.into_inner()).entry(f.to_string()).or_default().entry(law.to_string()).or_default().entry(what.to_string()).or_insert(0) += 1;
    }
    pub fn checked(&self, f: &str, law: &str) -> u64 {
        self.0.lock().unwrap_or_else(|e| e.into_inner()).get(f).and_then(|m| m.get(law)).and_then(|m| m.get("checked")).copied().unwrap_or(0)
    }
}

pub struct Mon<'a> {
    pub rep: &'a Report,
    pub matrix: &'a Matrix,
    pub selftest: bool,
    pub per_signature: Mutex<BTreeMap<String, u64>>,
}

impl Mon<'_> {
    /// Report keeps 25 witnesses in total: keep 2 per signature so that several long-running
    /// (known) findings can never crowd out a new one.
    pub fn violation(&self, sig: &str, witness: Json) {
        let n = {
            let mut g = self.per_signature.lock().unwrap_or_else(|e| e.into_inner());
            let c = g.entry(sig.to_string()).or_insert(0);
            *c += 1;
            *c
        };
        if n <= 2 {
            self.rep.violation(sig, witness);
        } else {
            self.rep.count(&format!("further_occurrences:{sig}"), 1);
        }
    }
}

fn all_functions() -> Vec<(String, Arc<AggregateUDF>)> {
    let mut v: Vec<(String, Arc<AggregateUDF>)> = SessionStateDefaults::default_aggregate_functions().into_iter().map(|f| (f.name().to_string(), f)).collect();
    for f in datafusion_spark::all_default_aggregate_functions() {
        v.push((format!("spark.{}", f.name()), f));
    }
    v.sort_by(|a, b| a.0.cmp(&b.0));
    v
}

fn enumerate_variants(rep: &Report, reduced: bool) -> (Vec<Variant>, Json) {
    let mut out = vec![];
    let mut accepted_json = serde_json::Map::new();
    let cands = candidates();
    for (label, udaf) in all_functions() {
        let mut tried: Vec<Vec<ArgSpec>> = vec![];
        let mut queue: Vec<Vec<ArgSpec>> = cands.clone();
        let mut accepted: Vec<Vec<ArgSpec>> = vec![];
        let mut reasons: BTreeMap<String, u64> = BTreeMap::new();
        while let Some(args) = queue.pop() {
            if tried.contains(&args) {
                continue;
            }
            tried.push(args.clone());
            match probe(&label, &udaf, &args, false, None, false) {
                Ok(v) => {
                    accepted.push(args);
                    out.push(v);
                }
                Err((why, coerced)) => {
                    *reasons.entry(why).or_insert(0) += 1;
                    // a coerced list is a new candidate when every literal argument can keep its value
                    if let Some(ct) = coerced {
                        let mut ok = true;
                        let na: Vec<ArgSpec> = args
                            .iter()
                            .zip(ct.iter())
                            .map(|(a, t)| match a {
                                ArgSpec::Col(_) => ArgSpec::Col(t.clone()),
                                ArgSpec::Lit(s) => match s.cast_to(t) {
                                    Ok(c) => ArgSpec::Lit(c),
                                    Err(_) => {
                                        ok = false;
                                        a.clone()
                                    }
                                },
                            })
                            .collect();
                        let supported = na.iter().all(|a| match a {
                            ArgSpec::Col(t) => column_types().contains(t),
                            _ => true,
                        });
                        if ok && supported && !tried.contains(&na) {
                            queue.push(na);
                        }
                    }
                }
            }
        }
        accepted.sort_by_key(|a| label_of(a));
        // variants on top of the accepted base lists
        let base: Vec<Variant> = out.iter().filter(|v: &&Variant| v.fn_label == label).cloned().collect();
        let mut n_distinct = 0;
        let mut extra = vec![];
        for v in &base {
            // ORDER BY arguments only for the functions whose result depends on order (for the others the
            // clause is meaningless; e.g. `bit_and(x ORDER BY y) .. GROUP BY` trips an arity assert in the engine)
            let order_fn = udaf.order_sensitivity() != AggregateOrderSensitivity::Insensitive && (ORDER_SENSITIVE.contains(&label.as_str()) || ORDER_SENSITIVE.contains(&udaf.name()));
            if order_fn {
                for desc in [false, true] {
                    if let Ok(x) = probe(&label, &udaf, &v.args, false, Some(("ord", desc)), false) {
                        extra.push(x);
                    }
                }
                if let Ok(x) = probe(&label, &udaf, &v.args, true, Some(("c0", false)), false) {
                    extra.push(x);
                }
            }
            if udaf.supports_null_handling_clause() {
                if let Ok(x) = probe(&label, &udaf, &v.args, false, None, true) {
                    extra.push(x);
                }
                if order_fn {
                    if let Ok(x) = probe(&label, &udaf, &v.args, false, Some(("ord", false)), true) {
                        extra.push(x);
                    }
                }
            }
            // DISTINCT: a string result of an order-dependent function has no canonical form
            let string_result = matches!(v.expr.field().data_type(), DataType::Utf8 | DataType::LargeUtf8 | DataType::Utf8View);
            if !(v.order_dependent && string_result) && n_distinct < 12 {
                if let Ok(x) = probe(&label, &udaf, &v.args, true, None, false) {
                    n_distinct += 1;
                    extra.push(x);
                }
            }
        }
        let n_variants = base.len() + extra.len();
        out.extend(extra);
        let skip = SKIP_BY_NAME.contains(&udaf.name());
        accepted_json.insert(
            label.clone(),
            json!({"accepted_argument_lists": accepted.iter().map(|a| label_of(a)).collect::<Vec<_>>(), "variants": n_variants, "candidates_tried": tried.len(),
                   "skip_listed": skip, "rejections": reasons.iter().map(|(k, v)| format!("{v}x {k}")).take(6).collect::<Vec<_>>()}),
        );
        rep.seen(if accepted.is_empty() { "functions_without_accepted_arguments" } else { "functions_with_accepted_arguments" }, &label);
    }
    if reduced {
        // memcheck: one or two argument lists per (function, variant kind)
        let mut seen: BTreeMap<String, usize> = BTreeMap::new();
        out.retain(|v| {
            let k = format!("{}|{}|{:?}|{}", v.fn_label, v.distinct, v.order_by, v.ignore_nulls);
            let c = seen.entry(k).or_insert(0);
            *c += 1;
            *c <= 2
        });
    }
    (out, Json::Object(accepted_json))
}

fn label_of(a: &[ArgSpec]) -> String {
    label(a)
}

fn run(args: &Args) -> i32 {
    let rep = Report::new("C07", "exploration", args);
    rep.set_rule(
        "case = (aggregate function, accepted argument list, variant DISTINCT/ORDER BY/IGNORE NULLS, random input with NULLs, law, random history of split points / partitions / merge order / group indices / filter mask / emit sequence / retract windows); distinct = hash of function + arguments + law + history + input; non-trivial = the input has at least one row",
    );
    rep.assume("oracle is metamorphic: the function's own one-shot update_batch + evaluate over the same rows; count/sum/min/max/avg/bool_*/bit_* are additionally compared with an independent fold");
    rep.assume("floats are dyadic (sums exact), compared with relative tolerance 1e-9; var/stddev/covar/corr/regr with 1e-6");
    rep.assume("order-dependent functions without ORDER BY get contiguous partitions merged in input order; with ORDER BY on a unique key (or on the argument itself) any partitioning and merge order is demanded");
    rep.assume("DISTINCT list results without ORDER BY are compared as multisets (element order unspecified)");
    rep.assume("not asserted: struct values with NULL fields (partial_cmp_struct is not a total order there); retract frames of var/stddev/covar/corr/regr with exactly zero variance (inputs of L4 are pairwise distinct: the NULL decision is an exact == 0.0 test on a retracted running moment); evaluate/state on a GroupsAccumulator with zero groups (the engine never does that)");
    let selftest = args.opt_u64("selftest", 0) == 1;
    let reduced = args.stage == "memcheck";
    let matrix = Matrix::default();
    let (variants, accepted) = enumerate_variants(&rep, reduced);
    rep.extra("skip_list_by_name", json!(SKIP_BY_NAME));
    rep.extra("order_dependent_without_order_by", json!(ORDER_SENSITIVE));
    rep.extra("accepted_argument_lists", accepted);
    rep.count("variants", variants.len() as u64);
    if let Some(only) = args.opt_str("list") {
        for v in &variants {
            if v.label().contains(only) {
                println!("{}", v.label());
            }
        }
        return 0;
    }
    let only = args.opt_str("only").map(|s| s.to_string());

    let mon = Mon { rep: &rep, matrix: &matrix, selftest, per_signature: Mutex::new(BTreeMap::new()) };
    // systematic: every variant x every law x `h_sys` histories from fixed seeds; then a seeded tail
    let h_sys = if reduced { 3 } else { args.bound("histories", 8, 40) };
    let h_rand = if reduced { 0 } else { args.bound("random_histories", 24, 600) };
    let laws: &[&str] = if reduced { &["L3"] } else { &["L1", "L2", "L3", "L4"] };
    let mut work: Vec<(usize, &str, u64, bool)> = vec![];
    for (vi, v) in variants.iter().enumerate() {
        if let Some(o) = &only {
            if !v.label().contains(o.as_str()) {
                continue;
            }
        }
        for law in laws {
            for h in 0..h_sys {
                work.push((vi, law, h, true));
            }
            for h in 0..h_rand {
                work.push((vi, law, h, false));
            }
        }
    }
    vcommon::par::run(args.workers, work.into_iter(), |(vi, law, h, systematic)| {
        let v = &variants[vi];
        let seed = if systematic { 0xC07 } else { args.seed };
        let mut rng = Rng::derive(seed, &[systematic as u64, fp_str(&v.label()), fp_str(law), h]);
        if SKIP_BY_NAME.contains(&v.udaf.name()) {
            matrix.add(&v.fn_label, law, "skipped(approximate sketch)");
            return;
        }
        laws::run_law(&mon, v, law, &mut rng, fp_mix(fp_mix(fp_str(&v.label()), fp_str(law)), fp_mix(seed, h)));
    });

    // obligations: every non-skip-listed function with an accepted argument list has L1 and L2 checked
    let fns: Vec<String> = {
        let mut s: Vec<String> = variants.iter().map(|v| v.fn_label.clone()).collect();
        s.sort();
        s.dedup();
        s
    };
    if only.is_none() {
        let mut missing = vec![];
        for f in &fns {
            let skip = variants.iter().find(|v| &v.fn_label == f).map(|v| SKIP_BY_NAME.contains(&v.udaf.name())).unwrap_or(false);
            if skip {
                continue;
            }
            for law in laws {
                if *law == "L1" || *law == "L2" {
                    if matrix.checked(f, law) == 0 {
                        missing.push(format!("{f}/{law}"));
                    }
                }
            }
        }
        if !reduced {
            rep.obligation("L1-L2-every-function", missing.is_empty(), &format!("functions without a checked L1/L2 case: {missing:?}"));
            let l3 = fns.iter().filter(|f| matrix.checked(f, "L3") > 0).count();
            let l4 = fns.iter().filter(|f| matrix.checked(f, "L4") > 0).count();
            rep.obligation("L3-groups-accumulators", l3 >= 15, &format!("{l3} functions with a checked GroupsAccumulator law (>= 15 expected)"));
            rep.obligation("L4-retract", l4 >= 8, &format!("{l4} functions with a checked retract law (>= 8 expected)"));
            let without = rep.seen_count("functions_without_accepted_arguments");
            rep.obligation("accepted-arguments", without <= 2, &format!("{without} functions have no accepted candidate argument list (grouping() has no accumulator)"));
        } else {
            let l3 = fns.iter().filter(|f| matrix.checked(f, "L3") > 0).count();
            rep.obligation("L3-groups-accumulators", l3 >= 15, &format!("{l3} functions with a checked GroupsAccumulator law"));
        }
    }
    rep.extra("function_x_law_matrix", json!(*matrix.0.lock().unwrap_or_else(|e| e.into_inner())));
    rep.finish()
}

fn main() {
    let args = Args::parse();
    vcommon::par::quiet_panics();
    std::process::exit(run(&args));
}
