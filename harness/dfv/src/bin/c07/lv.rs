//! Logical values of array cells / scalars, tolerant comparison, and independent folds.

use arrow::array::*;
use arrow::datatypes::*;
use datafusion::common::ScalarValue;
use vcommon::{Json, json};

#[derive(Clone, Debug, PartialEq)]
pub enum LV {
    Null,
    /// integers, decimals (unscaled), temporal values
    Int(i128),
    Float(f64),
    Str(String),
    Bytes(Vec<u8>),
    Bool(bool),
    List(Vec<LV>),
    Struct(Vec<LV>),
    /// anything else: its display form
    Other(String),
}

impl LV {
    pub fn is_null(&self) -> bool {
        matches!(self, LV::Null)
    }
    pub fn to_json(&self) -> Json {
        match self {
            LV::Null => Json::Null,
            LV::Int(i) => {
                if let Ok(x) = i64::try_from(*i) {
                    json!(x)
                } else {
                    json!(i.to_string())
                }
            }
            LV::Float(f) => {
                if f.is_finite() {
                    json!(f)
                } else {
                    json!(format!("{f}"))
                }
            }
            LV::Str(s) => json!(s),
            LV::Bytes(b) => json!(format!("x'{}'", b.iter().map(|x| format!("{x:02x}")).collect::<String>())),
            LV::Bool(b) => json!(b),
            LV::List(l) => Json::Array(l.iter().map(|x| x.to_json()).collect()),
            LV::Struct(l) => json!({"struct": l.iter().map(|x| x.to_json()).collect::<Vec<_>>()}),
            LV::Other(s) => json!(format!("<{s}>")),
        }
    }
    /// total order used only to canonicalise unordered lists
    pub fn sort_key(&self) -> String {
        match self {
            LV::Float(f) => format!("F{:020.6}", f),
            other => format!("{other:?}"),
        }
    }
}

pub fn cell(arr: &dyn Array, i: usize) -> LV {
    if arr.is_null(i) {
        return LV::Null;
    }
    macro_rules! prim {
        ($t:ty) => {
            LV::Int(arr.as_primitive::<$t>().value(i) as i128)
        };
    }
    match arr.data_type() {
        DataType::Null => LV::Null,
        DataType::Boolean => LV::Bool(arr.as_boolean().value(i)),
        DataType::Int8 => prim!(Int8Type),
        DataType::Int16 => prim!(Int16Type),
        DataType::Int32 => prim!(Int32Type),
        DataType::Int64 => prim!(Int64Type),
        DataType::UInt8 => prim!(UInt8Type),
        DataType::UInt16 => prim!(UInt16Type),
        DataType::UInt32 => prim!(UInt32Type),
        DataType::UInt64 => prim!(UInt64Type),
        DataType::Float16 => LV::Float(arr.as_primitive::<Float16Type>().value(i).to_f64()),
        DataType::Float32 => LV::Float(arr.as_primitive::<Float32Type>().value(i) as f64),
        DataType::Float64 => LV::Float(arr.as_primitive::<Float64Type>().value(i)),
        DataType::Decimal32(_, _) => prim!(Decimal32Type),
        DataType::Decimal64(_, _) => prim!(Decimal64Type),
        DataType::Decimal128(_, _) => prim!(Decimal128Type),
        DataType::Decimal256(_, _) => {
            let v = arr.as_primitive::<Decimal256Type>().value(i);
            match v.to_i128() {
                Some(x) => LV::Int(x),
                None => LV::Other(v.to_string()),
            }
        }
        DataType::Date32 => prim!(Date32Type),
        DataType::Date64 => prim!(Date64Type),
        DataType::Time32(TimeUnit::Second) => prim!(Time32SecondType),
        DataType::Time32(TimeUnit::Millisecond) => prim!(Time32MillisecondType),
        DataType::Time64(TimeUnit::Microsecond) => prim!(Time64MicrosecondType),
        DataType::Time64(TimeUnit::Nanosecond) => prim!(Time64NanosecondType),
        DataType::Timestamp(TimeUnit::Second, _) => prim!(TimestampSecondType),
        DataType::Timestamp(TimeUnit::Millisecond, _) => prim!(TimestampMillisecondType),
        DataType::Timestamp(TimeUnit::Microsecond, _) => prim!(TimestampMicrosecondType),
        DataType::Timestamp(TimeUnit::Nanosecond, _) => prim!(TimestampNanosecondType),
        DataType::Duration(TimeUnit::Second) => prim!(DurationSecondType),
        DataType::Duration(TimeUnit::Millisecond) => prim!(DurationMillisecondType),
        DataType::Duration(TimeUnit::Microsecond) => prim!(DurationMicrosecondType),
        DataType::Duration(TimeUnit::Nanosecond) => prim!(DurationNanosecondType),
        DataType::Utf8 => LV::Str(arr.as_string::<i32>().value(i).to_string()),
        DataType::LargeUtf8 => LV::Str(arr.as_string::<i64>().value(i).to_string()),
        DataType::Utf8View => LV::Str(arr.as_string_view().value(i).to_string()),
        DataType::Binary => LV::Bytes(arr.as_binary::<i32>().value(i).to_vec()),
        DataType::LargeBinary => LV::Bytes(arr.as_binary::<i64>().value(i).to_vec()),
        DataType::BinaryView => LV::Bytes(arr.as_binary_view().value(i).to_vec()),
        DataType::FixedSizeBinary(_) => LV::Bytes(arr.as_fixed_size_binary().value(i).to_vec()),
        DataType::Dictionary(_, _) => {
            let d = arr.as_any_dictionary();
            let k = d.normalized_keys()[i];
            cell(d.values().as_ref(), k)
        }
        DataType::List(_) => list(arr.as_list::<i32>().value(i).as_ref()),
        DataType::LargeList(_) => list(arr.as_list::<i64>().value(i).as_ref()),
        DataType::FixedSizeList(_, _) => list(arr.as_fixed_size_list().value(i).as_ref()),
        DataType::Struct(_) => {
            let s = arr.as_struct();
            LV::Struct(s.columns().iter().map(|c| cell(c.as_ref(), i)).collect())
        }
        _ => {
            let opts = arrow::util::display::FormatOptions::default();
            match arrow::util::display::ArrayFormatter::try_new(arr, &opts) {
                Ok(f) => LV::Other(format!("{}", f.value(i))),
                Err(_) => LV::Other("unprintable".into()),
            }
        }
    }
}

fn list(a: &dyn Array) -> LV {
    LV::List((0..a.len()).map(|i| cell(a, i)).collect())
}

pub fn column(arr: &dyn Array) -> Vec<LV> {
    (0..arr.len()).map(|i| cell(arr, i)).collect()
}

pub fn scalar(s: &ScalarValue) -> LV {
    match s.to_array() {
        Ok(a) => cell(a.as_ref(), 0),
        Err(e) => LV::Other(format!("to_array failed: {e}")),
    }
}

/// Equality with a relative tolerance on floats (absolute near zero), recursive; `unordered`
/// compares top-level lists as multisets.
pub fn close(a: &LV, b: &LV, tol: f64, unordered: bool) -> bool {
    match (a, b) {
        (LV::Float(x), LV::Float(y)) => {
            if x.is_nan() || y.is_nan() {
                return x.is_nan() && y.is_nan();
            }
            x == y || (x - y).abs() <= tol * x.abs().max(y.abs()).max(1.0)
        }
        (LV::Int(x), LV::Float(y)) | (LV::Float(y), LV::Int(x)) => (*x as f64 - *y).abs() <= tol * y.abs().max(1.0),
        (LV::List(x), LV::List(y)) => {
            if x.len() != y.len() {
                return false;
            }
            if unordered {
                let mut x: Vec<&LV> = x.iter().collect();
                let mut y: Vec<&LV> = y.iter().collect();
                x.sort_by_key(|v| v.sort_key());
                y.sort_by_key(|v| v.sort_key());
                x.iter().zip(y.iter()).all(|(p, q)| close(p, q, tol, false))
            } else {
                x.iter().zip(y.iter()).all(|(p, q)| close(p, q, tol, false))
            }
        }
        (LV::Struct(x), LV::Struct(y)) => x.len() == y.len() && x.iter().zip(y.iter()).all(|(p, q)| close(p, q, tol, false)),
        _ => a == b,
    }
}

/// selftest: damage an observed value
pub fn corrupt(v: &LV) -> LV {
    match v {
        LV::Null => LV::Int(0),
        LV::Int(i) => LV::Int(i + 1),
        LV::Float(f) => LV::Float(if f.is_finite() { f + 1.0 + f.abs() * 1e-3 } else { 0.0 }),
        LV::Str(s) => LV::Str(format!("{s}x")),
        LV::Bytes(b) => {
            let mut b = b.clone();
            b.push(1);
            LV::Bytes(b)
        }
        LV::Bool(b) => LV::Bool(!b),
        LV::List(l) => {
            let mut l = l.clone();
            if l.pop().is_none() {
                l.push(LV::Int(0));
            }
            LV::List(l)
        }
        LV::Struct(l) => LV::Struct(l.iter().map(corrupt).collect()),
        LV::Other(s) => LV::Other(format!("{s}x")),
    }
}

// ------------------------------------------------------------------------------------------
// independent folds (definitions, not the engine's code)

fn cmp_lv(a: &LV, b: &LV) -> Option<std::cmp::Ordering> {
    match (a, b) {
        (LV::Int(x), LV::Int(y)) => Some(x.cmp(y)),
        (LV::Float(x), LV::Float(y)) => x.partial_cmp(y),
        (LV::Str(x), LV::Str(y)) => Some(x.as_bytes().cmp(y.as_bytes())),
        (LV::Bytes(x), LV::Bytes(y)) => Some(x.cmp(y)),
        (LV::Bool(x), LV::Bool(y)) => Some(x.cmp(y)),
        _ => None,
    }
}

/// `None` = this (function, input) is outside what the independent fold defines.
pub fn fold(name: &str, distinct: bool, cols: &[Vec<LV>], ret: &DataType) -> Option<LV> {
    let n = cols.first().map(|c| c.len()).unwrap_or(0);
    let mut vals: Vec<LV> = match name {
        // count(a, b, ..) counts rows in which every argument is non-NULL
        "count" => (0..n).filter(|i| cols.iter().all(|c| !c[*i].is_null())).map(|i| if cols.len() == 1 { cols[0][i].clone() } else { LV::List(cols.iter().map(|c| c[i].clone()).collect()) }).collect(),
        _ if cols.len() == 1 => cols[0].iter().filter(|v| !v.is_null()).cloned().collect(),
        _ => return None,
    };
    if vals.iter().any(|v| matches!(v, LV::Other(_) | LV::Struct(_)) || matches!(v, LV::List(_)) && name != "count") {
        return None;
    }
    if vals.iter().any(|v| matches!(v, LV::Float(f) if f.is_nan())) {
        return None;
    }
    if distinct {
        let mut seen: Vec<LV> = vec![];
        vals.retain(|v| {
            if seen.contains(v) {
                false
            } else {
                seen.push(v.clone());
                true
            }
        });
    }
    let int_ret = ret.is_integer() || matches!(ret, DataType::Decimal128(_, _) | DataType::Decimal256(_, _) | DataType::Duration(_));
    match name {
        "count" => Some(LV::Int(vals.len() as i128)),
        "sum" | "try_sum" => {
            if vals.is_empty() {
                return Some(LV::Null);
            }
            if vals.iter().all(|v| matches!(v, LV::Int(_))) && int_ret {
                Some(LV::Int(vals.iter().map(|v| if let LV::Int(i) = v { *i } else { 0 }).sum()))
            } else if vals.iter().all(|v| matches!(v, LV::Float(_))) {
                Some(LV::Float(vals.iter().map(|v| if let LV::Float(f) = v { *f } else { 0.0 }).sum()))
            } else {
                None
            }
        }
        "avg" => {
            if !matches!(ret, DataType::Float64) {
                return None; // decimal / duration averages have their own rounding rules
            }
            if vals.is_empty() {
                return Some(LV::Null);
            }
            let s: f64 = vals.iter().map(|v| match v {
                LV::Float(f) => *f,
                LV::Int(i) => *i as f64,
                _ => f64::NAN,
            }).sum();
            Some(LV::Float(s / vals.len() as f64))
        }
        "min" | "max" => {
            let mut best: Option<&LV> = None;
            for v in &vals {
                best = match best {
                    None => Some(v),
                    Some(b) => {
                        let c = cmp_lv(v, b)?;
                        if (name == "min" && c.is_lt()) || (name == "max" && c.is_gt()) { Some(v) } else { Some(b) }
                    }
                };
            }
            Some(best.cloned().unwrap_or(LV::Null))
        }
        "bool_and" | "bool_or" => {
            if vals.is_empty() {
                return Some(LV::Null);
            }
            let bs: Vec<bool> = vals.iter().map(|v| if let LV::Bool(b) = v { Some(*b) } else { None }).collect::<Option<_>>()?;
            Some(LV::Bool(if name == "bool_and" { bs.iter().all(|b| *b) } else { bs.iter().any(|b| *b) }))
        }
        "bit_and" | "bit_or" | "bit_xor" => {
            if vals.is_empty() {
                return Some(LV::Null);
            }
            let is: Vec<i128> = vals.iter().map(|v| if let LV::Int(i) = v { Some(*i) } else { None }).collect::<Option<_>>()?;
            let mut acc = is[0];
            for x in &is[1..] {
                acc = match name {
                    "bit_and" => acc & x,
                    "bit_or" => acc | x,
                    _ => acc ^ x,
                };
            }
            Some(LV::Int(acc))
        }
        _ => None,
    }
}
