//! C19 — Dropping a query stream releases resources and stops background work.
//!
//! Part 1 (fault_enumeration over drop points): for every plan shape of `dfv::sched::shapes()` and EVERY drop
//! point k = 0..=(output batches to completion): poll the root stream k times, drop it (and the plan), let the
//! runtime settle, then read the observers — alive tokio tasks back at the pre-query baseline, live ChaosSource
//! streams == 0, pool.reserved() == 0, used_disk_space() == 0, no files in the spill directories. Executed on the
//! VTQ runtime (paused clock, logical verdicts) and on a multi-thread runtime (wall-clock bounds ⇒ inconclusive).
//! "Drop after an error" uses the source fault injector.
//!
//! Part 2 (cancellation clause): an endless, never-pending ChaosSource under each pipeline shape inside
//! `tokio::time::timeout(10 ms virtual)`; the timeout must take effect before the source has served
//! `after_deadline_bound` batches after the deadline, and at all before the source's hard cap.

use datafusion::common::tree_node::TreeNodeRecursion;
use datafusion::error::Result as DfResult;
use datafusion::execution::{SendableRecordBatchStream, TaskContext};
use datafusion::physical_expr::PhysicalExpr;
use datafusion::physical_plan::stream::RecordBatchStreamAdapter;
use datafusion::physical_plan::{DisplayAs, DisplayFormatType, ExecutionPlan, PlanProperties, ReplaceChildrenOptions};
use dfv::sched::*;
use futures::StreamExt;
use std::sync::Arc;
use std::time::Duration;
use vcommon::{json, Args, Json, Report, Rng};

#[derive(Clone, Copy, Debug, PartialEq, Eq)]
enum RtKind {
    Vtq,
    Mt(usize),
}

impl RtKind {
    fn name(&self) -> String {
        match self {
            RtKind::Vtq => "vtq".into(),
            RtKind::Mt(n) => format!("mt{n}"),
        }
    }
}

#[derive(Clone, Debug)]
struct DropCase {
    shape: Shape,
    /// None: run to completion, then drop
    k: Option<usize>,
    rt: RtKind,
    noise: Noise,
    fault: Option<(usize, SourceFault)>,
    ds_seed: u64,
    /// self test: 1 = corrupt the observed snapshot, 2 = wrap the plan in a deliberately leaky operator
    selftest: u64,
}

impl DropCase {
    fn fingerprint(&self) -> u64 {
        vcommon::fp_str(&format!("{}|{:?}|{}|{:?}|{:?}|{}", self.shape.name, self.k, self.rt.name(), self.noise, self.fault, self.ds_seed))
    }
    fn witness(&self, ds: &Dataset, obs: Option<&DropObs>, what: &str) -> Json {
        json!({
            "table_contents": tables_json(ds, 2000),
            "kind": "drop-point", "shape": self.shape.name, "sql": self.shape.sql, "settings": self.shape.settings.iter().map(|(k, v)| format!("{k}={v}")).collect::<Vec<_>>(),
            "target_partitions": self.shape.target_partitions, "batch_size": 8, "mem_limit": self.shape.mem_limit,
            "drop_after_polls": self.k, "runtime": self.rt.name(), "noise": format!("{:?}", self.noise), "source_fault": format!("{:?}", self.fault),
            "dataset_seed": self.ds_seed, "dataset": format!("{:?}", DatasetCfg::default()),
            "observed": obs.map(|o| o.to_json()), "what": what,
            "replay": format!("c19 C19 --opt only={} (all drop points of the shape on both runtimes)", self.shape.name),
        })
    }
}


/// Contents and physical layout (partitions -> batches -> rows) of the generated tables, so that a witness can be
/// replayed without the generator. Tables beyond `max_rows` rows in total are only described by seed + config.
fn tables_json(ds: &Dataset, max_rows: usize) -> Json {
    let total: usize = (0..4).map(|i| ds.table(i).iter().flatten().map(|b| b.num_rows()).sum::<usize>()).sum();
    if total > max_rows {
        return json!(format!("{total} rows: regenerate with dfv::sched::Dataset::new(dataset_seed, dataset)"));
    }
    let dump = |t: &Vec<Vec<arrow::record_batch::RecordBatch>>| -> Json {
        json!(t.iter().map(|p| p.iter().map(|b| dfv::value::rows_to_json(&dfv::engine::batches_to_rows(std::slice::from_ref(b)))).collect::<Vec<_>>()).collect::<Vec<_>>())
    };
    json!({"columns": ["id BIGINT NOT NULL", "k BIGINT NOT NULL", "v BIGINT", "s VARCHAR NOT NULL"], "t1": dump(&ds.t1), "t2": dump(&ds.t2), "ts (declared ORDER BY k, id)": dump(&ds.ts), "tb": dump(&ds.tb)})
}

#[derive(Clone, Debug)]
struct DropObs {
    baseline: usize,
    got: usize,
    ended: bool,
    err: Option<String>,
    before: Snapshot,
    after: Snapshot,
    settle: SettleReport,
    ops: Vec<String>,
    spills: usize,
    wall_hit: bool,
}

impl DropObs {
    fn to_json(&self) -> Json {
        json!({"baseline_tasks": self.baseline, "batches_received": self.got, "stream_ended": self.ended, "error": self.err,
            "at_drop": self.before.to_json(), "after_settle": self.after.to_json(), "settle_rounds": self.settle.rounds, "settled": self.settle.settled,
            "spill_count": self.spills})
    }
}

async fn drop_case(ds: &Dataset, c: &DropCase) -> Result<DropObs, String> {
    let baseline = alive_tasks();
    let mut wc = c.shape.world_cfg();
    wc.noise = c.noise;
    wc.fault = c.fault;
    wc.wall_guard = Some(Duration::from_secs(120));
    let world = World::new(ds, &wc).await.map_err(|e| format!("world: {e}"))?;
    let mut plan = world.plan(c.shape.sql).await.map_err(|e| format!("plan: {e}"))?;
    if c.selftest == 2 {
        plan = Arc::new(LeakyExec { props: plan.properties().clone(), child: plan });
    }
    let ops = plan_operators(&plan);
    let mut stream = world.execute(plan.clone()).map_err(|e| format!("execute: {e}"))?;
    let (mut got, mut ended, mut err, mut polls) = (0usize, false, None, 0usize);
    loop {
        if let Some(k) = c.k {
            if polls >= k {
                break;
            }
        }
        polls += 1;
        match stream.next().await {
            None => {
                ended = true;
                break;
            }
            Some(Ok(_)) => got += 1,
            Some(Err(e)) => {
                err = Some(e.to_string().chars().take(200).collect());
                break;
            }
        }
    }
    let spills = sum_metric(&plan, "spill_count");
    let obs = world.observers();
    let before = obs.snapshot();
    drop(stream);
    drop(plan);
    let (rounds, wall) = match c.rt {
        RtKind::Vtq => (40, Duration::from_secs(120)),
        RtKind::Mt(_) => (usize::MAX, Duration::from_secs(20)),
    };
    let (mut after, settle) = obs.settle(baseline, rounds, wall).await;
    if c.selftest == 1 && c.k == Some(1) {
        after.live_streams += 1; // corrupt the observed value
    }
    Ok(DropObs { baseline, got, ended, err, before, after, settle, ops, spills, wall_hit: world.wall_hit() })
}

fn run_drop_case(rep: &Report, ds: &Dataset, c: &DropCase) -> Option<DropObs> {
    let out = match c.rt {
        RtKind::Vtq => run_vtq(|| drop_case(ds, c)),
        RtKind::Mt(n) => run_mt(n, Duration::from_secs(180), || drop_case(ds, c)),
    };
    let fp = c.fingerprint();
    let grid = format!("{}/{}", c.shape.name, c.rt.name());
    match out {
        RunOutcome::Panic(p) => {
            rep.case(fp, true);
            rep.violation(&format!("panic/{}", c.shape.name), c.witness(ds, None, &format!("panicked: {p}")));
            None
        }
        RunOutcome::Stuck => {
            rep.case(fp, true);
            rep.violation(&format!("stuck-after-drop/{}", c.shape.name), c.witness(ds, None, "virtual-time quiescence: the 1 h virtual timeout fired while polling / settling — no task runnable, no timer due"));
            None
        }
        RunOutcome::Wall => {
            rep.case(fp, false);
            wall_case(rep, &format!("wall-clock guard fired for {grid}"));
            None
        }
        RunOutcome::Done(Err(e)) => {
            rep.case(fp, false);
            rep.skip(&format!("setup-error: {}", e.chars().take(80).collect::<String>()));
            None
        }
        RunOutcome::Done(Ok(o)) => {
            if o.wall_hit || o.settle.wall_exceeded {
                rep.case(fp, false);
                wall_case(rep, &format!("wall-clock bound exceeded in {grid} (k={:?})", c.k));
                return Some(o);
            }
            let held = o.before.alive_tasks > o.baseline || o.before.live_streams > 0 || o.before.reserved > 0 || o.before.disk_used > 0;
            rep.case(fp, held && !o.ended);
            for op in &o.ops {
                rep.seen("operators", op);
            }
            rep.count(&format!("drops:{grid}"), 1);
            rep.count(&format!("drop_points:{}", c.rt.name()), 1);
            if held && !o.ended {
                rep.count(&format!("drops_holding_resources:{grid}"), 1);
            }
            if o.err.is_some() {
                rep.count("drops_after_error", 1);
            }
            if o.before.disk_used > 0 {
                rep.count(&format!("drops_with_spill_on_disk:{}", c.shape.name), 1);
            }
            rep.max("max_alive_tasks_at_drop", o.before.alive_tasks as u64);
            rep.max("max_live_source_streams_at_drop", o.before.live_streams.max(0) as u64);
            rep.max("max_reserved_bytes_at_drop", o.before.reserved as u64);
            rep.max("max_settle_rounds", o.settle.rounds as u64);
            let a = &o.after;
            let mut bad = vec![];
            if a.alive_tasks > o.baseline {
                bad.push("tasks-alive-after-drop");
            }
            if a.live_streams != 0 {
                bad.push("source-streams-alive-after-drop");
            }
            if a.reserved != 0 {
                bad.push("memory-reserved-after-drop");
            }
            if a.disk_used != 0 {
                bad.push("disk-used-after-drop");
            }
            if a.spill_files != 0 {
                bad.push("spill-files-after-drop");
            }
            for b in bad {
                rep.violation(&format!("{b}/{}", c.shape.name), c.witness(ds, Some(&o), &format!("{b}: after the drop and {} settle rounds the observers read {} (baseline tasks {})", o.settle.rounds, a.to_json(), o.baseline)));
            }
            if rep.want_sample() && held && c.k.unwrap_or(0) >= 2 {
                rep.sample(json!({"shape": c.shape.name, "sql": c.shape.sql, "drop_after_polls": c.k, "runtime": c.rt.name(), "observed": o.to_json()}));
            }
            Some(o)
        }
    }
}

// ------------------------------------------------------------------------------------------
// a deliberately leaky operator (self test 2): forwards its child through a detached task

#[derive(Debug)]
struct LeakyExec {
    child: Arc<dyn ExecutionPlan>,
    props: Arc<PlanProperties>,
}

impl DisplayAs for LeakyExec {
    fn fmt_as(&self, _t: DisplayFormatType, f: &mut std::fmt::Formatter) -> std::fmt::Result {
        write!(f, "LeakyExec")
    }
}

impl ExecutionPlan for LeakyExec {
    fn name(&self) -> &str {
        "LeakyExec"
    }
    fn properties(&self) -> &Arc<PlanProperties> {
        &self.props
    }
    fn children(&self) -> Vec<&Arc<dyn ExecutionPlan>> {
        vec![&self.child]
    }
    fn apply_expressions(&self, _f: &mut dyn FnMut(&Arc<dyn PhysicalExpr>) -> DfResult<TreeNodeRecursion>) -> DfResult<TreeNodeRecursion> {
        Ok(TreeNodeRecursion::Continue)
    }
    fn replace_children(self: Arc<Self>, c: Vec<Arc<dyn ExecutionPlan>>, _o: ReplaceChildrenOptions) -> DfResult<Arc<dyn ExecutionPlan>> {
        Ok(Arc::new(LeakyExec { props: c[0].properties().clone(), child: c[0].clone() }))
    }
    fn with_new_children(self: Arc<Self>, c: Vec<Arc<dyn ExecutionPlan>>) -> DfResult<Arc<dyn ExecutionPlan>> {
        Ok(Arc::new(LeakyExec { props: c[0].properties().clone(), child: c[0].clone() }))
    }
    fn execute(&self, partition: usize, ctx: Arc<TaskContext>) -> DfResult<SendableRecordBatchStream> {
        let mut input = self.child.execute(partition, ctx)?;
        let (tx, rx) = tokio::sync::mpsc::channel(1);
        // BUG on purpose: a detached task that outlives the output stream and keeps its input
        tokio::spawn(async move {
            while let Some(b) = input.next().await {
                let _ = tx.send(b).await;
            }
            std::future::pending::<()>().await;
        });
        let s = futures::stream::unfold(rx, |mut rx| async move { rx.recv().await.map(|b| (b, rx)) });
        Ok(Box::pin(RecordBatchStreamAdapter::new(self.schema(), s)))
    }
}

// ------------------------------------------------------------------------------------------
// part 2: cancellation over an endless source

#[derive(Clone, Debug)]
struct CancelShape {
    name: &'static str,
    sql: &'static str,
    settings: &'static [(&'static str, &'static str)],
    target_partitions: usize,
    te_partitions: usize,
    /// declare the source unbounded + ordered (streaming-capable shapes); otherwise it pretends to be a huge table
    unbounded: bool,
    mem_limit: Option<usize>,
}

const fn cs(name: &'static str, sql: &'static str, te_partitions: usize, unbounded: bool) -> CancelShape {
    CancelShape { name, sql, settings: &[], target_partitions: 3, te_partitions, unbounded, mem_limit: None }
}

const SMJ: &[(&str, &str)] = &[("datafusion.optimizer.prefer_hash_join", "false")];

fn cancel_shapes() -> Vec<CancelShape> {
    vec![
        cs("filter-project", "SELECT id, v + 1 AS w FROM te WHERE v % 3 = 0", 2, true),
        cs("filter-project-bounded-decl", "SELECT id, v + 1 AS w FROM te WHERE v % 3 = 0", 1, false),
        cs("filter-rejects-all", "SELECT id FROM te WHERE v < 0", 2, true),
        cs("agg-no-grouping", "SELECT count(*) AS c, sum(v) AS s FROM te", 2, false),
        cs("agg-hash-grouping", "SELECT v, count(*) AS c FROM te GROUP BY v", 2, false),
        cs("agg-ordered-grouping", "SELECT k, count(*) AS c FROM te GROUP BY k", 1, true),
        cs("sort", "SELECT id FROM te ORDER BY v", 2, false),
        CancelShape { mem_limit: Some(64 * 1024), target_partitions: 1, ..cs("sort-spilling", "SELECT id FROM te ORDER BY v", 1, false) },
        cs("topk", "SELECT id, v FROM te ORDER BY v DESC LIMIT 5", 2, false),
        cs("distinct", "SELECT DISTINCT v FROM te", 2, false),
        cs("hash-join-endless-left", "SELECT a.id AS a, b.id AS b FROM te a JOIN t2 b ON a.v = b.k", 2, false),
        cs("hash-join-endless-right", "SELECT a.id AS a, b.id AS b FROM t2 b JOIN te a ON a.v = b.k", 2, false),
        CancelShape { settings: SMJ, ..cs("sort-merge-join", "SELECT a.id AS a, b.id AS b FROM te a JOIN t2 b ON a.v = b.k", 2, false) },
        cs("nested-loop-join", "SELECT a.id AS a, b.id AS b FROM te a JOIN t2 b ON a.v < b.v - 1400", 2, false),
        cs("cross-join", "SELECT a.id AS a, b.k AS bk FROM te a CROSS JOIN (SELECT DISTINCT k FROM t2) b WHERE a.v + b.k < 0", 2, false),
        cs("semi-join", "SELECT id FROM te WHERE v IN (SELECT k FROM t2)", 2, false),
        cs("window-bounded-streaming", "SELECT id, sum(v) OVER (ORDER BY k, id ROWS BETWEEN 2 PRECEDING AND CURRENT ROW) AS w FROM te", 1, true),
        cs("window-partitioned", "SELECT id, row_number() OVER (PARTITION BY v ORDER BY id) AS rn FROM te", 2, false),
        cs("union", "SELECT id FROM te UNION ALL SELECT id FROM t1", 2, true),
        cs("interleave-agg", "SELECT v, count(*) AS c FROM (SELECT v FROM te GROUP BY v, id UNION ALL SELECT k AS v FROM t2 GROUP BY k, id) GROUP BY v", 2, false),
        cs("sort-preserving-merge", "SELECT k, id FROM te ORDER BY k, id", 2, true),
        CancelShape { target_partitions: 4, ..cs("repartition-round-robin", "SELECT id, v + 1 AS w FROM te WHERE v % 2 = 0", 1, true) },
        cs("analyze", "EXPLAIN ANALYZE SELECT count(*) FROM te", 2, false),
        cs("recursive-static-endless", "WITH RECURSIVE r(n) AS (SELECT id FROM te UNION ALL SELECT n + 1 FROM r WHERE n < 0) SELECT n FROM r", 1, false),
        // source partitions == target partitions: no RepartitionExec is planned directly above the leaf
        cs("aligned-agg-no-grouping", "SELECT count(*) AS c, sum(v) AS s FROM te", 3, false),
        cs("aligned-agg-hash-grouping", "SELECT v, count(*) AS c FROM te GROUP BY v", 3, false),
        cs("aligned-filter-rejects-all", "SELECT id FROM te WHERE v < 0", 3, true),
        cs("aligned-sort", "SELECT id FROM te ORDER BY v", 3, false),
        cs("aligned-hash-join-build", "SELECT a.id AS a, b.id AS b FROM te a JOIN t1 b ON a.v = b.k", 3, false),
        cs("aligned-window-partitioned", "SELECT id, row_number() OVER (PARTITION BY v ORDER BY id) AS rn FROM te", 3, false),
        cs("aligned-distinct", "SELECT DISTINCT v FROM te", 3, false),
        cs("agg-then-join", "SELECT g.v, g.c, b.id FROM (SELECT v, count(*) AS c FROM te GROUP BY v) g JOIN t2 b ON g.v = b.k", 2, false),
    ]
}

const CAP: u64 = 60_000;
const AFTER_DEADLINE_BOUND: u64 = 10_000;

#[derive(Debug)]
struct CancelObs {
    timed_out: bool,
    ended: bool,
    err: Option<String>,
    outputs: usize,
    served: u64,
    after_deadline: u64,
    /// source batches served after the stream had been dropped (background work that did not stop)
    served_after_drop: u64,
    cap_hit: bool,
    ops: Vec<String>,
    after: Snapshot,
    settle: SettleReport,
    baseline: usize,
    wall_hit: bool,
}

impl CancelObs {
    fn to_json(&self) -> Json {
        json!({"timeout_fired": self.timed_out, "stream_ended": self.ended, "error": self.err, "output_batches": self.outputs, "source_batches_served": self.served,
            "served_after_deadline": self.after_deadline, "served_after_drop": self.served_after_drop, "source_cap_hit": self.cap_hit, "after_settle": self.after.to_json(), "baseline_tasks": self.baseline})
    }
}

/// Wrap every ChaosSourceExec leaf in a CooperativeExec (what EnsureCooperative does for a leaf that is not below a
/// cooperative ancestor) — used to localise a cancellation failure.
fn wrap_leaves(plan: Arc<dyn ExecutionPlan>) -> Arc<dyn ExecutionPlan> {
    use datafusion::common::tree_node::{Transformed, TreeNode};
    plan.transform_up(|p| {
        if p.name() == "ChaosSourceExec" {
            Ok(Transformed::yes(Arc::new(datafusion::physical_plan::coop::CooperativeExec::new(p)) as Arc<dyn ExecutionPlan>))
        } else {
            Ok(Transformed::no(p))
        }
    })
    .map(|t| t.data)
    .expect("wrap leaves")
}

async fn cancel_case(ds: &Dataset, s: &CancelShape, rt: RtKind, claim_cooperative: bool, force_wrap: bool) -> Result<CancelObs, String> {
    let baseline = alive_tasks();
    let mut wc = WorldCfg { target_partitions: s.target_partitions, ..WorldCfg::default() };
    wc.settings = s.settings.iter().map(|(k, v)| (k.to_string(), v.to_string())).collect();
    if let Some(m) = s.mem_limit {
        wc.env.pool = PoolKind::Fair(m);
        wc.settings.push(("datafusion.execution.sort_spill_reservation_bytes".into(), (m / 4).to_string()));
    }
    // the endless source never returns Pending by itself: noise stays off here
    wc.endless = Some(EndlessCfg { spec: EndlessSpec { partitions: s.te_partitions, rows_per_batch: 8, kdiv: 4 }, unbounded: s.unbounded, declare_order: s.unbounded, cap: CAP, claim_cooperative });
    wc.wall_guard = Some(Duration::from_secs(120));
    let world = World::new(ds, &wc).await.map_err(|e| format!("world: {e}"))?;
    let mut plan = world.plan(s.sql).await.map_err(|e| format!("plan: {e}"))?;
    if force_wrap {
        plan = wrap_leaves(plan);
    }
    let ops = plan_operators(&plan);
    let mut stream = world.execute(plan.clone()).map_err(|e| format!("execute: {e}"))?;
    let te = world.states.last().expect("te state").clone();
    let limit = Duration::from_millis(10);
    te.set_deadline(tokio::time::Instant::now() + limit);
    // VTQ: the paused clock only moves when pushed from a sibling task, which runs only if the pipeline yields
    let pusher = match rt {
        RtKind::Vtq => Some(spawn_clock_pusher(3, Duration::from_millis(11))),
        RtKind::Mt(_) => None,
    };
    let mut outputs = 0usize;
    let mut err = None;
    let r = tokio::time::timeout(limit, async {
        loop {
            match stream.next().await {
                None => break,
                Some(Ok(_)) => outputs += 1,
                Some(Err(e)) => {
                    err = Some(e.to_string().chars().take(200).collect::<String>());
                    break;
                }
            }
        }
    })
    .await;
    let timed_out = r.is_err();
    let (served, after_deadline, cap_hit) = (te.served(), te.served_after_deadline(), te.cap_hit());
    drop(stream);
    drop(plan);
    if let Some(p) = pusher {
        p.abort();
    }
    let obs = world.observers();
    let (rounds, wall) = match rt {
        RtKind::Vtq => (40, Duration::from_secs(120)),
        RtKind::Mt(_) => (usize::MAX, Duration::from_secs(30)),
    };
    let (after, settle) = obs.settle(baseline, rounds, wall).await;
    let served_after_drop = te.served() - served;
    Ok(CancelObs { timed_out, ended: !timed_out && err.is_none(), err, outputs, served, after_deadline, served_after_drop, cap_hit: cap_hit || te.cap_hit(), ops, after, settle, baseline, wall_hit: world.wall_hit() })
}

fn exec_cancel(ds: &Dataset, s: &CancelShape, rt: RtKind, claim: bool, force_wrap: bool) -> RunOutcome<Result<CancelObs, String>> {
    match rt {
        RtKind::Vtq => run_vtq(|| cancel_case(ds, s, rt, claim, force_wrap)),
        RtKind::Mt(n) => run_mt(n, Duration::from_secs(180), || cancel_case(ds, s, rt, claim, force_wrap)),
    }
}

/// not cancellable (VTQ): the whole cap was consumed without the timeout taking effect;
/// background work continues (any runtime): more than the bound of source batches were served after the drop
fn cancel_failure(o: &CancelObs, rt: RtKind) -> Option<&'static str> {
    // on a real-time runtime a late timer (machine load) could let a fast pipeline reach the cap or the bound first:
    // only the batches served after the DROP are a logical measure there
    if rt == RtKind::Vtq && !o.timed_out && o.cap_hit && o.err.is_none() {
        Some("not-cancellable")
    } else if rt == RtKind::Vtq && o.timed_out && o.after_deadline > AFTER_DEADLINE_BOUND {
        Some("cancellation-slow")
    } else if o.served_after_drop > AFTER_DEADLINE_BOUND {
        Some("background-work-continues-after-drop")
    } else {
        None
    }
}

fn run_cancel_case(rep: &Report, ds: &Dataset, s: &CancelShape, rt: RtKind, claim_cooperative: bool) {
    let fp = vcommon::fp_str(&format!("cancel|{}|{}|{}", s.name, s.te_partitions, rt.name()));
    let witness = |o: Option<&CancelObs>, what: &str| {
        json!({"kind": "cancellation", "shape": s.name, "sql": s.sql, "settings": s.settings.iter().map(|(k, v)| format!("{k}={v}")).collect::<Vec<_>>(),
            "target_partitions": s.target_partitions, "runtime": rt.name(), "endless_source": {"partitions": s.te_partitions, "rows_per_batch": 8, "declared_unbounded": s.unbounded, "cap_batches": CAP, "never_pending": true},
            "timeout_ms": 10, "bound_batches": AFTER_DEADLINE_BOUND, "observed": o.map(|o| o.to_json()), "operators": o.map(|o| o.ops.clone()), "what": what,
            "replay": format!("c19 C19 --opt only={}", s.name)})
    };
    match exec_cancel(ds, s, rt, claim_cooperative, false) {
        RunOutcome::Panic(p) => {
            rep.case(fp, true);
            rep.violation(&format!("panic/cancel/{}", s.name), witness(None, &format!("panicked: {p}")));
        }
        RunOutcome::Stuck => {
            rep.case(fp, true);
            rep.violation(&format!("stuck/cancel/{}", s.name), witness(None, "virtual-time quiescence detector fired"));
        }
        RunOutcome::Wall => {
            rep.case(fp, false);
            wall_case(rep, &format!("wall guard in cancellation case {} on {}", s.name, rt.name()));
        }
        RunOutcome::Done(Err(e)) => {
            rep.case(fp, false);
            rep.skip(&format!("cancel-setup-error/{}: {}", s.name, e.chars().take(90).collect::<String>()));
        }
        RunOutcome::Done(Ok(o)) => {
            if o.wall_hit || o.settle.wall_exceeded {
                rep.case(fp, false);
                wall_case(rep, &format!("wall-clock bound exceeded in cancellation case {} on {}", s.name, rt.name()));
                return;
            }
            for op in &o.ops {
                rep.seen("operators_over_endless_source", op);
            }
            rep.case(fp, o.timed_out);
            rep.count(&format!("cancel_cases:{}", rt.name().trim_end_matches(char::is_numeric)), 1);
            if o.timed_out {
                rep.count("cancel_timeouts_fired", 1);
                rep.seen("cancel_shapes_timed_out", s.name);
                rep.max("max_served_after_deadline", o.after_deadline);
                rep.max("max_served_until_timeout", o.served);
                rep.max("max_served_after_drop", o.served_after_drop);
            } else if let Some(e) = &o.err {
                rep.skip(&format!("cancel-exec-error/{}: {}", s.name, e.chars().take(90).collect::<String>()));
            } else if !o.cap_hit {
                rep.count("cancel_query_ended_before_deadline", 1);
            }
            if rt != RtKind::Vtq && !o.timed_out && o.cap_hit {
                rep.count("mt_cap_reached_before_timeout_observed", 1);
            }
            if let Some(kind) = cancel_failure(&o, rt) {
                // localisation by toggle: is the missing CooperativeExec around the leaf the reason?
                let fixed_by_wrap = !claim_cooperative && matches!(exec_cancel(ds, s, rt, false, true), RunOutcome::Done(Ok(o2)) if cancel_failure(&o2, rt).is_none() && o2.timed_out);
                let what = match kind {
                    "not-cancellable" => "the pipeline consumed the source's whole cap without ever letting the 10 ms timeout take effect: it never yielded to the runtime",
                    "cancellation-slow" => "the timeout completed only after more than the bound of source batches served past the deadline",
                    _ => "after the timeout fired and the stream was dropped, a background task kept pulling the endless source (more than the bound of batches): it never reaches a yield point, so the abort cannot take effect",
                };
                if fixed_by_wrap {
                    rep.violation(&format!("{kind}/leaf-not-wrapped-below-cooperative-ancestor"), witness(Some(&o), &format!("{what}. Localised: the same plan with the ChaosSourceExec leaves wrapped in CooperativeExec is cancelled in time — EnsureCooperative left the non-cooperative leaf unwrapped because an ancestor (SortPreservingMergeExec / CoalescePartitionsExec / RepartitionExec) is declared Cooperative, but an operator in between absorbs the batches, so the ancestor never consumes task budget")));
                } else {
                    rep.violation(&format!("{kind}/{}", s.name), witness(Some(&o), what));
                }
            }
            let a = &o.after;
            if a.alive_tasks > o.baseline || a.live_streams != 0 || a.reserved != 0 || a.disk_used != 0 || a.spill_files != 0 {
                rep.violation(&format!("resources-after-cancel/{}", s.name), witness(Some(&o), "after the timeout dropped the stream the observers are not clean"));
            }
            if rep.want_sample() && o.timed_out && o.outputs > 0 {
                rep.sample(witness(Some(&o), "sample"));
            }
        }
    }
}

// ------------------------------------------------------------------------------------------

fn explain(ds: &Dataset, only: Option<&str>) {
    for s in shapes() {
        if only.is_some_and(|o| o != s.name) {
            continue;
        }
        let r = run_vtq(|| async {
            let w = World::new(ds, &s.world_cfg()).await?;
            let p = w.plan(s.sql).await?;
            Ok::<_, datafusion::error::DataFusionError>(datafusion::physical_plan::displayable(p.as_ref()).indent(false).to_string())
        });
        println!("== {} ==\n{}\n{:?}\n", s.name, s.sql, r);
    }
    for s in cancel_shapes() {
        if only.is_some_and(|o| o != s.name) {
            continue;
        }
        let r = run_vtq(|| async {
            let mut wc = WorldCfg { target_partitions: s.target_partitions, ..WorldCfg::default() };
            wc.settings = s.settings.iter().map(|(k, v)| (k.to_string(), v.to_string())).collect();
            wc.endless = Some(EndlessCfg { spec: EndlessSpec { partitions: s.te_partitions, rows_per_batch: 8, kdiv: 4 }, unbounded: s.unbounded, declare_order: s.unbounded, cap: CAP, claim_cooperative: false });
            let w = World::new(ds, &wc).await?;
            let p = w.plan(s.sql).await?;
            Ok::<_, datafusion::error::DataFusionError>(datafusion::physical_plan::displayable(p.as_ref()).indent(false).to_string())
        });
        println!("== cancel/{} ==\n{}\n{:?}\n", s.name, s.sql, r);
    }
}

/// A multi-thread case that hit its wall-clock guard decides nothing (machine load); it is a counted skip.
/// Only when many cases do so is the whole run inconclusive.
fn wall_case(rep: &Report, what: &str) {
    rep.skip(&format!("wall-clock/{}", what.chars().take(70).collect::<String>()));
    rep.count("wall_clock_cases", 1);
}

fn run(args: &Args) -> i32 {
    let rep = Report::new("C19", "fault_enumeration", args);
    rep.set_rule("drop-point case = (plan shape built via SQL over ChaosTables / real parquet+csv files, drop point k = number of root-stream polls before the drop, runtime ∈ {VTQ paused current-thread, multi-thread 2-4 workers}, seeded source noise, optional source fault for 'drop after error'); every k = 0..=batches-to-completion is enumerated per shape and runtime. cancellation case = endless never-pending ChaosSource under a pipeline shape inside timeout(10 ms virtual). distinct = hash(shape, k, runtime, noise, fault, dataset); non-trivial = at the moment of the drop the query held something (spawned tasks / live source streams / reserved bytes / spill bytes) and had not finished; for cancellation: the timeout actually fired");
    rep.assume("tokio RuntimeMetrics::num_alive_tasks of the harness' own per-case runtime counts exactly the tasks spawned by the query");
    rep.assume("on a paused current-thread runtime the 1 h virtual timeout can only fire when no task is runnable and no blocking job is outstanding (tokio auto-advance rule)");
    rep.assume("a source declared bounded that never ends is indistinguishable, for the engine, from a huge table (used for pipeline-breaking shapes the planner rejects over declared-unbounded inputs)");
    let selftest = args.opt_u64("selftest", 0);
    let only = args.opt_str("only");
    let ds_cfg = DatasetCfg::default();
    let ds0 = Dataset::new(0xC19, &ds_cfg);
    if args.opt_u64("explain", 0) == 1 {
        explain(&ds0, only);
        return 0;
    }
    let mut all_shapes: Vec<Shape> = shapes().into_iter().filter(|s| only.is_none_or(|o| o == s.name)).collect();
    for f in calibrate_spill_limits(&ds0, &mut all_shapes) {
        rep.skip(&format!("no memory limit found under which {f} spills and succeeds"));
    }
    for s in all_shapes.iter().filter(|s| s.mem_limit.is_some()) {
        rep.count(&format!("calibrated_mem_limit:{}", s.name), s.mem_limit.unwrap_or(0) as u64);
    }

    // pass A: completion runs on VTQ give the number of output batches per shape
    let lens: std::sync::Mutex<Vec<(Shape, usize)>> = std::sync::Mutex::new(vec![]);
    vcommon::par::run(args.workers, all_shapes.iter().cloned(), |shape| {
        let c = DropCase { shape: shape.clone(), k: None, rt: RtKind::Vtq, noise: Noise::none(), fault: None, ds_seed: ds0.seed, selftest: 0 };
        if let Some(o) = run_drop_case(&rep, &ds0, &c) {
            if o.err.is_none() {
                lens.lock().unwrap().push((shape, o.got));
            } else {
                rep.skip(&format!("fault-free run of {} fails: {}", shape.name, o.err.unwrap_or_default()));
            }
        }
    });
    let lens = lens.into_inner().unwrap();

    // pass B: every drop point × both runtimes (systematic, seed independent) + drop after an injected error
    let mut cases = vec![];
    for (shape, n) in &lens {
        rep.count(&format!("batches_to_completion:{}", shape.name), *n as u64);
        for k in 0..=(*n + 1) {
            for rt in [RtKind::Vtq, RtKind::Mt(2 + k % 3)] {
                let noise = match (k % 2, rt) {
                    (0, _) => Noise::none(),
                    (_, RtKind::Vtq) => Noise::seeded(k as u64),
                    (_, RtKind::Mt(_)) => Noise::seeded_real(k as u64),
                };
                cases.push(DropCase { shape: shape.clone(), k: Some(k), rt, noise, fault: None, ds_seed: ds0.seed, selftest });
            }
        }
        if !shape.files || shape.sql.contains("t2") {
            let table = if shape.sql.contains(" t1") { 0 } else if shape.sql.contains(" t2") { 1 } else if shape.sql.contains(" tb") { 3 } else { 2 };
            for (p, at) in [(0usize, 0u64), (1, 2)] {
                for rt in [RtKind::Vtq, RtKind::Mt(2)] {
                    cases.push(DropCase { shape: shape.clone(), k: None, rt, noise: Noise::none(), fault: Some((table, SourceFault { partition: p, at_batch: at, kind: FaultKind::Error })), ds_seed: ds0.seed, selftest: 0 });
                }
            }
        }
    }
    let n_sys = cases.len();
    vcommon::par::run(args.workers, cases.into_iter(), |c| {
        run_drop_case(&rep, &ds0, &c);
    });
    rep.extra("systematic_drop_cases", json!(n_sys));

    // part 2: cancellation
    let cshapes: Vec<CancelShape> = cancel_shapes().into_iter().filter(|s| only.is_none_or(|o| o == s.name)).collect();
    let ccases: Vec<(CancelShape, RtKind)> = cshapes.iter().flat_map(|s| [(s.clone(), RtKind::Vtq), (s.clone(), RtKind::Mt(3))]).collect();
    vcommon::par::run(args.workers, ccases.into_iter(), |(s, rt)| run_cancel_case(&rep, &ds0, &s, rt, selftest == 3 && s.name == "window-bounded-streaming"));

    // seeded random tail: other datasets, noise seeds and drop points
    let n_rand = args.bound("random", 300, 6000);
    if only.is_none() && !lens.is_empty() {
        let ds1 = Dataset::new(args.seed, &ds_cfg);
        vcommon::par::run(args.workers, 0..n_rand, |i| {
            if !rep.within_budget(70.0) {
                return;
            }
            let mut rng = Rng::derive(args.seed, &[19, i]);
            let (shape, n) = rng.pick(&lens).clone();
            let k = rng.usize(n + 3);
            let rt = if rng.chance(2, 3) { RtKind::Vtq } else { RtKind::Mt(2 + rng.usize(3)) };
            let noise = match rt {
                RtKind::Vtq => Noise::seeded(rng.next_u64()),
                RtKind::Mt(_) => Noise::seeded_real(rng.next_u64()),
            };
            let c = DropCase { shape, k: Some(k), rt, noise, fault: None, ds_seed: ds1.seed, selftest: 0 };
            run_drop_case(&rep, &ds1, &c);
        });
    }

    // obligations
    if only.is_none() {
        let mut need: Vec<&str> = vec![];
        for s in shapes() {
            for o in s.expect_ops {
                if !need.contains(o) {
                    need.push(o);
                }
            }
        }
        for o in need.iter().chain(["CooperativeExec", "ChaosSourceExec", "ProjectionExec"].iter()) {
            rep.obligation(&format!("operator:{o}"), rep.has_seen("operators", o), "operator must appear in at least one dropped plan");
        }
        for s in shapes() {
            let held = rep.get_count(&format!("drops_holding_resources:{}/vtq", s.name));
            rep.obligation(&format!("shape-nontrivial:{}", s.name), held >= 1, "at least one VTQ drop point of the shape must hold resources at the drop");
        }
        rep.obligation("spill-on-disk-at-drop", rep.get_count("drops_with_spill_on_disk:sort-spill") >= 1, "the spilling sort must be dropped at least once while spill files exist");
        rep.obligation("cancellation-on-both-runtimes", rep.get_count("cancel_cases:vtq") >= 20 && rep.get_count("cancel_cases:mt") >= 20, "cancellation cases on the VTQ and the multi-thread runtime");
        rep.obligation("drop-after-error", rep.get_count("drops_after_error") >= 10, "drop after an injected source error");
        rep.obligation("both-runtimes", rep.get_count("drop_points:vtq") > 100 && rep.get_count("drop_points:mt2") + rep.get_count("drop_points:mt3") + rep.get_count("drop_points:mt4") > 100, "VTQ and multi-thread runtimes both exercised");
        let fired = rep.seen_count("cancel_shapes_timed_out");
        rep.obligation("cancellation-shapes", fired >= 22, &format!("the timeout must take effect in >= 22 endless-source shapes (seen {fired})"));
    }
    rep.set_exhaustive(false);
    if rep.get_count("wall_clock_cases") > 25 {
        rep.inconclusive("more than 25 multi-thread cases hit their wall-clock guard (machine too loaded to decide them)");
    }
    rep.finish()
}

fn main() {
    let args = Args::parse();
    vcommon::par::quiet_panics();
    std::process::exit(run(&args));
}
