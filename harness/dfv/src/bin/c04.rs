//! C04 — expression simplification never changes an expression's value.
//!
//! For every (templated or generated) well-typed expression the original and the simplified form
//! are evaluated by the SAME evaluator (`create_physical_expr(..).evaluate(batch)`) on an
//! exhaustive small-domain table + random rows; rows on which the original raises an error are not
//! compared. Simplifiers observed: `ExprSimplifier::simplify`, `ExprSimplifier::with_guarantees`,
//! `rewrite_with_guarantees` (rows restricted to the guarantees), `PhysicalExprSimplifier` and
//! `simplify_predicates` (filter truth of the conjunction).

use arrow::datatypes::DataType;
use datafusion_common::ScalarValue;
use datafusion_expr::expr_rewriter::rewrite_with_guarantees;
use datafusion_expr::interval_arithmetic::{Interval, NullableInterval};
use datafusion_expr::simplify::SimplifyContext;
use datafusion_expr::{Expr, Operator, col, lit};
use datafusion_optimizer::simplify_expressions::{ExprSimplifier, simplify_predicates};
use datafusion_physical_expr::simplifier::PhysicalExprSimplifier;
use dfv::exprgen::*;
use std::cmp::Ordering;
use vcommon::{Args, Report, Rng, fp_mix, fp_str, json};

const CMP_OPS8: [Operator; 8] =
    [Operator::Eq, Operator::NotEq, Operator::Lt, Operator::LtEq, Operator::Gt, Operator::GtEq, Operator::IsDistinctFrom, Operator::IsNotDistinctFrom];

fn c(n: &str) -> Expr {
    col(n)
}

fn not(e: Expr) -> Expr {
    Expr::Not(Box::new(e))
}

fn and(a: Expr, b: Expr) -> Expr {
    bin(a, Operator::And, b)
}

fn or(a: Expr, b: Expr) -> Expr {
    bin(a, Operator::Or, b)
}

/// typed literal `v` of the column's type
fn tl(env: &Env, colname: &str, v: i128) -> Expr {
    let dt = &env.cols[env.idx(colname)].dt;
    match dt {
        DataType::Float64 => lit(v as f64),
        DataType::Decimal128(_, s) => lit_v(dt, &V::I(v * 10i128.pow(*s as u32))),
        _ => lit_v(dt, &V::I(v)),
    }
}

/// Targeted templates: (family tag, un-coerced expression)
fn templates(env: &Env) -> Vec<(String, Expr)> {
    let mut out: Vec<(String, Expr)> = vec![];
    let mut add = |tag: &str, e: Expr| out.push((tag.to_string(), e));
    let num_cols = ["i8", "i32", "i32n", "i64", "u8", "f64", "dec", "decn"];
    let all_cols: Vec<String> = env.cols.iter().map(|c| c.name.clone()).collect();
    let bools = [c("b"), c("b2"), c("bn"), c("i32").gt(lit(1)), c("i32n").lt_eq(lit(0)), c("s").eq(lit("a"))];

    // ---- comparison / boolean algebra with NULL literals
    for name in &all_cols {
        let dt = env.cols[env.idx(name)].dt.clone();
        for op in CMP_OPS8 {
            add("null-literal", bin(c(name), op, null_of(&dt)));
            add("null-literal", bin(null_of(&dt), op, c(name)));
            add("null-literal", bin(c(name), op, Expr::Literal(ScalarValue::Null, None)));
        }
        add("null-literal", e_in(c(name), vec![null_of(&dt)], false));
        add("null-literal", e_in(null_of(&dt), vec![c(name)], false));
        add("null-literal", e_between(c(name), false, null_of(&dt), null_of(&dt)));
    }
    for n in num_cols {
        let dt = env.cols[env.idx(n)].dt.clone();
        for op in [Operator::Plus, Operator::Minus, Operator::Multiply, Operator::Divide, Operator::Modulo] {
            add("null-literal", bin(c(n), op, null_of(&dt)));
            add("null-literal", bin(null_of(&dt), op, c(n)));
        }
    }
    for b in &bools {
        for l in [lit(true), lit(false), null_of(&DataType::Boolean)] {
            for op in [Operator::And, Operator::Or, Operator::Eq, Operator::NotEq, Operator::IsDistinctFrom, Operator::IsNotDistinctFrom] {
                add("bool-literal-algebra", bin(b.clone(), op, l.clone()));
                add("bool-literal-algebra", bin(l.clone(), op, b.clone()));
            }
        }
    }
    add("bool-literal-algebra", and(null_of(&DataType::Boolean), null_of(&DataType::Boolean)));
    add("bool-literal-algebra", or(null_of(&DataType::Boolean), null_of(&DataType::Boolean)));

    // ---- x = x, x != x, ...
    for name in &all_cols {
        for op in CMP_OPS8 {
            add("self-comparison", bin(c(name), op, c(name)));
        }
    }
    for n in ["i32", "i32n", "f64", "s"] {
        for op in CMP_OPS8 {
            let e = if n == "s" { f_upper(c(n)) } else { bin(c(n), Operator::Plus, tl(env, n, 1)) };
            add("self-comparison", bin(e.clone(), op, e));
        }
    }

    // ---- arithmetic identities
    for n in num_cols {
        let x = || c(n);
        let forms: Vec<Expr> = vec![
            bin(x(), Operator::Divide, x()),
            bin(x(), Operator::Multiply, tl(env, n, 0)),
            bin(tl(env, n, 0), Operator::Multiply, x()),
            bin(x(), Operator::Multiply, tl(env, n, 1)),
            bin(tl(env, n, 1), Operator::Multiply, x()),
            bin(x(), Operator::Divide, tl(env, n, 1)),
            bin(x(), Operator::Plus, tl(env, n, 0)),
            bin(tl(env, n, 0), Operator::Plus, x()),
            bin(x(), Operator::Minus, tl(env, n, 0)),
            bin(x(), Operator::Minus, x()),
            bin(x(), Operator::Modulo, tl(env, n, 1)),
            bin(x(), Operator::Modulo, x()),
            bin(tl(env, n, 0), Operator::Divide, x()),
            bin(tl(env, n, 0), Operator::Minus, x()),
            // literals of another numeric type: the identity needs a cast to the coerced type
            bin(x(), Operator::Multiply, lit(1i64)),
            bin(x(), Operator::Multiply, lit(0i64)),
            bin(x(), Operator::Divide, lit(1i64)),
            bin(x(), Operator::Multiply, lit(1.0f64)),
            bin(x(), Operator::Divide, lit(1.0f64)),
            bin(x(), Operator::Modulo, lit(1i64)),
            bin(x(), Operator::Plus, lit(0i64)),
            bin(x(), Operator::Multiply, lit(ScalarValue::Decimal128(Some(100), 10, 2))),
            bin(x(), Operator::Multiply, lit(ScalarValue::Decimal128(Some(0), 10, 2))),
            bin(x(), Operator::Divide, lit(ScalarValue::Decimal128(Some(100), 10, 2))),
            bin(bin(x(), Operator::Plus, tl(env, n, 1)), Operator::Plus, tl(env, n, 2)),
            bin(tl(env, n, 1), Operator::Plus, bin(tl(env, n, 2), Operator::Plus, x())),
        ];
        for f in forms {
            add("arith-identity", f);
        }
        if n != "u8" {
            add("double-negation", Expr::Negative(Box::new(Expr::Negative(Box::new(x())))));
            add("double-negation", Expr::Negative(Box::new(bin(x(), Operator::Plus, tl(env, n, 1)))));
        }
    }
    // bitwise identities
    for n in ["i8", "i32", "i32n", "i64", "u8"] {
        let x = || c(n);
        for op in [Operator::BitwiseAnd, Operator::BitwiseOr, Operator::BitwiseXor, Operator::BitwiseShiftLeft, Operator::BitwiseShiftRight] {
            add("bitwise-identity", bin(x(), op, tl(env, n, 0)));
            add("bitwise-identity", bin(tl(env, n, 0), op, x()));
            add("bitwise-identity", bin(x(), op, x()));
            if n != "u8" {
                add("bitwise-identity", bin(Expr::Negative(Box::new(x())), op, x()));
                add("bitwise-identity", bin(x(), op, Expr::Negative(Box::new(x()))));
            }
            add("bitwise-identity", bin(bin(x(), op, tl(env, n, 5)), op, x()));
            add("bitwise-identity", bin(x(), op, bin(tl(env, n, 5), op, x())));
        }
        add("bitwise-identity", bin(x(), Operator::BitwiseAnd, bin(x(), Operator::BitwiseOr, tl(env, n, 3))));
        add("bitwise-identity", bin(x(), Operator::BitwiseOr, bin(x(), Operator::BitwiseAnd, tl(env, n, 3))));
        add("bitwise-identity", bin(bin(x(), Operator::BitwiseXor, tl(env, n, 3)), Operator::BitwiseXor, bin(x(), Operator::BitwiseXor, tl(env, n, 6))));
    }

    // ---- negation of comparisons / De Morgan / double negation
    for (l, r) in [
        (c("i32"), c("i32b")),
        (c("i32"), lit(1)),
        (c("i32n"), lit(0)),
        (c("f64"), c("f64b")),
        (c("f64"), lit(f64::NAN)),
        (c("f64"), lit(0.0f64)),
        (c("s"), c("s2")),
        (c("s"), lit("a")),
        (c("b"), c("b2")),
        (c("dec"), c("decn")),
        (c("d32"), lit(ScalarValue::Date32(Some(D_2024 as i32)))),
        (c("u8"), lit(0u8)),
    ] {
        for op in CMP_OPS8 {
            add("negate-comparison", not(bin(l.clone(), op, r.clone())));
            add("double-negation", not(not(bin(l.clone(), op, r.clone()))));
        }
    }
    for a in &bools {
        add("double-negation", not(not(a.clone())));
        add("negate-comparison", not(Expr::IsNull(Box::new(a.clone()))));
        add("negate-comparison", not(Expr::IsNotNull(Box::new(a.clone()))));
        for k in 0..6 {
            let e = Box::new(a.clone());
            let is = match k {
                0 => Expr::IsTrue(e),
                1 => Expr::IsFalse(e),
                2 => Expr::IsUnknown(e),
                3 => Expr::IsNotTrue(e),
                4 => Expr::IsNotFalse(e),
                _ => Expr::IsNotUnknown(e),
            };
            add("is-tests", is.clone());
            add("is-tests", not(is));
        }
        for b in &bools {
            add("negate-comparison", not(and(a.clone(), b.clone())));
            add("negate-comparison", not(or(a.clone(), b.clone())));
            add("negate-comparison", not(and(a.clone(), not(b.clone()))));
            // boolean algebra
            add("boolean-algebra", or(a.clone(), not(b.clone())));
            add("boolean-algebra", and(a.clone(), not(b.clone())));
            add("boolean-algebra", or(not(a.clone()), b.clone()));
            add("boolean-algebra", or(and(a.clone(), b.clone()), a.clone()));
            add("boolean-algebra", and(a.clone(), or(a.clone(), b.clone())));
            add("boolean-algebra", or(a.clone(), and(b.clone(), a.clone())));
            add("boolean-algebra", and(or(b.clone(), a.clone()), a.clone()));
            add("boolean-algebra", or(and(a.clone(), b.clone()), and(a.clone(), c("b2"))));
            add("boolean-algebra", or(and(a.clone(), b.clone()), and(c("b2"), a.clone())));
            add("boolean-algebra", and(and(a.clone(), b.clone()), a.clone()));
            add("boolean-algebra", or(or(a.clone(), b.clone()), a.clone()));
        }
    }
    add("negate-comparison", not(e_in(c("i32"), vec![lit(1), lit(2), null_of(&DataType::Int32)], false)));
    add("negate-comparison", not(e_in(c("i32"), vec![lit(1), lit(2)], true)));
    add("negate-comparison", not(e_between(c("i32"), false, lit(0), lit(5))));
    add("negate-comparison", not(e_between(c("i32"), true, lit(0), lit(5))));
    add("negate-comparison", not(e_like(c("s"), lit("a%"), false, false)));
    add("negate-comparison", not(e_like(c("s"), lit("a%"), true, true)));

    // ---- IN list <-> OR chains, in-list set algebra
    for n in ["i8", "i32", "i32n", "i64", "u8", "f64", "s", "sn", "dec", "d32", "b"] {
        let dt = env.cols[env.idx(n)].dt.clone();
        let dom: Vec<V> = domain(&dt, false);
        let l = |k: usize| lit_v(&dt, &dom[k % dom.len()]);
        let x = || c(n);
        add("inlist-or", or(or(x().eq(l(0)), x().eq(l(3))), x().eq(l(4))));
        add("inlist-or", or(x().eq(l(0)), x().eq(null_of(&dt))));
        add("inlist-or", or(l(0).eq(x()), x().eq(l(0))));
        add("inlist-or", and(x().not_eq(l(0)), x().not_eq(l(3))));
        add("inlist-or", and(x().eq(l(0)), x().not_eq(l(3))));
        add("inlist-or", and(x().not_eq(l(3)), x().eq(l(0))));
        add("inlist-or", and(x().eq(l(0)), x().not_eq(l(0))));
        add("inlist-or", and(x().gt_eq(l(3)), x().lt_eq(l(3))));
        add("inlist-or", and(x().lt_eq(l(3)), x().gt_eq(l(3))));
        for negated in [false, true] {
            add("inlist-or", e_in(x(), vec![], negated));
            add("inlist-or", e_in(null_of(&dt), vec![l(0), l(1)], negated));
            for k in [1usize, 2, 3, 4, 6] {
                let mut list: Vec<Expr> = (0..k).map(&l).collect();
                add("inlist-or", e_in(x(), list.clone(), negated));
                list.push(null_of(&dt));
                add("inlist-or", e_in(x(), list.clone(), negated));
                list.push(l(0));
                add("inlist-or", e_in(x(), list, negated));
            }
            add("inlist-or", e_in(l(3), vec![x(), l(0)], negated));
            add("inlist-or", e_in(x(), vec![x()], negated));
        }
        for (n1, n2) in [(false, false), (true, true), (false, true), (true, false)] {
            let a = e_in(x(), vec![l(0), l(3), l(4)], n1);
            let b = e_in(x(), vec![l(3), l(4), l(5), null_of(&dt)], n2);
            let d = e_in(x(), vec![l(5), l(6)], n2);
            add("inlist-set-algebra", and(a.clone(), b.clone()));
            add("inlist-set-algebra", or(a.clone(), b.clone()));
            add("inlist-set-algebra", and(a.clone(), d.clone()));
            add("inlist-set-algebra", or(a.clone(), d.clone()));
            add("inlist-set-algebra", or(a.clone(), x().eq(l(5))));
        }
    }

    // ---- cast unwrapping at type boundaries
    let narrow: [(&str, i128, i128); 5] = [("i8", -128, 127), ("u8", 0, 255), ("i32", i32::MIN as i128, i32::MAX as i128), ("i32n", i32::MIN as i128, i32::MAX as i128), ("d32", i32::MIN as i128, i32::MAX as i128)];
    for (n, lo, hi) in narrow {
        for (wide, wname) in [(DataType::Int64, "i64"), (DataType::Int32, "i32"), (DataType::Int16, "i16")] {
            if n == "d32" && wname != "i64" {
                continue;
            }
            if (n == "i32" || n == "i32n") && wname == "i32" {
                continue;
            }
            for b in [lo - 1, lo, lo + 1, -1, 0, 1, hi - 1, hi, hi + 1] {
                let l = match wname {
                    "i64" => lit(b as i64),
                    "i32" => {
                        if b < i32::MIN as i128 || b > i32::MAX as i128 {
                            continue;
                        }
                        lit(b as i32)
                    }
                    _ => {
                        if b < i16::MIN as i128 || b > i16::MAX as i128 {
                            continue;
                        }
                        lit(b as i16)
                    }
                };
                for op in CMP_OPS8 {
                    add("unwrap-cast", bin(e_cast(c(n), wide.clone()), op, l.clone()));
                    if op == Operator::Lt || op == Operator::Eq {
                        add("unwrap-cast", bin(l.clone(), op, e_cast(c(n), wide.clone())));
                        add("unwrap-cast", bin(e_try_cast(c(n), wide.clone()), op, l.clone()));
                    }
                }
            }
            let list: Vec<Expr> = [lo - 1, lo, 0, hi, hi + 1].iter().filter_map(|b| if wname == "i64" { Some(lit(*b as i64)) } else { None }).collect();
            if !list.is_empty() {
                add("unwrap-cast", e_in(e_cast(c(n), wide.clone()), list.clone(), false));
                add("unwrap-cast", e_in(e_cast(c(n), wide.clone()), list[1..4].to_vec(), true));
                add("unwrap-cast", e_in(e_try_cast(c(n), wide.clone()), list[1..4].to_vec(), false));
            }
        }
    }
    // narrowing casts (the cast itself can fail or lose information)
    for op in CMP_OPS8 {
        for l in [-129i64, -128, 0, 16, 127, 128] {
            add("unwrap-cast-narrowing", bin(e_cast(c("i64"), DataType::Int8), op, lit(l.clamp(-128, 127) as i8)));
            add("unwrap-cast-narrowing", bin(e_try_cast(c("i64"), DataType::Int8), op, lit(l.clamp(-128, 127) as i8)));
            add("unwrap-cast-narrowing", bin(e_try_cast(c("i32"), DataType::Int8), op, lit(l.clamp(-128, 127) as i8)));
            add("unwrap-cast-narrowing", bin(e_try_cast(c("i32"), DataType::UInt8), op, lit(l.clamp(0, 255) as u8)));
            add("unwrap-cast-narrowing", bin(e_cast(c("i8"), DataType::UInt8), op, lit(l.clamp(0, 255) as u8)));
            add("unwrap-cast-narrowing", bin(e_try_cast(c("i8"), DataType::UInt8), op, lit(l.clamp(0, 255) as u8)));
        }
        // decimal <-> integer
        for v in [0i128, 500, 540, 550, 560, -540, 100] {
            add("unwrap-cast-decimal", bin(e_cast(c("i32"), DEC), op, lit(ScalarValue::Decimal128(Some(v), 10, 2))));
            add("unwrap-cast-decimal", bin(e_cast(c("dec"), DataType::Decimal128(12, 4)), op, lit(ScalarValue::Decimal128(Some(v * 100), 12, 4))));
            add("unwrap-cast-decimal", bin(e_cast(c("dec"), DataType::Decimal128(12, 4)), op, lit(ScalarValue::Decimal128(Some(v * 100 + 1), 12, 4))));
            add("unwrap-cast-decimal", bin(e_cast(c("dec"), DataType::Decimal128(8, 0)), op, lit(ScalarValue::Decimal128(Some(v / 100), 8, 0))));
        }
        for v in [0i64, 5, 6, -5, 1] {
            add("unwrap-cast-decimal", bin(e_cast(c("dec"), DataType::Int64), op, lit(v)));
            add("unwrap-cast-decimal", bin(e_try_cast(c("dec"), DataType::Int32), op, lit(v as i32)));
            add("unwrap-cast-decimal", bin(e_cast(c("decn"), DataType::Int64), op, lit(v)));
        }
        // lossy float casts
        for f in [0.0f64, -0.0, 1.0, 1.5, 127.0, 127.5, 128.0, -128.5, 9007199254740993.0, f64::NAN, f64::INFINITY] {
            add("unwrap-cast-float", bin(e_cast(c("i8"), DataType::Float64), op, lit(f)));
            add("unwrap-cast-float", bin(e_cast(c("i64"), DataType::Float64), op, lit(f)));
            add("unwrap-cast-float", bin(e_cast(c("f64"), DataType::Int64), op, lit(f as i64)));
            add("unwrap-cast-float", bin(e_cast(c("i32"), DataType::Float32), op, lit(f as f32)));
        }
        // strings
        for s in ["123", "0123", "+1", "-0", " 1", "1", "0", "-128", "128", "abc", ""] {
            if matches!(op, Operator::Eq | Operator::NotEq | Operator::Lt | Operator::IsDistinctFrom) {
                add("unwrap-cast-string", bin(e_cast(c("i8"), DataType::Utf8), op, lit(s)));
                add("unwrap-cast-string", bin(e_cast(c("i32"), DataType::Utf8), op, lit(s)));
                add("unwrap-cast-string", bin(e_cast(c("u8"), DataType::Utf8View), op, lit(ScalarValue::Utf8View(Some(s.to_string())))));
            }
        }
        add("unwrap-cast-string", bin(e_cast(c("s"), DataType::LargeUtf8), op, lit(ScalarValue::LargeUtf8(Some("a".into())))));
        add("unwrap-cast-string", bin(e_cast(c("s"), DataType::Utf8View), op, lit(ScalarValue::Utf8View(Some("a".into())))));
        add("unwrap-cast-string", bin(e_cast(c("s"), DataType::Dictionary(Box::new(DataType::Int32), Box::new(DataType::Utf8))), op, lit("a")));
        // temporal
        let day = D_2024 as i64 * 86_400;
        for d in [0i64, 1, -1] {
            add("unwrap-cast-temporal", bin(e_cast(c("d32"), TS), op, lit(ScalarValue::TimestampNanosecond(Some((day + d) * 1_000_000_000), None))));
            add("unwrap-cast-temporal", bin(e_cast(c("ts"), DataType::Date32), op, lit(ScalarValue::Date32(Some(D_2024 as i32 + d as i32)))));
            add(
                "unwrap-cast-temporal",
                bin(e_cast(c("ts"), DataType::Timestamp(arrow::datatypes::TimeUnit::Second, None)), op, lit(ScalarValue::TimestampSecond(Some(day + d), None))),
            );
            add(
                "unwrap-cast-temporal",
                bin(e_cast(c("ts"), DataType::Timestamp(arrow::datatypes::TimeUnit::Millisecond, None)), op, lit(ScalarValue::TimestampMillisecond(Some(day * 1000 + d), None))),
            );
            add("unwrap-cast-temporal", bin(e_cast(c("d32"), DataType::Date64), op, lit(ScalarValue::Date64(Some((D_2024 as i64) * 86_400_000 + d)))));
            add("unwrap-cast-temporal", bin(e_cast(c("ts"), DataType::Int64), op, lit((day + d) * 1_000_000_000)));
            add("unwrap-cast-temporal", bin(e_cast(c("d32"), DataType::Int32), op, lit(D_2024 as i32 + d as i32)));
        }
    }

    // ---- preimage rewrites (date_part year, floor)
    for op in CMP_OPS8 {
        for y in [1969, 1970, 2023, 2024, 2025] {
            for part in ["year", "YEAR"] {
                add("preimage-date-part", bin(f_date_part(part, c("d32")), op, lit(y)));
                add("preimage-date-part", bin(f_date_part(part, c("ts")), op, lit(y)));
                add("preimage-date-part", bin(lit(y), op, f_date_part(part, c("ts"))));
            }
            add("preimage-date-part", bin(f_date_part("month", c("d32")), op, lit(y % 12 + 1)));
        }
        for f in [0.0f64, 1.0, -1.0, 1.5, 2.0, 9007199254740992.0, f64::NAN, f64::INFINITY] {
            add("preimage-floor", bin(f_floor(c("f64")), op, lit(f)));
            add("preimage-floor", bin(lit(f), op, f_floor(c("f64"))));
        }
        for v in [0i128, 100, 150, 500, -100] {
            add("preimage-floor", bin(f_floor(c("dec")), op, lit(ScalarValue::Decimal128(Some(v), 10, 2))));
            add("preimage-floor", bin(f_floor(c("dec")), op, lit(ScalarValue::Decimal128(Some(v / 100), 10, 0))));
        }
    }
    for negated in [false, true] {
        add("preimage-date-part", e_in(f_date_part("year", c("d32")), vec![lit(2023), lit(2024)], negated));
        add("preimage-date-part", e_in(f_date_part("year", c("ts")), vec![lit(2024), lit(2025), lit(1970)], negated));
        add("preimage-floor", e_in(f_floor(c("f64")), vec![lit(0.0f64), lit(1.0f64)], negated));
    }
    for part in ["day", "month", "year", "hour", "week", "quarter", "minute"] {
        let d = ScalarValue::TimestampNanosecond(Some(D_2024 as i64 * 86_400 * 1_000_000_000), None);
        for op in [Operator::Eq, Operator::Lt, Operator::GtEq] {
            add("date-trunc", bin(f_date_trunc(part, c("ts")), op, lit(d.clone())));
            add("date-trunc", bin(f_date_trunc(part, e_cast(c("d32"), TS)), op, lit(d.clone())));
        }
        add("date-trunc", bin(f_date_trunc(part, f_date_trunc("month", c("ts"))), Operator::Eq, f_date_trunc(part, c("ts"))));
        add("const-fold", bin(f_date_trunc(part, lit(ScalarValue::TimestampNanosecond(Some(1_718_454_600_123_456_789), None))), Operator::GtEq, c("ts")));
    }

    // ---- LIKE / regex to equality / prefix forms
    for scol in ["s", "sn"] {
        for p in PATTERNS {
            for (negated, ci) in [(false, false), (true, false), (false, true), (true, true)] {
                add("like", e_like(c(scol), lit(p), negated, ci));
            }
            add("like", e_like(c(scol), lit(ScalarValue::Utf8View(Some(p.to_string()))), false, false));
            add("like", e_like(f_upper(c(scol)), lit(p), false, false));
        }
        add("like", e_like(c(scol), null_of(&DataType::Utf8), false, false));
        add("like", e_like(c(scol), c("s2"), false, false));
        add("like", e_like(null_of(&DataType::Utf8), lit("%"), false, false));
        for r in REGEXES {
            for op in [Operator::RegexMatch, Operator::RegexNotMatch, Operator::RegexIMatch, Operator::RegexNotIMatch] {
                add("regex", bin(c(scol), op, lit(r)));
            }
        }
        for r in ["^(a|b|ab)$", "^(a|b|ab|A|%)$", "a|^b", "^a$|^b$|^ab$|^A$", "^a$|^b$|^ab$|^A$|^_$", "^a_$", "^%$", "^(%|_)$", ".*a", "a.*", "^a.*b$", "(?i)a", "^[a]$"] {
            // all four operators: the case-insensitive ones are rewritten to ILIKE, where a literal `_` / `%`
            // of an anchored pattern would turn into a wildcard
            for op in [Operator::RegexMatch, Operator::RegexNotMatch, Operator::RegexIMatch, Operator::RegexNotIMatch] {
                add("regex", bin(c(scol), op, lit(r)));
            }
        }
        for p in ["a", "", "%", "a%", "_", "ab", "a\\", "\\"] {
            add("starts-with", f_starts_with(c(scol), lit(p)));
        }
        add("starts-with", f_starts_with(c(scol), c("s2")));
        add("starts-with", f_starts_with(c(scol), null_of(&DataType::Utf8)));
        for p in ["a", "(a|b)", "a%", "_", "%"] {
            add("similar-to", e_similar(c(scol), lit(p), false));
            add("similar-to", e_similar(c(scol), lit(p), true));
        }
        add("concat", f_concat(vec![lit("a"), lit("b"), c(scol)]).eq(lit("aba")));
        add("concat", f_concat(vec![c(scol), lit("a"), lit("b"), null_of(&DataType::Utf8), lit("c")]).eq(lit("aabc")));
        add("concat", f_concat(vec![lit(""), c(scol)]).eq(c(scol)));
        add("concat", bin(bin(lit("a"), Operator::StringConcat, lit("b")), Operator::StringConcat, c(scol)).eq(lit("aba")));
        add("concat", bin(c(scol), Operator::StringConcat, null_of(&DataType::Utf8)).is_null());
    }

    // ---- CASE folding
    let xs = [c("i32"), c("i32n"), c("s"), c("f64")];
    for a in &bools {
        add("case-folding", e_case(None, vec![(a.clone(), lit(true))], Some(lit(false))));
        add("case-folding", e_case(None, vec![(a.clone(), lit(false))], Some(lit(true))));
        add("case-folding", e_case(None, vec![(a.clone(), lit(true))], None));
        add("case-folding", e_case(None, vec![(a.clone(), c("b2"))], Some(c("bn"))));
        add("case-folding", e_case(None, vec![(a.clone(), c("b2")), (c("b"), lit(true))], None));
        add("case-folding", e_case(None, vec![(a.clone(), lit(true)), (c("b2"), lit(false)), (c("bn"), lit(true))], Some(null_of(&DataType::Boolean))));
        add("case-folding", e_case(None, vec![(a.clone(), lit(true)), (c("b2"), lit(true)), (c("bn"), lit(false)), (c("b"), lit(true))], Some(lit(true))));
        add("case-folding", e_case(None, vec![(a.clone(), lit(1)), (c("b2"), lit(2))], Some(lit(3))).eq(lit(2)));
        add("case-folding", e_case(None, vec![(a.clone(), lit(1)), (c("b2"), null_of(&DataType::Int32))], None).not_eq(lit(1)));
        add("case-folding", e_case(None, vec![(a.clone(), lit("x")), (c("b2"), lit("y"))], Some(lit("z"))).eq(lit("y")));
        for x in &xs {
            add("case-folding", e_case(None, vec![(lit(true), x.clone())], Some(x.clone())));
            add("case-folding", e_case(None, vec![(lit(false), x.clone())], None));
            add("case-folding", e_case(None, vec![(lit(false), x.clone())], Some(x.clone())));
            add("case-folding", e_case(None, vec![(null_of(&DataType::Boolean), x.clone())], Some(x.clone())));
            add("case-folding", e_case(None, vec![(a.clone(), x.clone()), (lit(true), x.clone())], None));
            add("case-folding", e_case(None, vec![(a.clone(), x.clone()), (lit(false), x.clone()), (c("b2"), x.clone())], None));
            add("case-folding", e_case(None, vec![(a.clone(), x.clone())], Some(x.clone())));
        }
    }
    for n in ["i32", "i8", "s", "b", "f64"] {
        let dt = env.cols[env.idx(n)].dt.clone();
        let dom = domain(&dt, false);
        let l = |k: usize| lit_v(&dt, &dom[k % dom.len()]);
        add("case-folding", e_case(Some(c(n)), vec![(l(0), lit("a")), (l(3), lit("b"))], Some(lit("c"))));
        add("case-folding", e_case(Some(c(n)), vec![(l(0), lit("a")), (l(0), lit("b")), (null_of(&dt), lit("n"))], None));
        add("case-folding", e_case(Some(c(n)), vec![(c(n), lit(1))], Some(lit(0))));
        add("case-folding", e_case(Some(l(3)), vec![(l(3), lit(1)), (c(n), lit(2))], Some(lit(0))));
        add("case-folding", e_case(Some(null_of(&dt)), vec![(c(n), lit(1))], Some(lit(0))));
    }

    // ---- coalesce / nullif folding
    for n in ["i32", "i32n", "s", "sn", "f64", "b", "dec", "d32"] {
        let dt = env.cols[env.idx(n)].dt.clone();
        let dom = domain(&dt, false);
        let l = |k: usize| lit_v(&dt, &dom[k % dom.len()]);
        let x = || c(n);
        add("coalesce", f_coalesce(vec![x()]));
        add("coalesce", f_coalesce(vec![null_of(&dt), x()]));
        add("coalesce", f_coalesce(vec![x(), l(3)]));
        add("coalesce", f_coalesce(vec![l(3), x()]));
        add("coalesce", f_coalesce(vec![x(), null_of(&dt), l(4)]));
        add("coalesce", f_coalesce(vec![x(), x()]));
        add("coalesce", f_coalesce(vec![null_of(&dt), null_of(&dt)]));
        add("coalesce", f_coalesce(vec![x(), l(3)]).eq(l(3)));
        add("nullif", f_nullif(x(), x()));
        add("nullif", f_nullif(x(), null_of(&dt)));
        add("nullif", f_nullif(null_of(&dt), x()));
        add("nullif", f_nullif(l(3), l(3)));
        add("nullif", f_nullif(l(3), l(4)));
        add("nullif", f_nullif(x(), l(3)));
        add("nullif", f_nullif(x(), l(3)).is_null());
        add("nullif", f_coalesce(vec![f_nullif(x(), l(3)), l(4)]));
    }

    // ---- IS [NOT] DISTINCT FROM
    for a in &bools {
        for l in [lit(true), lit(false), null_of(&DataType::Boolean)] {
            add("is-distinct", bin(a.clone(), Operator::IsNotDistinctFrom, l.clone()));
            add("is-distinct", bin(a.clone(), Operator::IsDistinctFrom, l.clone()));
            add("is-distinct", not(bin(a.clone(), Operator::IsNotDistinctFrom, l.clone())));
        }
    }

    // ---- BETWEEN
    for n in ["i8", "i32", "i32n", "f64", "s", "dec", "d32"] {
        let dt = env.cols[env.idx(n)].dt.clone();
        let dom = domain(&dt, false);
        let l = |k: usize| lit_v(&dt, &dom[k % dom.len()]);
        for negated in [false, true] {
            add("between", e_between(c(n), negated, l(2), l(5)));
            add("between", e_between(c(n), negated, l(5), l(2)));
            add("between", e_between(c(n), negated, l(3), l(3)));
            add("between", e_between(c(n), negated, null_of(&dt), l(4)));
            add("between", e_between(c(n), negated, l(2), null_of(&dt)));
            add("between", e_between(l(3), negated, c(n), l(5)));
        }
    }

    // ---- constant folding
    add("const-fold", bin(lit(1), Operator::Plus, lit(2)).eq(c("i32")));
    add("const-fold", bin(c("i32"), Operator::Plus, bin(lit(1), Operator::Plus, lit(2))));
    add("const-fold", bin(lit(i32::MAX), Operator::Plus, lit(1)).lt(c("i32")));
    add("const-fold", bin(lit(i64::MIN), Operator::Minus, lit(1i64)).gt(c("i64")));
    add("const-fold", bin(lit(i8::MIN), Operator::Multiply, lit(-1i8)).eq(c("i8")));
    add("const-fold", Expr::Negative(Box::new(lit(i32::MIN))).eq(c("i32")));
    add("const-fold", bin(lit(1), Operator::Divide, lit(0)).eq(c("i32")));
    add("const-fold", or(c("b"), bin(lit(1), Operator::Divide, lit(0)).eq(lit(1))));
    add("const-fold", e_case(None, vec![(c("b"), bin(lit(1), Operator::Divide, lit(0)))], Some(lit(7))));
    add("const-fold", e_case(None, vec![(lit(false), bin(lit(1), Operator::Divide, lit(0)))], Some(c("i32"))));
    add("const-fold", f_coalesce(vec![c("i32"), bin(lit(1), Operator::Divide, lit(0))]));
    add("const-fold", e_cast(lit("12"), DataType::Int32).eq(c("i32")));
    add("const-fold", e_try_cast(lit("abc"), DataType::Int32).is_null().and(c("b")));
    add("const-fold", e_cast(lit(300i64), DataType::Int32).eq(e_cast(c("i8"), DataType::Int32)));
    add("const-fold", e_try_cast(lit(300i64), DataType::Int8).eq(c("i8")));
    add("const-fold", bin(lit(1.5f64), Operator::Multiply, lit(2.0f64)).eq(c("f64")));
    add("const-fold", bin(lit(0.0f64), Operator::Divide, lit(0.0f64)).eq(c("f64")));
    add("const-fold", lit(-0.0f64).eq(c("f64")));
    add("const-fold", bin(lit(-0.0f64), Operator::Plus, lit(0.0f64)).eq(c("f64")));
    add("const-fold", f_upper(lit("ab")).eq(c("s")));
    add("const-fold", f_length(lit("ab")).eq(c("i32")));
    add("const-fold", f_abs(lit(-5)).eq(c("i32")));
    add("const-fold", e_in(lit(1), vec![lit(1), c("i32")], false));
    add("const-fold", e_in(lit(1), vec![lit(2), null_of(&DataType::Int32)], true));
    add("const-fold", e_like(lit("abc"), lit("a%"), false, false).and(c("b")));
    add("const-fold", Expr::IsNull(Box::new(lit(1))).or(c("b")));
    add("const-fold", bin(lit(ScalarValue::Date32(Some(D_2024 as i32))), Operator::Minus, lit(ScalarValue::Date32(Some(0)))).eq(c("i64")));
    out
}

/// conjunct lists for `simplify_predicates`
fn predicate_lists(env: &Env) -> Vec<Vec<Expr>> {
    let mut out = vec![];
    for n in ["i8", "i32", "i32n", "f64", "s", "dec", "d32"] {
        let dt = env.cols[env.idx(n)].dt.clone();
        let dom = domain(&dt, false);
        let l = |k: usize| lit_v(&dt, &dom[k % dom.len()]);
        let ops = [Operator::Gt, Operator::GtEq, Operator::Lt, Operator::LtEq, Operator::Eq];
        for (i, o1) in ops.iter().enumerate() {
            for (j, o2) in ops.iter().enumerate() {
                for (k1, k2) in [(3usize, 3usize), (3, 4), (4, 3), (2, 5)] {
                    // literal on the right / on the left / mixed
                    out.push(vec![bin(c(n), *o1, l(k1)), bin(c(n), *o2, l(k2))]);
                    out.push(vec![bin(l(k1), *o1, c(n)), bin(l(k2), *o2, c(n))]);
                    if (i + j) % 2 == 0 {
                        out.push(vec![bin(c(n), *o1, l(k1)), bin(l(k2), *o2, c(n))]);
                    }
                    if i == j {
                        out.push(vec![bin(c(n), *o1, l(k1)), bin(c(n), *o2, l(k2)), bin(c(n), *o1, l(5)), c("b")]);
                    }
                }
            }
        }
    }
    out
}

struct Orig {
    vals: Vec<Option<V>>,
    dt: Option<DataType>,
    from_reference: bool,
    /// reference values under bit-wise float membership (diagnostic), when `from_reference`
    alt_bitwise: Option<Vec<Option<V>>>,
}

fn flip(v: &V) -> V {
    match v {
        V::Null => V::B(true),
        V::B(b) => V::B(!b),
        V::I(i) => V::I(i + 1),
        V::F(f) => V::F(if f.is_nan() { 0.0 } else { f + 1.0 }),
        V::S(s) => V::S(format!("{s}#")),
    }
}

struct Ctx<'a> {
    rep: &'a Report,
    env: &'a Env,
    selftest: bool,
}

/// What the comparison of one simplified form needs to know.
struct Cmp<'a> {
    mode: &'a str,
    tag: &'a str,
    original: &'a Expr,
    simplified_txt: &'a str,
    rows: &'a [Vec<V>],
    inside: &'a [bool],
    refs: &'a [usize],
    guarantees: &'a [(usize, NullableInterval)],
    extra: vcommon::Json,
    case_no: u64,
    batch: Option<&'a arrow::record_batch::RecordBatch>,
}

/// at most 2 kept witnesses per signature (the report keeps 25 in total); every occurrence is counted
fn violate(rep: &Report, sig: &str, w: vcommon::Json) {
    let key = format!("violations_by_signature/{sig}");
    let classified = !(sig.contains("-changed/") || sig.contains("simplified-raises-error/") || sig.contains("not-plannable/") || sig.contains("/panic"));
    if rep.get_count(&key) < if classified { 1 } else { 3 } {
        rep.violation(sig, w);
    } else {
        rep.count("violations_not_kept(same signature)", 1);
    }
    rep.count(&key, 1);
}

fn expr_has(e: &Expr, f: impl Fn(&Expr) -> bool) -> bool {
    use datafusion_common::tree_node::TreeNode;
    e.exists(|n| Ok(f(n))).unwrap_or(false)
}

fn is_lit_or_cast_lit(e: &Expr) -> bool {
    match e {
        Expr::Literal(..) => true,
        Expr::Cast(c) => matches!(c.expr.as_ref(), Expr::Literal(..)),
        _ => false,
    }
}

fn is_float_zero_lit(e: &Expr) -> bool {
    matches!(e, Expr::Literal(ScalarValue::Float64(Some(f)), _) if *f == 0.0) || matches!(e, Expr::Literal(ScalarValue::Float32(Some(f)), _) if *f == 0.0)
}

/// Root-cause key of a disagreement, when it can be keyed precisely (so that other violations still
/// surface under the family signature). `kind` is value / null-ness / error / data-type.
fn classify(cx: &Ctx, c: &Cmp, kind: &str, row_index: Option<usize>, err: Option<&str>) -> Option<&'static str> {
    let row: Option<&[V]> = row_index.map(|r| c.rows[r].as_slice());
    let env = cx.env;
    let ty = |e: &Expr| -> Option<DataType> {
        use datafusion_expr::ExprSchemable;
        e.get_type(env.df.as_ref()).ok()
    };
    if let Some(row) = row {
        // NullableInterval::single_value() answers Some(v) for `MaybeNull {[v, v]}`, so the rewriter folds
        // a column that may be NULL to the constant v
        for (ci, g) in c.guarantees {
            if let NullableInterval::MaybeNull { values } = g {
                if !values.lower().is_null() && values.lower() == values.upper() && row[*ci].is_null() {
                    return Some("guarantee-maybenull-single-value-folded");
                }
            }
        }
    }
    // rewrite_between: a NULL (or NaN, or guaranteed-NULL) bound is answered with a NULL literal of the operand's
    // type, or decided on a canonicalised interval; ExprSimplifier never reaches it (BETWEEN is expanded first)
    if c.mode == "rewrite_with_guarantees"
        && expr_has(c.original, |n| matches!(n, Expr::Between(_)))
        && (kind == "data-type" || c.simplified_txt.ends_with("(NULL)") || expr_has(c.original, |n| matches!(n, Expr::Between(b) if matches!(b.low.as_ref(), Expr::Literal(s, _) if s.is_null()) || matches!(b.high.as_ref(), Expr::Literal(s, _) if s.is_null()))))
    {
        return Some("guarantee-between-null-bound");
    }
    // rewrite_binary_expr folds literal <op> literal through interval arithmetic, which orders -0.0 < +0.0
    if (c.mode == "rewrite_with_guarantees" || c.mode == "with_guarantees") && kind != "data-type" && expr_has(c.original, is_float_zero_lit) && c.simplified_txt.contains("Boolean(") {
        let zero_in_row = row.is_some_and(|row| c.refs.iter().any(|&ci| matches!(&row[ci], V::F(f) if *f == 0.0)));
        if !zero_in_row && expr_has(c.original, |n| matches!(n, Expr::BinaryExpr(b) if is_float_zero_lit(&b.left) && is_float_zero_lit(&b.right))) {
            return Some("guarantee-float-zero-literals-ordered-by-interval");
        }
    }
    if kind == "not-plannable" && c.simplified_txt.contains("concat()") {
        return Some("concat-of-null-literals-folded-to-zero-arguments");
    }
    if kind == "error"
        && (err.is_some_and(|m| m.contains("Overflow happened on: - "))
            || (expr_has(c.original, |n| matches!(n, Expr::Negative(_)))
                && row.is_some_and(|row| c.refs.iter().any(|&ci| env.cols[ci].dt.is_signed_integer() && int_range(&env.cols[ci].dt).is_some_and(|(lo, _)| matches!(&row[ci], V::I(x) if *x == lo))))))
    {
        return Some("negative-of-min-scalar-raises-array-wraps");
    }
    // A * 0 -> the zero literal (its own decimal type, not the product's); A % 1 -> 0 for decimals with a fraction.
    // Both surface directly (value / data type) and downstream (typed kernels reject the operands, scales shift).
    let otxt = format!("{}", c.original);
    let fewer = |op: &str| otxt.matches(op).count() > c.simplified_txt.matches(op).count();
    let is_dec = |e: &Expr| ty(e).is_some_and(|t| matches!(t, DataType::Decimal128(_, _)));
    if fewer(" % ") && expr_has(c.original, |n| matches!(n, Expr::BinaryExpr(b) if b.op == Operator::Modulo && ty(&b.left).is_some_and(|t| matches!(t, DataType::Decimal128(_, s) if s > 0)) && !matches!(b.right.as_ref(), Expr::Column(_)))) {
        return Some("decimal-modulo-one-folded-to-zero");
    }
    // (an operand folded to zero by constant folding / guarantees counts like a literal zero: the product is
    // replaced by a zero literal of the operand's own decimal type)
    let zero_dec_literal = c.simplified_txt.contains("Decimal128(0.0") || c.simplified_txt.contains("Decimal128(0,") || c.simplified_txt.contains("Decimal128(0 ");
    if fewer(" * ") && expr_has(c.original, |n| matches!(n, Expr::BinaryExpr(b) if b.op == Operator::Multiply && is_dec(n) && (is_lit_or_cast_lit(&b.left) || is_lit_or_cast_lit(&b.right) || zero_dec_literal))) {
        return Some("decimal-multiply-by-zero-keeps-literal-type");
    }
    if expr_has(c.original, |n| {
        matches!(n, Expr::BinaryExpr(b) if matches!(b.op, Operator::BitwiseAnd | Operator::BitwiseOr | Operator::BitwiseXor) && (matches!(b.left.as_ref(), Expr::Negative(_)) || matches!(b.right.as_ref(), Expr::Negative(_))))
    }) {
        return Some("bitwise-rule-treats-arithmetic-negation-as-not");
    }
    // TRY_CAST(x AS narrower) <op> literal is unwrapped to x <op> literal: rows on which the TRY_CAST yields NULL change
    if kind != "data-type" && expr_has(c.original, |n| matches!(n, Expr::TryCast(_))) {
        if format!("{}", c.original).matches("TRY_CAST(").count() > c.simplified_txt.matches("TRY_CAST(").count() {
            return Some("try-cast-narrowing-unwrapped");
        }
        // (BETWEEN / COALESCE expansion duplicates operands, so counting is not enough) semantic test: the row is one
        // on which a TRY_CAST of the original fails, i.e. the same expression with CAST raises an error there
        if let (Some(r), Some(batch)) = (row_index, c.batch) {
            use datafusion_common::tree_node::{Transformed, TransformedResult, TreeNode};
            let strict = c
                .original
                .clone()
                .transform_up(|n| {
                    Ok(match n {
                        Expr::TryCast(t) => Transformed::yes(Expr::Cast(datafusion_expr::expr::Cast::new_from_field(t.expr, t.field))),
                        other => Transformed::no(other),
                    })
                })
                .data();
            if let Ok(strict) = strict {
                if let Ok(pe) = env.physical(&strict) {
                    if eval_batch(&pe, &batch.slice(r, 1)).is_err() {
                        return Some("try-cast-narrowing-unwrapped");
                    }
                }
            }
        }
    }
    if let Some(row) = row {
        // date_part() returns NULL (not an error) for dates outside chrono's range; its preimage rewrite answers false/true
        if expr_has(c.original, |n| matches!(n, Expr::ScalarFunction(f) if f.func.name() == "date_part"))
            && c.refs.iter().any(|&ci| matches!((&env.cols[ci].dt, &row[ci]), (DataType::Date32, V::I(d)) if d.abs() > 90_000_000))
        {
            return Some("date-part-null-on-out-of-range-date");
        }
    }
    if expr_has(c.original, |n| match n {
        Expr::Cast(datafusion_expr::expr::Cast { expr, field }) | Expr::TryCast(datafusion_expr::expr::TryCast { expr, field }) => match (ty(expr), field.data_type()) {
            (Some(DataType::Decimal128(_, s1)), DataType::Decimal128(_, s2)) => *s2 < s1,
            (Some(DataType::Decimal128(_, s1)), t) => s1 > 0 && t.is_integer(),
            _ => false,
        },
        _ => false,
    }) && kind != "data-type"
    {
        return Some("lossy-decimal-cast-unwrapped");
    }
    if let Some(row) = row {
        // IN-list / simple-CASE / NULLIF membership compares floats bit-wise, `=` normalises -0.0: every
        // rewrite between the two forms changes the value on a zero of the other sign
        let float_zero_in_row = c.refs.iter().any(|&ci| matches!(&row[ci], V::F(f) if *f == 0.0));
        // (an integer 0 cast to float meets a float-zero literal of the other sign the same way)
        let zero_in_row = float_zero_in_row || (expr_has(c.original, is_float_zero_lit) && c.refs.iter().any(|&ci| matches!(&row[ci], V::I(0))));
        // a membership test against a float-zero literal meets computed zeros (1.0 % 1.0, CAST(0 AS DOUBLE), ..) too
        let zero_member = expr_has(c.original, |n| match n {
            Expr::InList(l) => l.list.iter().any(is_float_zero_lit) || is_float_zero_lit(&l.expr),
            Expr::Case(cs) => cs.expr.is_some() && cs.when_then_expr.iter().any(|(w, _)| is_float_zero_lit(w)),
            Expr::ScalarFunction(f) => f.func.name() == "nullif" && f.args.iter().any(is_float_zero_lit),
            _ => false,
        });
        if kind != "data-type" && (zero_in_row || zero_member) {
            return Some("float-zero-sign-membership-vs-equality");
        }
    }
    // `x IN (..) AND/OR x [NOT] IN (..)` is folded by set algebra on the literal lists, which ignores NULL
    // operands and NULL list elements (three-valued logic)
    if (kind == "value" || kind == "null-ness")
        && expr_has(c.original, |n| {
            matches!(n, Expr::BinaryExpr(b) if matches!(b.op, Operator::And | Operator::Or)
                && matches!((b.left.as_ref(), b.right.as_ref()), (Expr::InList(l), Expr::InList(r)) if l.expr == r.expr))
        })
    {
        return Some("inlist-set-algebra-ignores-null");
    }
    None
}

/// Signature prefix of a classified root cause: the component that owns it (the mode stays in the witness).
fn sig_group(mode: &str, class: &str) -> &'static str {
    if mode == "physical" {
        "physical"
    } else if class.starts_with("guarantee-") || mode == "rewrite_with_guarantees" {
        "guarantees"
    } else {
        "simplify"
    }
}

/// Compare a simplified form with the original on the rows selected by `inside`. Every distinct root
/// cause (and the unclassified rest) is reported once per expression.
fn compare(cx: &Ctx, c: &Cmp, orig: &Orig, simp: &Evald) -> usize {
    let mut compared = 0usize;
    let mut corrupted = false;
    let mut reported: Vec<String> = vec![];
    for r in 0..c.rows.len() {
        if !c.inside[r] {
            continue;
        }
        let Some(ov) = &orig.vals[r] else { continue };
        compared += 1;
        let mut sv = simp.vals[r].clone();
        if cx.selftest && !corrupted && c.case_no % 7 == 0 {
            sv = sv.map(|v| flip(&v));
            corrupted = true;
        }
        let (kind, observed) = match &sv {
            None => ("error", json!({"batch_error": simp.batch_err})),
            Some(sv) if !sv.same(ov) => (if sv.is_null() != ov.is_null() { "null-ness" } else { "value" }, json!({"simplified_value": sv.to_json()})),
            _ => continue,
        };
        // the sign of a NaN produced by arithmetic depends on the kernel path, and comparisons (IEEE totalOrder) see
        // it: outside what the statement can demand
        if c.refs.iter().any(|&ci| matches!(&c.rows[r][ci], V::F(f) if f.is_nan()))
            && expr_has(c.original, |n| matches!(n, Expr::Negative(_)) || matches!(n, Expr::BinaryExpr(b) if matches!(b.op, Operator::Plus | Operator::Minus | Operator::Multiply | Operator::Divide | Operator::Modulo)))
        {
            cx.rep.count("rows_not_judged(nan-arithmetic-sign-unspecified)", 1);
            continue;
        }
        let mut class = classify(cx, c, kind, Some(r), simp.batch_err.as_deref());
        if class.is_none() {
            // the original's value came from the independent evaluator: does the engine's bit-wise membership
            // semantics (IN / simple CASE / NULLIF) explain the difference?
            if let Some(alt) = &orig.alt_bitwise {
                let explained = match (&alt[r], &sv) {
                    (Some(a), Some(sv)) => a.same(sv),
                    // under the engine's membership semantics the row raises (a lazily skipped branch is reached)
                    (None, None) => true,
                    _ => false,
                };
                if explained {
                    class = Some("float-zero-sign-membership-vs-equality");
                }
            }
        }
        let sig = match (class, kind) {
            (Some(k), _) => format!("{}/{k}", sig_group(c.mode, k)),
            (None, "error") => format!("{}/simplified-raises-error/{}", c.mode, c.tag),
            (None, k) => format!("{}/{k}-changed/{}", c.mode, c.tag),
        };
        if reported.contains(&sig) {
            continue;
        }
        reported.push(sig.clone());
        violate(cx.rep, 
            &sig,
            json!({
                "mode": c.mode, "family": c.tag, "what": if kind == "error" { "the simplified expression raises an error on a row where the original evaluates" } else { "value differs" },
                "original": format!("{}", c.original), "simplified": c.simplified_txt,
                "schema": cx.env.schema_json(), "row": row_json(cx.env, &c.rows[r], c.refs),
                "expected_value_of_original": ov.to_json(), "original_data_type": orig.dt.as_ref().map(|d| d.to_string()),
                "observed": observed, "original_value_from_reference_evaluator": orig.from_reference, "context": c.extra.clone(),
            }),
        );
        if reported.len() >= 3 {
            break;
        }
    }
    if compared > 0 && !orig.from_reference {
        if let (Some(a), Some(b)) = (&orig.dt, &simp.dt) {
            if a != b {
                let class = classify(cx, c, "data-type", None, None);
                let sig = match class {
                    Some(k) => format!("{}/{k}", sig_group(c.mode, k)),
                    None => format!("{}/data-type-changed/{}", c.mode, c.tag),
                };
                violate(cx.rep, 
                    &sig,
                    json!({"mode": c.mode, "family": c.tag, "original": format!("{}", c.original), "simplified": c.simplified_txt, "schema": cx.env.schema_json(),
                           "original_data_type": a.to_string(), "simplified_data_type": b.to_string(), "context": c.extra.clone()}),
                );
            }
        }
    }
    compared
}

fn random_guarantees(env: &Env, e: &Expr, rng: &mut Rng) -> Vec<(usize, NullableInterval)> {
    let refs = referenced_cols(e, env);
    let lits = literals_of(e);
    let mut out = vec![];
    for &ci in &refs {
        if !rng.chance(3, 4) {
            continue;
        }
        let spec = &env.cols[ci];
        let dom: Vec<V> = domain_for(spec, &lits, 9).into_iter().filter(|v| !v.is_null() && !matches!(v, V::F(f) if !f.is_finite())).collect();
        if dom.is_empty() {
            continue;
        }
        let kind = rng.usize(if spec.nullable { 8 } else { 6 });
        if kind >= 7 {
            out.push((ci, NullableInterval::Null { datatype: spec.dt.clone() }));
            continue;
        }
        let k = kind_of_dt(&spec.dt);
        let (mut a, mut b) = (rng.pick(&dom).clone(), rng.pick(&dom).clone());
        if rng.chance(1, 4) {
            b = a.clone();
        }
        if let Some(k) = k {
            if cmp_kind(k, &a, &b).unwrap_or(Ordering::Equal) == Ordering::Greater {
                std::mem::swap(&mut a, &mut b);
            }
        }
        let lo = if rng.chance(1, 6) && !matches!(spec.dt, DataType::Boolean) { ScalarValue::try_from(&spec.dt).unwrap() } else { v_scalar(&spec.dt, &a) };
        let hi = if rng.chance(1, 6) && !matches!(spec.dt, DataType::Boolean) { ScalarValue::try_from(&spec.dt).unwrap() } else { v_scalar(&spec.dt, &b) };
        let Ok(values) = Interval::try_new(lo, hi) else { continue };
        let g = if spec.nullable && kind == 6 { NullableInterval::MaybeNull { values } } else { NullableInterval::NotNull { values } };
        out.push((ci, g));
    }
    out
}

fn kind_of_dt(dt: &DataType) -> Option<Kind> {
    Some(match dt {
        DataType::Boolean => Kind::Bool,
        DataType::Float32 | DataType::Float64 => Kind::Float,
        DataType::Utf8 | DataType::LargeUtf8 | DataType::Utf8View => Kind::Str,
        t if int_range(t).is_some() => Kind::Int,
        _ => return None,
    })
}

/// is the value inside the guarantee (None = cannot decide: treated as outside)
fn inside_guarantee(dt: &DataType, g: &NullableInterval, v: &V) -> bool {
    let in_range = |values: &Interval| -> bool {
        if let V::F(f) = v {
            if !f.is_finite() {
                return false;
            }
            // interval endpoints order -0.0 < +0.0 while `=` identifies them: a zero row against a zero
            // endpoint is neither clearly inside nor outside, so it is not compared
            let zero_bound = |b: &ScalarValue| matches!(scalar_v(b), V::F(x) if x == 0.0);
            if *f == 0.0 && (zero_bound(values.lower()) || zero_bound(values.upper())) {
                return false;
            }
        }
        let Some(k) = kind_of_dt(dt) else { return false };
        let lo = values.lower();
        let hi = values.upper();
        let ok_lo = lo.is_null() || cmp_kind(k, &scalar_v(lo), v).map(|o| o != Ordering::Greater).unwrap_or(false);
        let ok_hi = hi.is_null() || cmp_kind(k, v, &scalar_v(hi)).map(|o| o != Ordering::Greater).unwrap_or(false);
        ok_lo && ok_hi
    };
    match g {
        NullableInterval::Null { .. } => v.is_null(),
        NullableInterval::NotNull { values } => !v.is_null() && in_range(values),
        NullableInterval::MaybeNull { values } => v.is_null() || in_range(values),
    }
}

fn check_expr(cx: &Ctx, tag: &str, raw: Expr, rng: &mut Rng, case_no: u64, systematic: bool) {
    let rep = cx.rep;
    let env = cx.env;
    let coerced = match env.coerce(raw.clone()) {
        Ok(e) => e,
        Err(_) => {
            rep.skip("type-coercion-rejects");
            return;
        }
    };
    let text = format!("{coerced}");
    let fp = fp_mix(fp_str(&text), fp_str(tag));
    let pe = match vcommon::par::guard(|| env.physical(&coerced)) {
        Ok(Ok(p)) => p,
        Ok(Err(_)) => {
            rep.skip("physical-planning-rejects");
            return;
        }
        Err(_) => {
            rep.skip("physical-planning-panics");
            return;
        }
    };
    let (rows, exhaustive) = build_rows(env, &coerced, rng, cx.rep.args.opt_u64("cap", 400) as usize, 24);
    let batch = env.batch(&rows);
    let refs = referenced_cols(&coerced, env);
    let ev = eval_guarded(&pe, &batch);
    if ev.panicked {
        rep.count("original_panics", 1);
    }
    let mut orig = Orig { vals: ev.vals, dt: ev.dt, from_reference: false, alt_bitwise: None };
    // independent reference evaluator: cross-check of the original (evidence; C33 owns the verdict)
    // and stand-in oracle where the engine cannot evaluate the unsimplified form at all (coalesce)
    let reference = compile(&coerced, env).ok();
    if let Some(r) = &reference {
        let rv: Vec<Result<V, RErr>> = rows.iter().map(|row| r.eval(row)).collect();
        let mut agree = 0u64;
        let mut differ = 0u64;
        for (a, b) in orig.vals.iter().zip(rv.iter()) {
            if let (Some(a), Ok(b)) = (a, b) {
                if a.same(b) {
                    agree += 1;
                } else {
                    differ += 1;
                }
            }
        }
        rep.count("reference_crosscheck_rows_agree", agree);
        if differ > 0 {
            rep.count("reference_crosscheck_rows_differ", differ);
            rep.seen("reference_crosscheck_differing_families", tag);
        }
        let unevaluable = orig.vals.iter().all(|v| v.is_none()) && ev.batch_err.as_deref().is_some_and(|m| m.contains("should have been simplified"));
        if unevaluable {
            set_membership_bitwise(true);
            let alt: Vec<Option<V>> = rows.iter().map(|row| r.eval(row).ok()).collect();
            set_membership_bitwise(false);
            orig = Orig { vals: rv.into_iter().map(|r| r.ok()).collect(), dt: None, from_reference: true, alt_bitwise: Some(alt) };
            rep.count("original_value_from_reference_evaluator", 1);
        }
    }
    let n_ok = orig.vals.iter().filter(|v| v.is_some()).count();
    if n_ok == 0 {
        rep.case(fp, false);
        rep.skip("original-errors-on-every-row");
        return;
    }
    rep.count("rows_original_error_free", n_ok as u64);
    rep.count("rows_original_error", (rows.len() - n_ok) as u64);
    if exhaustive {
        rep.count("exhaustive_tables", 1);
    }
    let all_inside = vec![true; rows.len()];
    let ctx = SimplifyContext::builder().with_schema(env.df.clone()).build();
    let mut any_changed = false;
    let mut compared_total = 0usize;

    // (a) plain simplify
    match vcommon::par::guard(|| ExprSimplifier::new(ctx.clone()).simplify(coerced.clone())) {
        Ok(Ok(s)) => {
            let changed = s != coerced;
            rep.count(&format!("top_before/{}", top_op(&coerced)), 1);
            rep.count(&format!("top_after/{}", top_op(&s)), 1);
            if changed {
                any_changed = true;
                rep.count("changed/simplify", 1);
                rep.seen("families_changed", tag);
                rep.seen("top_transitions", &format!("{} -> {}", top_op(&coerced), top_op(&s)));
                compared_total += eval_and_compare(cx, &Cmp { mode: "simplify", tag, original: &coerced, simplified_txt: "", rows: &rows, inside: &all_inside, refs: &refs, guarantees: &[], extra: json!(null), case_no, batch: Some(&batch) }, &s, &orig, &batch);
                if rep.want_sample() && systematic && case_no % 211 == 3 {
                    rep.sample(json!({"family": tag, "original": text, "simplified": format!("{s}"), "rows": rows.len()}));
                }
            } else {
                rep.count("unchanged/simplify", 1);
            }
        }
        Ok(Err(e)) => {
            rep.skip("simplifier-returns-error");
            if rep.get_count("simplify_error_samples") < 8 {
                rep.count("simplify_error_samples", 1);
                rep.extra(&format!("simplify_error_sample_{}", rep.get_count("simplify_error_samples")), json!({"expr": text, "error": e.to_string().chars().take(200).collect::<String>(), "original_error_free_rows": n_ok}));
            }
        }
        Err(p) => {
            rep.violation("simplify/panic", json!({"family": tag, "original": text, "panic": p, "schema": env.schema_json()}));
        }
    }

    // (b)+(c) guarantees
    let gs = if rep.args.opt_u64("guarantees", 1) == 1 { random_guarantees(env, &coerced, rng) } else { vec![] };
    if !gs.is_empty() {
        let inside: Vec<bool> = rows.iter().map(|row| gs.iter().all(|(ci, g)| inside_guarantee(&env.cols[*ci].dt, g, &row[*ci]))).collect();
        let n_inside = inside.iter().filter(|b| **b).count();
        let guarantees: Vec<(Expr, NullableInterval)> = gs.iter().map(|(ci, g)| (col(env.cols[*ci].name.as_str()), g.clone())).collect();
        let gtxt = json!(gs.iter().map(|(ci, g)| format!("{}: {}", env.cols[*ci].name, g)).collect::<Vec<_>>());
        rep.count("rows_inside_guarantees", n_inside as u64);
        match vcommon::par::guard(|| ExprSimplifier::new(ctx.clone()).with_guarantees(guarantees.clone()).simplify(coerced.clone())) {
            Ok(Ok(s)) => {
                if s != coerced {
                    rep.count("changed/with_guarantees", 1);
                    if n_inside > 0 {
                        compared_total += eval_and_compare(cx, &Cmp { mode: "with_guarantees", tag, original: &coerced, simplified_txt: "", rows: &rows, inside: &inside, refs: &refs, guarantees: &gs, extra: json!({"guarantees": gtxt}), case_no, batch: Some(&batch) }, &s, &orig, &batch);
                    }
                }
            }
            Ok(Err(_)) => rep.skip("simplifier-with-guarantees-returns-error"),
            Err(p) => rep.violation("with_guarantees/panic", json!({"family": tag, "original": text, "guarantees": gtxt, "panic": p})),
        }
        match vcommon::par::guard(|| rewrite_with_guarantees(coerced.clone(), guarantees.iter())) {
            Ok(Ok(t)) => {
                if t.transformed && t.data != coerced {
                    rep.count("changed/rewrite_with_guarantees", 1);
                    if n_inside > 0 {
                        compared_total += eval_and_compare(cx, &Cmp { mode: "rewrite_with_guarantees", tag, original: &coerced, simplified_txt: "", rows: &rows, inside: &inside, refs: &refs, guarantees: &gs, extra: json!({"guarantees": gtxt}), case_no, batch: Some(&batch) }, &t.data, &orig, &batch);
                    }
                }
            }
            Ok(Err(_)) => rep.skip("rewrite-with-guarantees-returns-error"),
            Err(p) => rep.violation("rewrite_with_guarantees/panic", json!({"family": tag, "original": text, "guarantees": gtxt, "panic": p})),
        }
    }

    // (d) physical simplifier
    if !orig.from_reference {
        match vcommon::par::guard(|| PhysicalExprSimplifier::new(env.schema.as_ref()).simplify(pe.clone())) {
            Ok(Ok(sp)) => {
                let (before, after) = (format!("{pe}"), format!("{sp}"));
                if before != after {
                    rep.count("changed/physical", 1);
                    let sev = eval_guarded(&sp, &batch);
                    compared_total += compare(cx, &Cmp { mode: "physical", tag, original: &coerced, simplified_txt: &after, rows: &rows, inside: &all_inside, refs: &refs, guarantees: &[], extra: json!({"physical_original": before}), case_no, batch: Some(&batch) }, &orig, &sev);
                } else {
                    rep.count("unchanged/physical", 1);
                }
            }
            Ok(Err(_)) => rep.skip("physical-simplifier-returns-error"),
            Err(p) => {
                let sig = if p.contains("same data type") { "physical/data-type-changed-assertion" } else { "physical/panic" };
                rep.violation(sig, json!({"family": tag, "original": text, "physical_original": format!("{pe}"), "panic": p, "schema": env.schema_json()}));
            }
        }
    }
    rep.count("rows_compared", compared_total as u64);
    rep.case(fp, any_changed && compared_total > 0);
}

fn eval_and_compare(cx: &Ctx, c: &Cmp, s: &Expr, orig: &Orig, batch: &arrow::record_batch::RecordBatch) -> usize {
    let stxt = format!("{s}");
    let c = Cmp { mode: c.mode, tag: c.tag, original: c.original, simplified_txt: &stxt, rows: c.rows, inside: c.inside, refs: c.refs, guarantees: c.guarantees, extra: c.extra.clone(), case_no: c.case_no, batch: c.batch };
    let (mode, tag) = (c.mode, c.tag);
    let sp = match vcommon::par::guard(|| cx.env.physical(s)) {
        Ok(Ok(p)) => p,
        Ok(Err(e)) => {
            let sig = match classify(cx, &c, "not-plannable", None, None) {
                Some(k) => format!("{}/{k}", sig_group(mode, k)),
                None => format!("{mode}/simplified-not-plannable/{tag}"),
            };
            violate(cx.rep,
                &sig,
                json!({"mode": mode, "family": tag, "original": format!("{}", c.original), "simplified": stxt, "error": e.to_string(), "schema": cx.env.schema_json(), "context": c.extra}),
            );
            return 0;
        }
        Err(p) => {
            violate(cx.rep, &format!("{mode}/simplified-planning-panics/{tag}"), json!({"mode": mode, "family": tag, "original": format!("{}", c.original), "simplified": stxt, "panic": p}));
            return 0;
        }
    };
    let mut sev = eval_guarded(&sp, batch);
    // a form that still contains coalesce cannot be evaluated by the engine at all (coalesce is only
    // executable after its own simplification): the independent evaluator stands in, or the case is skipped
    if sev.vals.iter().all(|v| v.is_none()) && sev.batch_err.as_deref().is_some_and(|m| m.contains("should have been simplified")) {
        match compile(s, cx.env) {
            Ok(r) => {
                sev.vals = c.rows.iter().map(|row| r.eval(row).ok()).collect();
                // rows outside the reference's fragment are not compared
                let inside: Vec<bool> = c.inside.iter().zip(sev.vals.iter()).map(|(i, v)| *i && v.is_some()).collect();
                sev.dt = None;
                sev.batch_err = None;
                cx.rep.count("simplified_value_from_reference_evaluator", 1);
                let c2 = Cmp { mode: c.mode, tag: c.tag, original: c.original, simplified_txt: &stxt, rows: c.rows, inside: &inside, refs: c.refs, guarantees: c.guarantees, extra: c.extra.clone(), case_no: c.case_no, batch: c.batch };
                return compare(cx, &c2, orig, &sev);
            }
            Err(_) => {
                cx.rep.skip("simplified-form-not-evaluable(coalesce)");
                return 0;
            }
        }
    }
    compare(cx, &c, orig, &sev)
}

/// `simplify_predicates`: the conjunction must keep its filter truth on every error-free row.
fn check_predicates(cx: &Ctx, preds: Vec<Expr>, rng: &mut Rng, case_no: u64) {
    let rep = cx.rep;
    let env = cx.env;
    let coerced: Vec<Expr> = match preds.into_iter().map(|p| env.coerce(p)).collect::<Result<Vec<_>, _>>() {
        Ok(v) => v,
        Err(_) => {
            rep.skip("type-coercion-rejects");
            return;
        }
    };
    let conj = |v: &[Expr]| v.iter().cloned().reduce(and).unwrap_or_else(|| lit(true));
    let original = conj(&coerced);
    let simplified = match vcommon::par::guard(|| simplify_predicates(coerced.clone())) {
        Ok(Ok(s)) => s,
        Ok(Err(_)) => {
            rep.skip("simplify-predicates-returns-error");
            return;
        }
        Err(p) => {
            rep.violation("simplify_predicates/panic", json!({"predicates": coerced.iter().map(|p| p.to_string()).collect::<Vec<_>>(), "panic": p}));
            return;
        }
    };
    let fp = fp_mix(fp_str(&format!("{original}")), 0x9ed);
    let changed = simplified != coerced;
    if !changed {
        rep.count("unchanged/simplify_predicates", 1);
        rep.case(fp, false);
        return;
    }
    rep.count("changed/simplify_predicates", 1);
    let s = conj(&simplified);
    let (Ok(po), Ok(ps)) = (env.physical(&original), env.physical(&s)) else {
        rep.skip("physical-planning-rejects");
        return;
    };
    let (rows, _) = build_rows(env, &original, rng, 400, 16);
    let batch = env.batch(&rows);
    let refs = referenced_cols(&original, env);
    let (eo, es) = (eval_guarded(&po, &batch), eval_guarded(&ps, &batch));
    let mut compared = 0;
    for r in 0..rows.len() {
        let Some(ov) = &eo.vals[r] else { continue };
        compared += 1;
        let mut t_s = matches!(es.vals[r], Some(V::B(true)));
        if cx.selftest && case_no % 5 == 0 && r == 0 {
            t_s = !t_s;
        }
        let t_o = matches!(ov, V::B(true));
        if t_o != t_s {
            let has_both_orders = coerced.iter().any(|p| matches!(p, Expr::BinaryExpr(b) if b.op == Operator::Eq && matches!(b.left.as_ref(), Expr::Literal(..))))
                && coerced.iter().any(|p| matches!(p, Expr::BinaryExpr(b) if b.op == Operator::Eq && matches!(b.right.as_ref(), Expr::Literal(..))));
            let lit_left = coerced.iter().any(|p| matches!(p, Expr::BinaryExpr(b) if matches!(b.left.as_ref(), Expr::Literal(..))));
            violate(rep, 
                if has_both_orders && simplified.iter().any(|p| matches!(p, Expr::Literal(ScalarValue::Boolean(Some(false)), _))) {
                    "simplify_predicates/equal-predicates-in-both-operand-orders-folded-to-false"
                } else if lit_left {
                    "simplify_predicates/most-restrictive-tie-break-with-literal-on-the-left"
                } else {
                    "simplify_predicates/filter-truth-changed"
                },
                json!({"predicates": coerced.iter().map(|p| p.to_string()).collect::<Vec<_>>(), "simplified": simplified.iter().map(|p| p.to_string()).collect::<Vec<_>>(),
                       "schema": env.schema_json(), "row": row_json(env, &rows[r], &refs), "original_conjunction": ov.to_json(),
                       "simplified_conjunction": es.vals[r].as_ref().map(|v| v.to_json())}),
            );
            break;
        }
    }
    rep.count("rows_compared", compared);
    rep.case(fp, compared > 0);
}

fn run(args: &Args) -> i32 {
    let rep = Report::new("C04", "exploration", args);
    rep.set_rule(
        "case = one well-typed expression (template of a rewrite family, or random tree of depth <= 4 over 18 typed columns) x its evaluation table \
         (exhaustive product of the literal-aware small domains of the referenced columns, capped, + 24 random rows); distinct = hash(coerced expression text, family); \
         non-trivial = the simplifier changed the expression and at least one error-free row was compared",
    );
    rep.assume("original and simplified forms are evaluated by the same engine evaluator (create_physical_expr + evaluate), so a difference is due to the rewrite");
    rep.assume("rows on which the original raises an error are found by re-evaluating 1-row batches and are not compared");
    rep.assume("coalesce cannot be evaluated unsimplified by the engine; there the independent row-at-a-time evaluator supplies the original's value");
    let env = Env::standard();
    let selftest = args.opt_u64("selftest", 0) == 1;
    let cx = Ctx { rep: &rep, env: &env, selftest };
    let stage_div = match args.stage.as_str() {
        "miri" => 100,
        "memcheck" | "tsan" => 10,
        _ => 1,
    };

    // systematic part: every template, seed independent
    let mut tpl = templates(&env);
    if let Some(f) = args.opt_str("family") {
        tpl.retain(|(t, _)| t == f);
    }
    let n_tpl = tpl.len() / stage_div;
    let items: Vec<(u64, (String, Expr))> = tpl.into_iter().take(n_tpl.max(1)).enumerate().map(|(i, t)| (i as u64, t)).collect();
    vcommon::par::run(args.workers, items.into_iter(), |(i, (tag, e))| {
        let mut rng = Rng::derive(0xC04, &[0, i]);
        check_expr(&cx, &tag, e, &mut rng, i, true);
    });
    let preds = if args.opt_u64("predicates", 1) == 1 { predicate_lists(&env) } else { vec![] };
    let n_preds = preds.len() / stage_div;
    vcommon::par::run(args.workers, preds.into_iter().take(n_preds.max(1)).enumerate(), |(i, p)| {
        let mut rng = Rng::derive(0xC04, &[2, i as u64]);
        check_predicates(&cx, p, &mut rng, i as u64);
    });
    for fam in [
        "null-literal", "bool-literal-algebra", "self-comparison", "arith-identity", "double-negation", "negate-comparison", "boolean-algebra", "inlist-or", "inlist-set-algebra",
        "unwrap-cast", "unwrap-cast-decimal", "unwrap-cast-string", "unwrap-cast-temporal", "preimage-date-part", "preimage-floor", "like", "regex", "starts-with", "case-folding", "coalesce",
        "nullif", "is-distinct", "between", "const-fold", "bitwise-identity", "concat",
    ] {
        if args.opt_str("family").is_none() && stage_div == 1 {
            rep.obligation(&format!("family:{fam}"), rep.has_seen("families_changed", fam), "at least one expression of the rewrite family must actually be changed by the simplifier and compared");
        }
    }

    // seeded random tail
    let n_rand = args.bound("random", 10_000, 300_000) / stage_div as u64;
    vcommon::par::run(args.workers, 0..n_rand, |i| {
        if rep.violation_count() > 400 {
            return;
        }
        let mut rng = Rng::derive(args.seed, &[1, i]);
        let depth = 1 + (i % 4) as usize;
        let raw = {
            let mut g = Gen::new(&mut rng, &env);
            if i % 5 == 4 {
                let tc = g.any_tc();
                g.expr(tc, depth)
            } else {
                g.bool_expr(depth)
            }
        };
        check_expr(&cx, "random", raw, &mut rng, 1_000_000 + i, false);
    });
    let changed = rep.get_count("changed/simplify");
    let total = changed + rep.get_count("unchanged/simplify");
    rep.extra("changed_share_percent", json!(if total > 0 { changed * 100 / total } else { 0 }));
    rep.obligation("changed-share", total > 0 && changed * 100 >= total * 30, "at least 30% of the simplified expressions must actually be changed by the simplifier");
    rep.finish()
}

fn main() {
    let args = Args::parse();
    vcommon::par::quiet_panics();
    std::process::exit(run(&args));
}
