//! `MonTable` / `MonScanExec`: a table provider + leaf plan that ACCEPTS pushed filters.
//!
//! * logical filters (`supports_filters_pushdown`): Exact / Inexact / Unsupported by configuration;
//!   accepted ones are compiled against the table schema and applied to the full rows;
//! * physical filters (`handle_child_pushdown_result`, both phases): every parent filter is accepted
//!   (`PushedDown::Yes`) and kept as one conjunction against the projected schema. Per batch the scan
//!   sleeps its scripted delay, splits the predicate into conjuncts, evaluates static conjuncts and
//!   `DynamicFilterPhysicalExpr`-carrying conjuncts separately (`current()` through `evaluate`), logs
//!   every row that the static part keeps but a dynamic conjunct rejects (row id, generation) and
//!   drops all rejected rows.

use arrow::array::{Array, BooleanArray, Int64Array};
use arrow::datatypes::SchemaRef;
use arrow::record_batch::RecordBatch;
use async_trait::async_trait;
use datafusion::catalog::{Session, TableProvider};
use datafusion::common::config::ConfigOptions;
use datafusion::common::stats::Precision;
use datafusion::common::tree_node::{TreeNode, TreeNodeRecursion};
use datafusion::common::{DFSchema, Statistics};
use datafusion::error::Result;
use datafusion::execution::{RecordBatchStream, SendableRecordBatchStream, TaskContext};
use datafusion::logical_expr::{Expr, TableProviderFilterPushDown, TableType};
use datafusion::physical_expr::expressions::DynamicFilterPhysicalExpr;
use datafusion::physical_expr::utils::{conjunction, split_conjunction};
use datafusion::physical_expr::{EquivalenceProperties, Partitioning, PhysicalExpr};
use datafusion::physical_plan::execution_plan::{Boundedness, EmissionType};
use datafusion::physical_plan::filter_pushdown::{ChildPushdownResult, FilterPushdownPhase, FilterPushdownPropagation, PushedDown};
use datafusion::physical_plan::{DisplayAs, DisplayFormatType, ExecutionPlan, PlanProperties};
use futures::Stream;
use std::collections::BTreeMap;
use std::future::Future;
use std::pin::Pin;
use std::sync::{Arc, Mutex};
use std::task::{Context, Poll};
use std::time::Duration;
use vcommon::Rng;

#[derive(Clone, Debug)]
pub struct Discard {
    pub table: String,
    pub partition: usize,
    pub batch: usize,
    pub id: i64,
    pub generation: u64,
}

#[derive(Default)]
pub struct ScanLog {
    pub discards: Mutex<Vec<Discard>>,
    /// (table, generation of the dynamic conjunct) → batches evaluated at that generation
    pub reads: Mutex<BTreeMap<(String, u64), u64>>,
    pub dynamic_filters_received: Mutex<BTreeMap<String, u64>>,
    pub static_filters_received: Mutex<u64>,
    pub rows_scanned: Mutex<u64>,
    pub rows_emitted: Mutex<u64>,
}

#[derive(Clone, Copy, Debug, PartialEq)]
pub enum LogicalSupport {
    Unsupported,
    Inexact,
    Exact,
}

/// seeded delay before each batch (units of `unit`)
#[derive(Clone, Debug)]
pub struct Delays {
    pub seed: u64,
    pub max_units: u64,
    pub unit: Duration,
    /// some partitions are slow as a whole (a lagging build / probe partition)
    pub slow_partition_factor: u64,
}

impl Delays {
    pub fn none() -> Self {
        Delays { seed: 0, max_units: 0, unit: Duration::from_millis(1), slow_partition_factor: 1 }
    }
    fn units(&self, table: &str, partition: usize, batch: usize) -> u64 {
        if self.max_units == 0 {
            return 0;
        }
        let mut r = Rng::derive(self.seed, &[vcommon::fp_str(table), partition as u64]);
        let slow = if r.chance(1, 3) { self.slow_partition_factor } else { 1 };
        let mut r = Rng::derive(self.seed, &[vcommon::fp_str(table), partition as u64, batch as u64]);
        r.below(self.max_units + 1) * slow
    }
}

pub struct MonTable {
    pub name: String,
    pub schema: SchemaRef,
    pub partitions: Arc<Vec<Vec<RecordBatch>>>,
    pub log: Arc<ScanLog>,
    pub delays: Delays,
    pub logical: LogicalSupport,
    pub accept_physical: bool,
    pub id_col: usize,
}

impl std::fmt::Debug for MonTable {
    fn fmt(&self, f: &mut std::fmt::Formatter<'_>) -> std::fmt::Result {
        write!(f, "MonTable({})", self.name)
    }
}

#[async_trait]
impl TableProvider for MonTable {
    fn schema(&self) -> SchemaRef {
        self.schema.clone()
    }
    fn table_type(&self) -> TableType {
        TableType::Base
    }
    fn supports_filters_pushdown(&self, filters: &[&Expr]) -> Result<Vec<TableProviderFilterPushDown>> {
        let s = match self.logical {
            LogicalSupport::Unsupported => TableProviderFilterPushDown::Unsupported,
            LogicalSupport::Inexact => TableProviderFilterPushDown::Inexact,
            LogicalSupport::Exact => TableProviderFilterPushDown::Exact,
        };
        Ok(vec![s; filters.len()])
    }
    async fn scan(&self, state: &dyn Session, projection: Option<&[usize]>, filters: &[Expr], _limit: Option<usize>) -> Result<Arc<dyn ExecutionPlan>> {
        let dfs = DFSchema::try_from(self.schema.as_ref().clone())?;
        let mut table_filters = vec![];
        for f in filters {
            table_filters.push(state.create_physical_expr(f.clone(), &dfs)?);
        }
        let projection: Option<Vec<usize>> = projection.map(|p| p.to_vec());
        let out_schema = match &projection {
            Some(p) => Arc::new(self.schema.project(p)?),
            None => self.schema.clone(),
        };
        Ok(Arc::new(MonScanExec::new(MonShared {
            name: self.name.clone(),
            partitions: self.partitions.clone(),
            log: self.log.clone(),
            delays: self.delays.clone(),
            accept_physical: self.accept_physical,
            id_col: self.id_col,
            projection,
            out_schema,
            table_filters,
        })))
    }
}

#[derive(Clone)]
struct MonShared {
    name: String,
    partitions: Arc<Vec<Vec<RecordBatch>>>,
    log: Arc<ScanLog>,
    delays: Delays,
    accept_physical: bool,
    id_col: usize,
    projection: Option<Vec<usize>>,
    out_schema: SchemaRef,
    /// accepted logical filters, against the table schema
    table_filters: Vec<Arc<dyn PhysicalExpr>>,
}

#[derive(Clone)]
pub struct MonScanExec {
    sh: MonShared,
    /// accepted physical filters, against the projected schema
    pushed: Option<Arc<dyn PhysicalExpr>>,
    cache: Arc<PlanProperties>,
}

impl std::fmt::Debug for MonScanExec {
    fn fmt(&self, f: &mut std::fmt::Formatter<'_>) -> std::fmt::Result {
        write!(f, "MonScanExec({})", self.sh.name)
    }
}

impl MonScanExec {
    fn new(sh: MonShared) -> Self {
        let n = sh.partitions.len().max(1);
        let cache = PlanProperties::new(EquivalenceProperties::new(sh.out_schema.clone()), Partitioning::UnknownPartitioning(n), EmissionType::Incremental, Boundedness::Bounded);
        MonScanExec { sh, pushed: None, cache: Arc::new(cache) }
    }
}

pub fn has_dynamic(e: &Arc<dyn PhysicalExpr>) -> bool {
    let mut found = false;
    let _ = e.apply(|x| {
        if x.downcast_ref::<DynamicFilterPhysicalExpr>().is_some() {
            found = true;
            return Ok(TreeNodeRecursion::Stop);
        }
        Ok(TreeNodeRecursion::Continue)
    });
    found
}

fn dynamic_generation(e: &Arc<dyn PhysicalExpr>) -> u64 {
    let mut g = 0u64;
    let _ = e.apply(|x| {
        if x.downcast_ref::<DynamicFilterPhysicalExpr>().is_some() {
            g = g.max(x.snapshot_generation());
        }
        Ok(TreeNodeRecursion::Continue)
    });
    g
}

impl DisplayAs for MonScanExec {
    fn fmt_as(&self, _t: DisplayFormatType, f: &mut std::fmt::Formatter) -> std::fmt::Result {
        write!(f, "MonScanExec: table={}, partitions={}", self.sh.name, self.sh.partitions.len())?;
        if !self.sh.table_filters.is_empty() {
            write!(f, ", table_filters={}", self.sh.table_filters.len())?;
        }
        if let Some(p) = &self.pushed {
            write!(f, ", predicate={p}")?;
        }
        Ok(())
    }
}

impl ExecutionPlan for MonScanExec {
    fn name(&self) -> &str {
        "MonScanExec"
    }
    fn properties(&self) -> &Arc<PlanProperties> {
        &self.cache
    }
    fn children(&self) -> Vec<&Arc<dyn ExecutionPlan>> {
        vec![]
    }
    fn apply_expressions(&self, f: &mut dyn FnMut(&Arc<dyn PhysicalExpr>) -> Result<TreeNodeRecursion>) -> Result<TreeNodeRecursion> {
        // the pushed predicate is part of this node: consumers of dynamic filters are discovered here
        if let Some(p) = &self.pushed {
            return f(p);
        }
        Ok(TreeNodeRecursion::Continue)
    }
    fn with_new_children(self: Arc<Self>, _children: Vec<Arc<dyn ExecutionPlan>>) -> Result<Arc<dyn ExecutionPlan>> {
        Ok(self)
    }
    fn partition_statistics(&self, partition: Option<usize>) -> Result<Arc<Statistics>> {
        let rows = |p: &Vec<RecordBatch>| p.iter().map(|b| b.num_rows()).sum::<usize>();
        let bytes = |p: &Vec<RecordBatch>| p.iter().map(|b| b.get_array_memory_size()).sum::<usize>();
        let (n, sz) = match partition {
            Some(i) => self.sh.partitions.get(i).map(|p| (rows(p), bytes(p))).unwrap_or((0, 0)),
            None => (self.sh.partitions.iter().map(rows).sum(), self.sh.partitions.iter().map(bytes).sum()),
        };
        let mut st = Statistics::new_unknown(&self.sh.out_schema);
        // filters may remove rows: the counts are upper bounds only
        st.num_rows = Precision::Inexact(n);
        st.total_byte_size = Precision::Inexact(sz);
        Ok(Arc::new(st))
    }
    fn handle_child_pushdown_result(&self, _phase: FilterPushdownPhase, child_pushdown_result: ChildPushdownResult, _config: &ConfigOptions) -> Result<FilterPushdownPropagation<Arc<dyn ExecutionPlan>>> {
        let filters: Vec<Arc<dyn PhysicalExpr>> = child_pushdown_result.parent_filters.into_iter().map(|f| f.filter).collect();
        if !self.sh.accept_physical || filters.is_empty() {
            return Ok(FilterPushdownPropagation::with_parent_pushdown_result(vec![PushedDown::No; filters.len()]));
        }
        for f in &filters {
            if has_dynamic(f) {
                *self.sh.log.dynamic_filters_received.lock().unwrap().entry(self.sh.name.clone()).or_insert(0) += 1;
            } else {
                *self.sh.log.static_filters_received.lock().unwrap() += 1;
            }
        }
        let mut all = filters.clone();
        if let Some(p) = &self.pushed {
            all.push(p.clone());
        }
        let mut node = self.clone();
        node.pushed = Some(conjunction(all));
        Ok(FilterPushdownPropagation::with_parent_pushdown_result(vec![PushedDown::Yes; filters.len()]).with_updated_node(Arc::new(node) as Arc<dyn ExecutionPlan>))
    }
    fn execute(&self, partition: usize, _context: Arc<TaskContext>) -> Result<SendableRecordBatchStream> {
        Ok(Box::pin(MonStream { sh: self.sh.clone(), pushed: self.pushed.clone(), partition, next: 0, sleep: None }))
    }
}

struct MonStream {
    sh: MonShared,
    pushed: Option<Arc<dyn PhysicalExpr>>,
    partition: usize,
    next: usize,
    sleep: Option<Pin<Box<tokio::time::Sleep>>>,
}

fn truth_mask(e: &Arc<dyn PhysicalExpr>, batch: &RecordBatch) -> Result<BooleanArray> {
    let v = e.evaluate(batch)?.into_array(batch.num_rows())?;
    let b = v.as_any().downcast_ref::<BooleanArray>().cloned().ok_or_else(|| datafusion::error::DataFusionError::Internal("filter is not boolean".into()))?;
    // NULL counts as false
    Ok(if b.nulls().is_some() { arrow::compute::prep_null_mask_filter(&b) } else { b })
}

impl MonStream {
    fn process(&self, full: &RecordBatch, batch_idx: usize) -> Result<RecordBatch> {
        let sh = &self.sh;
        *sh.log.rows_scanned.lock().unwrap() += full.num_rows() as u64;
        // 1. accepted logical filters on the full rows
        let mut full = full.clone();
        for f in &sh.table_filters {
            let m = truth_mask(f, &full)?;
            full = arrow::compute::filter_record_batch(&full, &m)?;
        }
        let projected = match &sh.projection {
            Some(p) => full.project(p)?,
            None => full.clone(),
        };
        let Some(pred) = &self.pushed else {
            *sh.log.rows_emitted.lock().unwrap() += projected.num_rows() as u64;
            return Ok(projected);
        };
        // 2. physical conjuncts: static ones first, then the dynamic ones on what the static part keeps
        let n = projected.num_rows();
        let mut static_mask = BooleanArray::from(vec![true; n]);
        let mut dynamic_mask = BooleanArray::from(vec![true; n]);
        let mut generation = 0u64;
        let mut any_dynamic = false;
        for c in split_conjunction(pred) {
            if has_dynamic(c) {
                any_dynamic = true;
                generation = generation.max(dynamic_generation(c));
                let m = truth_mask(c, &projected)?;
                dynamic_mask = arrow::compute::and(&dynamic_mask, &m)?;
            } else {
                let m = truth_mask(c, &projected)?;
                static_mask = arrow::compute::and(&static_mask, &m)?;
            }
        }
        if any_dynamic {
            *sh.log.reads.lock().unwrap().entry((sh.name.clone(), generation)).or_insert(0) += 1;
            let ids = full.column(sh.id_col).as_any().downcast_ref::<Int64Array>().expect("id column");
            let mut d = sh.log.discards.lock().unwrap();
            for i in 0..n {
                if static_mask.value(i) && !dynamic_mask.value(i) {
                    d.push(Discard { table: sh.name.clone(), partition: self.partition, batch: batch_idx, id: ids.value(i), generation });
                }
            }
        }
        let keep = arrow::compute::and(&static_mask, &dynamic_mask)?;
        if any_dynamic && std::env::var("C31_TRACE").is_ok() {
            let ids = full.column(sh.id_col).as_any().downcast_ref::<Int64Array>().expect("id column");
            let snap = datafusion::physical_expr_common::physical_expr::snapshot_physical_expr(pred.clone()).map(|e| e.to_string()).unwrap_or_default();
            let all: Vec<i64> = (0..n).map(|i| ids.value(i)).collect();
            let kept: Vec<i64> = (0..n).filter(|i| keep.value(*i)).map(|i| ids.value(i)).collect();
            eprintln!("TRACE {} p{} b{} gen={} filter=[{}] ids={:?} kept={:?}", sh.name, self.partition, batch_idx, generation, snap, all, kept);
        }
        let out = arrow::compute::filter_record_batch(&projected, &keep)?;
        *sh.log.rows_emitted.lock().unwrap() += out.num_rows() as u64;
        Ok(out)
    }
}

impl Stream for MonStream {
    type Item = Result<RecordBatch>;
    fn poll_next(mut self: Pin<&mut Self>, cx: &mut Context<'_>) -> Poll<Option<Self::Item>> {
        let this = &mut *self;
        let batches = match this.sh.partitions.get(this.partition) {
            Some(b) => b,
            None => return Poll::Ready(None),
        };
        if this.next >= batches.len() {
            return Poll::Ready(None);
        }
        if this.sleep.is_none() {
            let u = this.sh.delays.units(&this.sh.name, this.partition, this.next);
            if u > 0 {
                this.sleep = Some(Box::pin(tokio::time::sleep(this.sh.delays.unit * u as u32)));
            }
        }
        if let Some(s) = this.sleep.as_mut() {
            match s.as_mut().poll(cx) {
                Poll::Pending => return Poll::Pending,
                Poll::Ready(()) => this.sleep = None,
            }
        }
        let idx = this.next;
        this.next += 1;
        let b = batches[idx].clone();
        Poll::Ready(Some(this.process(&b, idx)))
    }
}

impl RecordBatchStream for MonStream {
    fn schema(&self) -> SchemaRef {
        self.sh.out_schema.clone()
    }
}
