//! C31 — dynamic filters never remove rows that contribute to the result.
//!
//! Part (a), end to end: joins of every type (both table orders, single / multi / string / null-equal
//! keys, residuals) under CollectLeft and Partitioned hash joins with the IN-list, hash-lookup and
//! bounds variants of the join dynamic filter; `ORDER BY … LIMIT` TopK filters (also over joins and
//! UNION ALL); aggregate min/max dynamic filters; generated C01 queries. Scans are `MonScanExec`
//! (accepts every pushed filter, evaluates the dynamic conjuncts per batch, logs and drops rejected
//! rows) or real Parquet files with small row groups and `pushdown_filters=true`. Batches arrive after
//! seeded delays: virtual sleeps on a paused current-thread runtime, real µs sleeps on a multi-thread one.
//!   ORACLE 1: rows with every dynamic-filter option on == rows with all of them off.
//!   ORACLE 2 (per-row rule, MonScan): the rows the scans discarded because of a dynamic conjunct are
//!   removed from the tables up front and the query is re-run with dynamic filters off; the result must
//!   equal the baseline, i.e. no discarded row appears in or influences the result.
//!   Second opinion for generated queries: the reference interpreter (a baseline deviation is C01's).
//! Part (b), object level: see objlevel.rs.

mod monscan;
mod objlevel;

use datafusion::prelude::{ParquetReadOptions, SessionConfig, SessionContext};
use dfv::ast::*;
use dfv::canon::{compare, CmpMode};
use dfv::cases::Case;
use dfv::engine::*;
use dfv::qgen::GenCfg;
use dfv::refint::{Db, Table};
use dfv::sched::{run_mt, run_vtq, RunOutcome};
use dfv::value::{rows_to_json, Row, Ty, Value};
use monscan::*;
use std::collections::{BTreeMap, BTreeSet, HashMap, HashSet};
use std::sync::{Arc, Mutex};
use std::time::Duration;
use vcommon::{json, Args, Json, Report, Rng};

const JOIN_TYPES: &[(&str, &str)] = &[
    ("Inner", "INNER JOIN"), ("Left", "LEFT JOIN"), ("Right", "RIGHT JOIN"), ("Full", "FULL JOIN"),
    ("LeftSemi", "LEFT SEMI JOIN"), ("LeftAnti", "LEFT ANTI JOIN"), ("RightSemi", "RIGHT SEMI JOIN"), ("RightAnti", "RIGHT ANTI JOIN"),
];

// ------------------------------------------------------------------------------------------
// data

fn gen_table(rng: &mut Rng, name: &str, nrows: usize, key_domain: i64, null_pct: u64) -> Table {
    let cols = vec![("id".to_string(), Ty::Int), ("k1".to_string(), Ty::Int), ("k2".to_string(), Ty::Int), ("s".to_string(), Ty::Str), ("v".to_string(), Ty::Int), ("f".to_string(), Ty::Float)];
    let strs = ["a", "b", "ab", "", "zz", "A", "é", "m"];
    let mut rows = vec![];
    for i in 0..nrows {
        let nul = |rng: &mut Rng, v: Value| if rng.below(100) < null_pct { Value::Null } else { v };
        let k1 = Value::Int(rng.range(0, key_domain.max(1) - 1));
        let k2 = Value::Int(rng.range(0, 2));
        let s = Value::Str(strs[rng.usize(strs.len())].to_string());
        let v = Value::Int(rng.range(-5, 40));
        let f = Value::Float(rng.range(-16, 80) as f64 / 4.0);
        rows.push(vec![Value::Int(i as i64 + 1), nul(rng, k1), nul(rng, k2), nul(rng, s), nul(rng, v), nul(rng, f)]);
    }
    rng.shuffle(&mut rows);
    Table { name: name.to_string(), cols, rows }
}

fn gen_tables(rng: &mut Rng) -> Db {
    let kd = *rng.pick(&[3i64, 8, 25]);
    let nb = *rng.pick(&[0usize, 1, 3, 8, 20, 40]);
    let np = 20 + rng.usize(120);
    let null_pct = *rng.pick(&[0u64, 10, 30]);
    let nc = 1 + rng.usize(10);
    Db { tables: vec![gen_table(rng, "b", nb, kd, null_pct), gen_table(rng, "p", np, kd * 3, null_pct), gen_table(rng, "c", nc, 3, null_pct)] }
}

// ------------------------------------------------------------------------------------------
// queries

#[derive(Clone)]
struct Q {
    sql: String,
    /// the same query as AST (reference interpreter); None for generated text-only queries
    ast: Option<Query>,
    family: &'static str,
    detail: String,
    mode: CmpMode,
    union_all: bool,
}

fn col(rel: &str, name: &str) -> Expr {
    Expr::Col { rel: rel.into(), name: name.into() }
}
fn int(i: i64) -> Expr {
    Expr::Lit(Value::Int(i), Ty::Int)
}
fn bin(a: Expr, op: BinOp, b: Expr) -> Expr {
    Expr::Bin(Box::new(a), op, Box::new(b))
}
fn tab(name: &str, alias: &str) -> From {
    From::Table { name: name.into(), alias: alias.into() }
}
fn sel(items: Vec<(Expr, &str)>, from: From, where_: Option<Expr>) -> Select {
    Select { distinct: false, items: items.into_iter().map(|(e, a)| (e, a.to_string())).collect(), from: Some(from), where_, group_by: vec![], grouping: Grouping::Plain, sets: vec![], having: None }
}
fn finish(q: Query, family: &'static str, detail: String, union_all: bool) -> Q {
    Q { sql: to_sql(&q), mode: dfv::canon::mode_for(&q), ast: Some(q), family, detail, union_all }
}

fn join_query(rng: &mut Rng, jt: usize, swapped: bool, key_shape: usize) -> Q {
    let (name, _) = JOIN_TYPES[jt];
    let kind = [JoinKind::Inner, JoinKind::Left, JoinKind::Right, JoinKind::Full, JoinKind::LeftSemi, JoinKind::LeftAnti, JoinKind::RightSemi, JoinKind::RightAnti][jt];
    let (l, r) = if swapped { ("p", "b") } else { ("b", "p") };
    let eq = |c: &str| bin(col("l", c), BinOp::Eq, col("r", c));
    let and = |a: Expr, b: Expr| bin(a, BinOp::And, b);
    let mut on = match key_shape % 5 {
        0 => eq("k1"),
        1 => and(eq("k1"), eq("k2")),
        2 => eq("s"),
        3 => bin(col("l", "k1"), BinOp::IsNotDistinct, col("r", "k1")),
        _ => and(eq("k1"), eq("s")),
    };
    if rng.chance(1, 4) {
        let residual = match rng.below(3) {
            0 => bin(col("l", "v"), BinOp::Lt, col("r", "v")),
            1 => bin(col("r", "v"), BinOp::Gt, int(3)),
            _ => bin(col("l", "f"), BinOp::Le, col("r", "f")),
        };
        on = and(on, residual);
    }
    let items = match name {
        "LeftSemi" | "LeftAnti" => vec![(col("l", "id"), "c1"), (col("l", "k1"), "c2"), (col("l", "v"), "c3")],
        "RightSemi" | "RightAnti" => vec![(col("r", "id"), "c1"), (col("r", "k1"), "c2"), (col("r", "v"), "c3")],
        _ => vec![(col("l", "id"), "c1"), (col("r", "id"), "c2"), (col("l", "v"), "c3"), (col("r", "v"), "c4")],
    };
    let where_ = if rng.chance(1, 3) {
        let side = match name {
            "LeftSemi" | "LeftAnti" => "l",
            "RightSemi" | "RightAnti" => "r",
            _ => *rng.pick(&["l", "r"]),
        };
        Some(bin(col(side, "v"), *rng.pick(&[BinOp::Gt, BinOp::Lt, BinOp::Ne]), int(rng.range(0, 20))))
    } else {
        None
    };
    let shape = ["k1", "k1+k2", "s", "k1-null-equal", "k1+s"][key_shape % 5];
    let from = From::Join { left: Box::new(tab(l, "l")), right: Box::new(tab(r, "r")), kind, on: Some(on) };
    finish(Query::simple(sel(items, from, where_)), "join", format!("{name}/{l}-{r}/{shape}"), false)
}

fn order(names: &[&str], rng: &mut Rng, last_plain: bool) -> Vec<OrderItem> {
    let n = names.len();
    names
        .iter()
        .enumerate()
        .map(|(i, c)| {
            let plain = last_plain && i + 1 == n;
            OrderItem { expr: Expr::OutCol(c.to_string()), desc: !plain && rng.bool(), nulls_first: if !plain && rng.chance(1, 2) { Some(rng.bool()) } else { None } }
        })
        .collect()
}

fn topk_query(rng: &mut Rng, k: usize) -> Q {
    let n = rng.range(1, 9) as u64;
    let off = if rng.chance(1, 4) { Some(rng.range(0, 3) as u64) } else { None };
    let p = |c: &str| col("p", c);
    let mk = |s: Select, order_by: Vec<OrderItem>, offset: Option<u64>| Query { ctes: vec![], body: SetExpr::Select(Box::new(s)), order_by, limit: Some(n), offset };
    match k % 8 {
        0 => finish(mk(sel(vec![(p("id"), "id"), (p("v"), "v"), (p("s"), "s")], tab("p", "p"), None), order(&["v", "id"], rng, false), off), "topk", "scan".into(), false),
        1 => finish(mk(sel(vec![(p("id"), "id"), (p("v"), "v")], tab("p", "p"), Some(bin(p("k1"), BinOp::Ne, int(rng.range(0, 5))))), order(&["v", "id"], rng, true), off), "topk", "scan+filter".into(), false),
        2 => finish(mk(sel(vec![(p("v"), "v")], tab("p", "p"), None), order(&["v"], rng, false), None), "topk", "scan-ties".into(), false),
        3 => finish(mk(sel(vec![(p("id"), "id"), (p("s"), "s")], tab("p", "p"), None), order(&["s", "id"], rng, true), off), "topk", "scan-string-key".into(), false),
        4 => {
            let from = From::Join { left: Box::new(tab("b", "l")), right: Box::new(tab("p", "r")), kind: JoinKind::Inner, on: Some(bin(col("l", "k1"), BinOp::Eq, col("r", "k1"))) };
            finish(mk(sel(vec![(col("l", "id"), "lid"), (col("r", "id"), "rid"), (col("r", "v"), "rv")], from, None), order(&["rv", "rid", "lid"], rng, false), None), "topk", "over-join".into(), false)
        }
        5 | 6 => {
            // UNION ALL below the TopK; variant 5 adds a per-branch constant as leading sort key
            let constant = k % 8 == 5;
            let branch = |t: &str, g: i64, shift: i64| {
                let id = if shift == 0 { col(t, "id") } else { bin(col(t, "id"), BinOp::Add, int(shift)) };
                let mut items = vec![(id, "id"), (col(t, "v"), "v")];
                if constant {
                    items.insert(0, (int(g), "g"));
                }
                SetExpr::Select(Box::new(sel(items, tab(t, t), None)))
            };
            let u = Query { ctes: vec![], body: SetExpr::SetOp { op: SetOp::Union, all: true, left: Box::new(branch("p", 1, 0)), right: Box::new(branch("b", 2, if constant { 0 } else { 1000 })) }, order_by: vec![], limit: None, offset: None };
            let from = From::Derived { q: Box::new(u), alias: "u".into() };
            let (items, names): (Vec<(Expr, &str)>, Vec<&str>) = if constant { (vec![(col("u", "g"), "g"), (col("u", "id"), "id"), (col("u", "v"), "v")], vec!["g", "v", "id"]) } else { (vec![(col("u", "id"), "id"), (col("u", "v"), "v")], vec!["v", "id"]) };
            finish(mk(sel(items, from, None), order(&names, rng, true), None), "topk", if constant { "union-all-branch-constant".into() } else { "union-all".into() }, true)
        }
        _ => finish(mk(sel(vec![(p("id"), "id"), (p("f"), "f"), (p("v"), "v")], tab("p", "p"), None), order(&["f", "v", "id"], rng, true), off), "topk", "scan-multi-key".into(), false),
    }
}

fn agg_query(rng: &mut Rng, k: usize) -> Q {
    let p = |c: &str| col("p", c);
    let w = if rng.bool() { Some(bin(p("k1"), *rng.pick(&[BinOp::Eq, BinOp::Ne, BinOp::Gt]), int(rng.range(0, 6)))) } else { None };
    let agg = |f: AggFn, c: &str| Expr::Agg { f, arg: Some(Box::new(p(c))), distinct: false, filter: None };
    let items = match k % 6 {
        0 => vec![(agg(AggFn::Min, "v"), "c1"), (agg(AggFn::Max, "v"), "c2")],
        1 => vec![(agg(AggFn::Max, "f"), "c1")],
        2 => vec![(agg(AggFn::Min, "v"), "c1")],
        3 => vec![(agg(AggFn::Min, "id"), "c1"), (agg(AggFn::Max, "id"), "c2")],
        4 => vec![(agg(AggFn::Max, "s"), "c1")],
        _ => vec![(agg(AggFn::Min, "f"), "c1"), (agg(AggFn::Max, "v"), "c2"), (agg(AggFn::Min, "v"), "c3")],
    };
    finish(Query::simple(sel(items, tab("p", "p"), w)), "aggregate", "min-max".into(), false)
}

// ------------------------------------------------------------------------------------------
// execution

#[derive(Clone, Copy, Debug, PartialEq)]
enum Source {
    Mon,
    Parquet,
}

#[derive(Clone, Copy, Debug, PartialEq)]
enum Runtime {
    Vtq,
    Mt,
}

#[derive(Clone, Debug)]
struct RunCfg {
    label: String,
    target_partitions: usize,
    batch_size: usize,
    /// datafusion.* option overrides
    options: Vec<(String, String)>,
    source: Source,
    runtime: Runtime,
    delay_seed: u64,
    logical: LogicalSupport,
}

fn dyn_off() -> Vec<(String, String)> {
    vec![("datafusion.optimizer.enable_dynamic_filter_pushdown".into(), "false".into())]
}

fn baseline_cfg() -> RunCfg {
    RunCfg { label: "baseline(all dynamic filters off)".into(), target_partitions: 2, batch_size: 8, options: dyn_off(), source: Source::Mon, runtime: Runtime::Vtq, delay_seed: 0, logical: LogicalSupport::Unsupported }
}

/// systematic variant `i`: mode × membership variant × source × runtime
fn variant(i: u64, seed: u64) -> RunCfg {
    let mut options: Vec<(String, String)> = vec![("datafusion.optimizer.enable_dynamic_filter_pushdown".into(), "true".into()), ("datafusion.execution.parquet.pushdown_filters".into(), "true".into())];
    let mode = i % 3;
    let mode_name = match mode {
        0 => {
            options.push(("datafusion.optimizer.hash_join_single_partition_threshold".into(), "0".into()));
            options.push(("datafusion.optimizer.hash_join_single_partition_threshold_rows".into(), "0".into()));
            "partitioned"
        }
        1 => {
            options.push(("datafusion.optimizer.hash_join_single_partition_threshold".into(), "1000000000".into()));
            options.push(("datafusion.optimizer.hash_join_single_partition_threshold_rows".into(), "1000000000".into()));
            "collect-left"
        }
        _ => {
            options.push(("datafusion.optimizer.repartition_joins".into(), "false".into()));
            "no-repartition-joins"
        }
    };
    let member = (i / 3) % 3;
    let member_name = match member {
        0 => "inlist",
        1 => {
            options.push(("datafusion.optimizer.hash_join_inlist_pushdown_max_size".into(), "0".into()));
            "hash-lookup(max_size=0)"
        }
        _ => {
            options.push(("datafusion.optimizer.hash_join_inlist_pushdown_max_distinct_values".into(), "2".into()));
            "hash-lookup(max_distinct=2)"
        }
    };
    let source = if (i / 9) % 3 == 2 { Source::Parquet } else { Source::Mon };
    let runtime = if (i / 2) % 4 == 3 { Runtime::Mt } else { Runtime::Vtq };
    let target_partitions = [1usize, 2, 3, 4][((i / 5) % 4) as usize];
    let logical = [LogicalSupport::Unsupported, LogicalSupport::Inexact, LogicalSupport::Exact][((i / 4) % 3) as usize];
    RunCfg { label: format!("{mode_name}/{member_name}/{source:?}/{runtime:?}/tp{target_partitions}/{logical:?}"), target_partitions, batch_size: [2usize, 8, 64][((i / 7) % 3) as usize], options, source, runtime, delay_seed: vcommon::fp_mix(seed, i), logical }
}

struct RunOut {
    rows: Vec<Row>,
    plan: String,
    discards: Vec<Discard>,
    reads: BTreeMap<(String, u64), u64>,
    dyn_received: BTreeMap<String, u64>,
    rows_scanned: u64,
    rows_emitted: u64,
}

struct Data<'a> {
    db: &'a Db,
    layout: &'a DbLayout,
    parquet_dir: Option<&'a std::path::Path>,
}

fn write_parquet(db: &Db, layout: &DbLayout, dir: &std::path::Path, rng: &mut Rng) -> Result<(), String> {
    use parquet::arrow::ArrowWriter;
    use parquet::file::properties::WriterProperties;
    for (t, l) in db.tables.iter().zip(layout.iter()) {
        let tdir = dir.join(&t.name);
        std::fs::create_dir_all(&tdir).map_err(|e| e.to_string())?;
        let parts = table_partitions(t, l);
        let mut wrote = false;
        for (i, p) in parts.iter().enumerate() {
            if p.iter().all(|b| b.num_rows() == 0) && (wrote || i + 1 < parts.len()) {
                continue;
            }
            let props = WriterProperties::builder().set_max_row_group_row_count(Some(*rng.pick(&[2usize, 4, 8, 16]))).set_data_page_row_count_limit(4).build();
            let f = std::fs::File::create(tdir.join(format!("part-{i}.parquet"))).map_err(|e| e.to_string())?;
            let mut w = ArrowWriter::try_new(f, table_schema(t), Some(props)).map_err(|e| e.to_string())?;
            for b in p {
                w.write(b).map_err(|e| e.to_string())?;
            }
            w.close().map_err(|e| e.to_string())?;
            wrote = true;
        }
    }
    Ok(())
}

async fn exec(data: &Data<'_>, sql: &str, cfg: &RunCfg, exclude: &HashMap<String, HashSet<i64>>) -> Result<RunOut, String> {
    let mut sc = SessionConfig::new().with_target_partitions(cfg.target_partitions).with_batch_size(cfg.batch_size).with_information_schema(false);
    for (k, v) in &cfg.options {
        sc.options_mut().set(k, v).map_err(|e| format!("option {k}: {e}"))?;
    }
    let ctx = SessionContext::new_with_config(sc);
    let log = Arc::new(ScanLog::default());
    match cfg.source {
        Source::Mon => {
            let delays = if cfg.delay_seed == 0 {
                Delays::none()
            } else {
                match cfg.runtime {
                    Runtime::Vtq => Delays { seed: cfg.delay_seed, max_units: 30, unit: Duration::from_millis(1), slow_partition_factor: 8 },
                    Runtime::Mt => Delays { seed: cfg.delay_seed, max_units: 40, unit: Duration::from_micros(5), slow_partition_factor: 6 },
                }
            };
            for (t, l) in data.db.tables.iter().zip(data.layout.iter()) {
                let schema = table_schema(t);
                let mut parts = table_partitions(t, l);
                if let Some(ex) = exclude.get(&t.name) {
                    for p in parts.iter_mut() {
                        for b in p.iter_mut() {
                            let ids = b.column(0).as_any().downcast_ref::<arrow::array::Int64Array>().expect("id");
                            let keep: arrow::array::BooleanArray = (0..b.num_rows()).map(|i| Some(!ex.contains(&ids.value(i)))).collect();
                            *b = arrow::compute::filter_record_batch(b, &keep).map_err(|e| e.to_string())?;
                        }
                    }
                }
                let mt = MonTable { name: t.name.clone(), schema, partitions: Arc::new(parts), log: log.clone(), delays: delays.clone(), logical: cfg.logical, accept_physical: true, id_col: 0 };
                ctx.register_table(t.name.as_str(), Arc::new(mt)).map_err(|e| e.to_string())?;
            }
        }
        Source::Parquet => {
            let dir = data.parquet_dir.ok_or("no parquet dir")?;
            for t in &data.db.tables {
                let path = dir.join(&t.name);
                ctx.register_parquet(t.name.as_str(), path.to_string_lossy().as_ref(), ParquetReadOptions::default()).await.map_err(|e| format!("register_parquet: {e}"))?;
            }
        }
    }
    let df = ctx.sql(sql).await.map_err(|e| format!("PLAN: {e}"))?;
    let plan = df.create_physical_plan().await.map_err(|e| format!("PLAN: {e}"))?;
    let text = datafusion::physical_plan::displayable(plan.as_ref()).indent(false).to_string();
    let batches = datafusion::physical_plan::collect(plan, ctx.task_ctx()).await.map_err(|e| format!("EXEC: {e}"))?;
    let rows = batches_to_rows(&batches);
    let out = RunOut {
        rows,
        plan: text,
        discards: log.discards.lock().unwrap().clone(),
        reads: log.reads.lock().unwrap().clone(),
        dyn_received: log.dynamic_filters_received.lock().unwrap().clone(),
        rows_scanned: *log.rows_scanned.lock().unwrap(),
        rows_emitted: *log.rows_emitted.lock().unwrap(),
    };
    Ok(out)
}

enum Ran {
    Ok(RunOut),
    Err(String),
    Stuck,
    Wall,
    Panic(String),
}

fn run_one(data: &Data<'_>, sql: &str, cfg: &RunCfg, exclude: &HashMap<String, HashSet<i64>>) -> Ran {
    let out = match cfg.runtime {
        Runtime::Vtq => run_vtq(|| exec(data, sql, cfg, exclude)),
        Runtime::Mt => run_mt(3, Duration::from_secs(120), || exec(data, sql, cfg, exclude)),
    };
    match out {
        RunOutcome::Done(Ok(o)) => Ran::Ok(o),
        RunOutcome::Done(Err(e)) => Ran::Err(e),
        RunOutcome::Stuck => Ran::Stuck,
        RunOutcome::Wall => Ran::Wall,
        RunOutcome::Panic(p) => Ran::Panic(p),
    }
}

// ------------------------------------------------------------------------------------------
// oracle

struct Env {
    selftest: bool,
}

fn hash_join_lines(plan: &str) -> Vec<(String, String)> {
    // "HashJoinExec: mode=Partitioned, join_type=Inner, on=[..]"
    let mut out = vec![];
    for l in plan.lines() {
        if let Some(i) = l.find("HashJoinExec:") {
            let rest = &l[i..];
            let get = |key: &str| rest.split(key).nth(1).map(|x| x.split([',', ' ']).next().unwrap_or("").to_string()).unwrap_or_default();
            out.push((get("mode="), get("join_type=")));
        }
    }
    out
}

fn localise(data: &Data<'_>, q: &Q, cfg: &RunCfg, expected: &[Row]) -> Option<&'static str> {
    let mut kinds = vec![("datafusion.optimizer.enable_topk_dynamic_filter_pushdown", "topk"), ("datafusion.optimizer.enable_join_dynamic_filter_pushdown", "join"), ("datafusion.optimizer.enable_aggregate_dynamic_filter_pushdown", "aggregate")];
    // the query family's own filter kind first
    kinds.sort_by_key(|(_, k)| *k != q.family);
    // timing-dependent runs (real threads, Parquet I/O) do not re-run identically: the family decides
    if cfg.runtime == Runtime::Mt || cfg.source == Source::Parquet {
        return kinds.first().map(|k| k.1).filter(|k| *k == q.family);
    }
    for (key, kind) in kinds {
        let mut c = cfg.clone();
        c.options.push((key.to_string(), "false".to_string()));
        if let Ran::Ok(o) = run_one(data, &q.sql, &c, &HashMap::new()) {
            if compare(&o.rows, expected, &q.mode).is_ok() {
                return Some(kind);
            }
        }
    }
    None
}

fn signature(kind: Option<&str>, q: &Q, join_type: Option<&str>) -> String {
    match kind {
        Some("topk") => format!("topk-dynamic-filter-drops-rows{}", if q.union_all { "/union-all" } else { "" }),
        Some("join") => format!("join-dynamic-filter-drops-rows/{}", join_type.unwrap_or("?")),
        Some("aggregate") => "aggregate-dynamic-filter-drops-rows".to_string(),
        _ => format!("dynamic-filter-drops-rows/{}", q.family),
    }
}

#[allow(clippy::too_many_arguments)]
fn check_query(rep: &Report, env: &Env, data: &Data<'_>, q: &Q, variants: &[RunCfg], fp: u64, reference: Option<&[Row]>, case_for_known: Option<&Case>) {
    let none = HashMap::new();
    let base = match run_one(data, &q.sql, &baseline_cfg(), &none) {
        Ran::Ok(o) => o,
        Ran::Err(e) => {
            rep.case(fp, false);
            rep.skip(&format!("baseline-rejected:{}", e.split(':').next().unwrap_or("")));
            return;
        }
        Ran::Stuck | Ran::Wall => {
            rep.case(fp, false);
            rep.inconclusive("baseline run did not finish");
            return;
        }
        Ran::Panic(p) => {
            rep.case(fp, false);
            rep.skip("baseline-panic");
            rep.extra("baseline_panic_sample", json!({"sql": q.sql, "panic": p}));
            return;
        }
    };
    let mut baseline_sound = true;
    if let Some(r) = reference {
        if compare(&base.rows, r, &q.mode).is_ok() {
            rep.count("baseline_agrees_with_reference", 1);
        } else {
            // the dynamic-filter-free run is itself not the meaning of the query: C01's finding
            let sig = case_for_known.and_then(|c| dfv::cases::explain_by_known_deviation(c, &base.rows)).unwrap_or_else(|| "unclassified".into());
            rep.count(&format!("baseline_differs_from_reference(C01):{sig}:{}:{}", q.family, q.detail.split('/').next().unwrap_or("")), 1);
            if rep.get_count("baseline_deviation_samples") < 4 {
                rep.count("baseline_deviation_samples", 1);
                rep.extra(&format!("baseline_vs_reference_sample_{}", rep.get_count("baseline_deviation_samples")), json!({"sql": q.sql, "tables": db_to_json(data.db), "rows_all_dynamic_filters_off": rows_to_json(&base.rows), "reference_rows": rows_to_json(r), "plan": base.plan}));
            }
            baseline_sound = false;
        }
    }
    if !baseline_sound {
        // nothing observed here can be attributed to a dynamic filter
        rep.case(fp, false);
        rep.skip("dynamic-filter-free-run-deviates-from-reference(C01)");
        return;
    }
    // the rows every run is compared with
    let expected: Vec<Row> = base.rows.clone();
    let witness = |cfg: &RunCfg, what: &str, on: Option<&RunOut>, extra: Json| {
        json!({
            "sql": q.sql, "family": q.family, "detail": q.detail, "variant": cfg.label, "options": cfg.options, "target_partitions": cfg.target_partitions, "batch_size": cfg.batch_size,
            "delay_seed": cfg.delay_seed, "tables": db_to_json(data.db), "layout": json!(data.layout), "compare_mode": format!("{:?}", q.mode),
            "rows_dynamic_filters_on": on.map(|o| rows_to_json(&o.rows)), "rows_all_dynamic_filters_off": rows_to_json(&base.rows), "plan": on.map(|o| o.plan.clone()),
            "discarded": on.map(|o| o.discards.iter().take(40).map(|d| json!({"table": d.table, "id": d.id, "partition": d.partition, "batch": d.batch, "generation": d.generation})).collect::<Vec<_>>()),
            "what": what, "more": extra,
        })
    };
    for cfg in variants {
        // the dynamic-filter-free twin of this variant: same partitions / batch size / join mode / source,
        // same delay script, every dynamic-filter option off. A deviation of the twin from the reference (or, without
        // reference, from the common baseline) is not a dynamic-filter effect: skipped as C01's.
        let twin_cfg = {
            let mut c = cfg.clone();
            c.options.extend(dyn_off());
            c.label = format!("{} with all dynamic filters off", cfg.label);
            c
        };
        let twin = match run_one(data, &q.sql, &twin_cfg, &none) {
            Ran::Ok(o) => o,
            _ => {
                rep.case(fp, false);
                rep.skip("dynamic-filter-free-twin-did-not-run");
                continue;
            }
        };
        if compare(&twin.rows, &expected, &q.mode).is_err() {
            rep.case(fp, false);
            rep.skip("dynamic-filter-free-twin-deviates(C01)");
            rep.count(&format!("twin_deviates:{}:{}", q.family, q.detail.split('/').next().unwrap_or("")), 1);
            continue;
        }
        let mut on = match run_one(data, &q.sql, cfg, &none) {
            Ran::Ok(o) => o,
            Ran::Err(e) => {
                rep.case(fp, false);
                if e.starts_with("PLAN") {
                    rep.skip("variant-rejected-at-planning");
                } else {
                    // the baseline ran: an execution failure only with dynamic filters on is a finding of its own kind
                    rep.violation(&format!("fails-with-dynamic-filters/{}", q.family), witness(cfg, &format!("baseline succeeds, run with dynamic filters fails: {}", e.chars().take(300).collect::<String>()), None, json!(null)));
                }
                continue;
            }
            Ran::Stuck => {
                rep.case(fp, true);
                rep.violation(&format!("stuck-with-dynamic-filters/{}", q.family), witness(cfg, "virtual-time quiescence: the query never finishes with dynamic filters on (no runnable task, no timer before the 1 h virtual timeout)", None, json!(null)));
                continue;
            }
            Ran::Wall => {
                rep.case(fp, false);
                rep.inconclusive("a multi-thread run exceeded its wall-clock guard");
                continue;
            }
            Ran::Panic(p) => {
                rep.case(fp, true);
                rep.violation(&format!("panic-with-dynamic-filters/{}", q.family), witness(cfg, &format!("panic: {p}"), None, json!(null)));
                continue;
            }
        };
        if env.selftest && !on.rows.is_empty() {
            on.rows.pop();
        }
        // evidence
        let joins = hash_join_lines(&on.plan);
        let has_dyn = on.plan.contains("DynamicFilter");
        for (mode, jt) in &joins {
            rep.count(&format!("grid:{jt}:{mode}:{}", if has_dyn { "dynamic-filter-in-plan" } else { "no-dynamic-filter" }), 1);
        }
        rep.count(&format!("runs:{}:{:?}:{:?}", q.family, cfg.source, cfg.runtime), 1);
        if on.plan.contains("TopK") {
            rep.count("plans_with_topk", 1);
        }
        for ((t, g), n) in &on.reads {
            rep.count(&format!("scan_reads_at_generation:{}", if *g <= 1 { "initial".to_string() } else if *g <= 4 { g.to_string() } else { "5+".to_string() }), *n);
            rep.seen("tables_receiving_dynamic_filters", t);
        }
        let n_dyn: u64 = on.dyn_received.values().sum();
        rep.count("dynamic_filters_bound_to_monscan", n_dyn);
        rep.count(&format!("rows_discarded_by_dynamic_filters:{}", q.family), on.discards.len() as u64);
        rep.count("rows_scanned", on.rows_scanned);
        rep.count("rows_emitted", on.rows_emitted);
        let join_type = joins.first().map(|x| x.1.clone());
        for (mode, jt) in &joins {
            if !on.discards.is_empty() {
                rep.count(&format!("grid-discards:{jt}:{mode}"), on.discards.len() as u64);
            }
        }
        let nontrivial = !on.discards.is_empty() || (cfg.source == Source::Parquet && has_dyn);
        rep.case(vcommon::fp_mix(fp, vcommon::fp_str(&cfg.label)), nontrivial);
        // ORACLE 1: same rows as with all dynamic filters off
        if let Err(diff) = compare(&on.rows, &expected, &q.mode) {
            let kind = if env.selftest { None } else { localise(data, q, cfg, &expected) };
            rep.violation(&signature(kind, q, join_type.as_deref()), witness(cfg, &format!("result with dynamic filters on differs from the result with all of them off: {diff}"), Some(&on), json!({"restored_by_disabling": kind, "reference_rows": reference.map(rows_to_json)})));
            continue;
        }
        // ORACLE 2: per-row rule — remove the discarded rows up front, dynamic filters off
        // (only where removing a row from a TABLE is the same as removing it from the one SCAN that discarded
        // it — every discarding table is scanned once — and the dynamic-filter-free run is sound)
        let scans_of = |t: &str| on.plan.matches(&format!("MonScanExec: table={t},")).count();
        let per_row_applicable = baseline_sound && on.discards.iter().all(|d| scans_of(&d.table) == 1);
        if !on.discards.is_empty() && !per_row_applicable {
            rep.count("per_row_rule_not_applicable(table scanned more than once)", 1);
        }
        if !on.discards.is_empty() && per_row_applicable {
            let mut ex: HashMap<String, HashSet<i64>> = HashMap::new();
            for d in &on.discards {
                ex.entry(d.table.clone()).or_default().insert(d.id);
            }
            rep.count("per_row_rule_checks", 1);
            let cf_cfg = RunCfg { source: Source::Mon, ..twin_cfg.clone() };
            if let Ran::Ok(cf) = run_one(data, &q.sql, &cf_cfg, &ex) {
                if let Err(diff) = compare(&cf.rows, &base.rows, &q.mode) {
                    // find one discarded row that matters on its own
                    let mut culprit = None;
                    for d in on.discards.iter().take(12) {
                        let mut one: HashMap<String, HashSet<i64>> = HashMap::new();
                        one.entry(d.table.clone()).or_default().insert(d.id);
                        if let Ran::Ok(r1) = run_one(data, &q.sql, &cf_cfg, &one) {
                            if compare(&r1.rows, &base.rows, &q.mode).is_err() {
                                culprit = Some(json!({"table": d.table, "id": d.id, "generation": d.generation, "partition": d.partition}));
                                break;
                            }
                        }
                    }
                    let kind = match q.family {
                        "join" => Some("join"),
                        "topk" => Some("topk"),
                        "aggregate" => Some("aggregate"),
                        _ => None,
                    };
                    rep.violation(&signature(kind, q, join_type.as_deref()), witness(cfg, &format!("per-row rule: the scan discarded rows that contribute to the result — without them the dynamic-filter-free result changes: {diff}"), Some(&on), json!({"single_row_that_matters": culprit, "rows_without_discarded": rows_to_json(&cf.rows)})));
                    continue;
                }
            }
        }
        if rep.want_sample() && on.discards.len() >= 3 && !base.rows.is_empty() {
            rep.sample(json!({"sql": q.sql, "variant": cfg.label, "rows": base.rows.len(), "discarded_rows": on.discards.len(), "generations_read": on.reads.keys().map(|k| k.1).collect::<BTreeSet<_>>()}));
        }
    }
}

fn handmade_case(rep: &Report, env: &Env, seed: u64, idx: u64, kind: u64, n_variants: u64) {
    let mut rng = Rng::derive(seed, &[31, 0xA, idx]);
    let db = gen_tables(&mut rng);
    let nparts = 1 + rng.usize(4);
    let layout = random_db_layout(&db, nparts, *rng.pick(&[3usize, 6, 12]), &mut rng);
    let q = match kind {
        0 => join_query(&mut rng, (idx % 8) as usize, (idx / 8) % 2 == 1, ((idx / 16) % 5) as usize),
        1 => topk_query(&mut rng, idx as usize),
        _ => agg_query(&mut rng, idx as usize),
    };
    let variants: Vec<RunCfg> = (0..n_variants).map(|j| variant(idx * 7 + j * 10 + kind, vcommon::fp_mix(seed, idx))).collect();
    let tmp = if variants.iter().any(|v| v.source == Source::Parquet) {
        let d = tempfile::tempdir().expect("tempdir");
        if let Err(e) = write_parquet(&db, &layout, d.path(), &mut rng) {
            rep.skip(&format!("parquet-write-failed:{}", e.chars().take(40).collect::<String>()));
            return;
        }
        Some(d)
    } else {
        None
    };
    let data = Data { db: &db, layout: &layout, parquet_dir: tmp.as_ref().map(|d| d.path()) };
    let fp = vcommon::fp_mix(vcommon::fp_str(&q.sql), vcommon::fp_str(&db_to_json(&db).to_string()));
    let reference = q.ast.as_ref().and_then(|a| dfv::refint::Interp::new(&db).run(a).ok().map(|r| r.rows));
    check_query(rep, env, &data, &q, &variants, fp, reference.as_deref(), None);
}

fn generated_case(rep: &Report, env: &Env, seed: u64, idx: u64) {
    let mut rng = Rng::derive(seed, &[31, 0xC, idx]);
    let cfg = GenCfg { series: false, max_depth: 1 + (idx % 3) as usize, max_rows: 30, ..GenCfg::default() };
    let case = Case::generate(&mut rng, &cfg);
    let interesting = case.feats.iter().any(|f| f.starts_with("join-") || *f == "limit" || *f == "global-aggregate" || *f == "in-subquery" || *f == "exists");
    if !interesting {
        rep.count("generated_without_join_limit_aggregate", 1);
        return;
    }
    let reference = case.reference().ok();
    let q = Q { sql: case.sql.clone(), ast: None, family: "generated", detail: "c01-fragment".into(), mode: case.mode.clone(), union_all: case.feats.contains("union-all") };
    let variants: Vec<RunCfg> = (0..2).map(|j| {
        let mut v = variant(idx * 5 + j * 3, vcommon::fp_mix(seed, idx));
        v.source = Source::Mon;
        v
    }).collect();
    let data = Data { db: &case.db, layout: &case.layout, parquet_dir: None };
    check_query(rep, env, &data, &q, &variants, case.fingerprint(), reference.as_deref(), Some(&case));
}

fn part_b(rep: &Report, args: &Args, selftest: bool, reduce: u64) {
    let rounds = (args.bound("obj_rounds", 260, 4000) / reduce).max(4);
    let cfg = objlevel::ObjCfg { updates: args.bound("obj_updates", 40, 60), readers: 3, selftest };
    let out = Mutex::new(objlevel::ObjOut::default());
    // thread-heavy rounds: a few at a time
    vcommon::par::run((args.workers / 4).max(1), 0..rounds, |r| {
        objlevel::one_round(if r < rounds / 2 { 0xC31B } else { args.seed }, r, &cfg, &out);
    });
    let o = out.into_inner().unwrap();
    rep.cases(o.reads);
    for g in &o.generations_seen {
        rep.nontrivial(vcommon::fp_mix(0xB0B, *g));
    }
    rep.count("object_level:reads", o.reads);
    rep.count("object_level:rounds", o.rounds);
    rep.count("object_level:reads_at_initial_generation", o.reads_initial);
    rep.count("object_level:reads_at_intermediate_generations", o.reads_mid);
    rep.count("object_level:reads_at_final_generation", o.reads_final);
    rep.count("object_level:reads_through_remapped_clones", o.reads_remapped);
    rep.count("object_level:reads_after_mark_complete", o.reads_after_complete);
    rep.count("object_level:distinct_generations_observed", o.generations_seen.len() as u64);
    rep.count("object_level:max_distinct_generations_in_one_round", o.max_distinct_generations_in_a_round);
    rep.count("object_level:rounds_with_3+_generations_incl_initial", o.rounds_with_3_generations_incl_initial);
    rep.obligation("object-level: reads at >= 3 distinct generations incl. the initial one", o.generations_seen.len() >= 3 && o.generations_seen.contains(&0) && o.rounds_with_3_generations_incl_initial > 0, "current() must be observed before, during and after updates");
    rep.obligation("object-level: remapped clones read", o.reads_remapped > 0, "with_new_children clones must be read");
    for (sig, w) in o.violations {
        rep.violation(&format!("object-level/{sig}"), w);
    }
}


/// Re-run a recorded witness: baseline (all dynamic filters off) and the recorded variant.
fn replay(p: &std::path::Path) -> i32 {
    let Ok(text) = std::fs::read_to_string(p) else { return 2 };
    let Ok(v) = serde_json::from_str::<Json>(&text) else { return 2 };
    let w = v.get("witness").cloned().unwrap_or(v);
    let (Some(db), Some(sql)) = (w.get("tables").and_then(db_from_json), w.get("sql").and_then(|x| x.as_str())) else { return 2 };
    let Some(layout) = w.get("layout").and_then(layout_from_json) else { return 2 };
    let label = w.get("variant").and_then(|x| x.as_str()).unwrap_or("").to_string();
    let options: Vec<(String, String)> = w.get("options").and_then(|o| serde_json::from_value(o.clone()).ok()).unwrap_or_default();
    let cfg = RunCfg {
        label: label.clone(),
        target_partitions: w.get("target_partitions").and_then(|x| x.as_u64()).unwrap_or(2) as usize,
        batch_size: w.get("batch_size").and_then(|x| x.as_u64()).unwrap_or(8) as usize,
        options,
        source: if label.contains("/Parquet/") { Source::Parquet } else { Source::Mon },
        runtime: if label.contains("/Mt/") { Runtime::Mt } else { Runtime::Vtq },
        delay_seed: w.get("delay_seed").and_then(|x| x.as_u64()).unwrap_or(0),
        logical: if label.ends_with("Exact") && !label.ends_with("Inexact") { LogicalSupport::Exact } else if label.ends_with("Inexact") { LogicalSupport::Inexact } else { LogicalSupport::Unsupported },
    };
    let tmp = tempfile::tempdir().expect("tempdir");
    if cfg.source == Source::Parquet {
        write_parquet(&db, &layout, tmp.path(), &mut Rng::new(1)).expect("parquet");
    }
    let data = Data { db: &db, layout: &layout, parquet_dir: Some(tmp.path()) };
    let mode = if w.get("compare_mode").and_then(|x| x.as_str()) == Some("Sequence") { CmpMode::Sequence } else { CmpMode::Multiset };
    println!("{sql}\nvariant: {label}");
    let none = HashMap::new();
    let base = match run_one(&data, sql, &baseline_cfg(), &none) {
        Ran::Ok(o) => o,
        _ => {
            println!("baseline did not run");
            return 2;
        }
    };
    println!("--- baseline plan\n{}baseline rows: {}", base.plan, rows_to_json(&base.rows));
    match run_one(&data, sql, &cfg, &none) {
        Ran::Ok(o) => {
            println!("--- variant plan\n{}variant rows: {}", o.plan, rows_to_json(&o.rows));
            println!("discarded: {:?}", o.discards.iter().map(|d| (d.table.clone(), d.id, d.generation)).collect::<Vec<_>>());
            if compare(&o.rows, &base.rows, &mode).is_err() {
                println!("VIOLATION property=C31 replay={} (replayed: still differs)", p.display());
                return 1;
            }
            println!("REPLAY: the variant agrees with the baseline");
            0
        }
        Ran::Err(e) => {
            println!("variant error: {e}");
            1
        }
        _ => {
            println!("variant stuck / panicked");
            1
        }
    }
}

fn run(args: &Args) -> i32 {
    if let Some(p) = &args.replay {
        return replay(p);
    }
    let rep = Report::new("C31", "exploration", args);
    rep.set_rule("part (a): case = (generated tables b/p/c or a generated C01 query, one query, one configuration variant: join mode x membership variant x source x runtime x partitions x batch size x delay script); distinct = hash(SQL + tables + variant); non-trivial = a scan discarded rows because of a dynamic conjunct (MonScan) or a dynamic filter reached a Parquet scan. part (b): one evaluation = one current() call; distinct = generation observed");
    rep.assume("the result with every dynamic-filter option off is the meaning of the query (second opinion for generated queries: the reference interpreter)");
    rep.assume("MonScanExec applies exactly the filters it accepted; a row is 'discarded by a dynamic filter' when every static conjunct keeps it and a DynamicFilterPhysicalExpr-carrying conjunct rejects it");
    rep.assume("part (b): updates are serialised by the harness, so the literal of the published expression equals the number of updates applied");
    let selftest = args.opt_u64("selftest", 0) == 1;
    let env = Env { selftest };
    if args.stage == "tsan" || args.stage == "miri" {
        part_b(&rep, args, selftest, if args.stage == "miri" { 100 } else { 10 });
        return rep.finish();
    }
    // systematic part (a): seed independent
    let n_join = args.bound("joins", 80, 480);
    let n_topk = args.bound("topk", 40, 240);
    let n_agg = args.bound("aggregates", 18, 96);
    let n_gen = args.bound("generated", 60, 1500);
    let work: Vec<(u64, u64)> = (0..n_join).map(|i| (0u64, i)).chain((0..n_topk).map(|i| (1, i))).chain((0..n_agg).map(|i| (2, i))).chain((0..n_gen).map(|i| (3, i))).collect();
    vcommon::par::run(args.workers, work.into_iter(), |(kind, i)| {
        if rep.violation_count() > 60 {
            return;
        }
        if kind == 3 {
            generated_case(&rep, &env, 0xC31, i);
        } else {
            handmade_case(&rep, &env, 0xC31, i, kind, 3);
        }
    });
    for (jt, _) in JOIN_TYPES {
        let seen = |mode: &str| rep.get_count(&format!("grid:{jt}:{mode}:dynamic-filter-in-plan")) + rep.get_count(&format!("grid:{jt}:{mode}:no-dynamic-filter"));
        // the optimizer may swap sides (Left <-> Right, LeftSemi <-> RightSemi, …): both spellings are generated, so every physical type must show up in both modes
        rep.obligation(&format!("join-grid:{jt}"), seen("Partitioned") > 0 && seen("CollectLeft") > 0, "hash join of this type must run in Partitioned and in CollectLeft mode");
    }
    for fam in ["join", "topk", "aggregate"] {
        rep.obligation(&format!("discards:{fam}"), rep.get_count(&format!("rows_discarded_by_dynamic_filters:{fam}")) > 0, "a scan must discard rows because of a dynamic filter in this query family");
    }
    rep.obligation("parquet-runs", rep.get_count("runs:join:Parquet:Vtq") + rep.get_count("runs:join:Parquet:Mt") > 0 && rep.get_count("runs:topk:Parquet:Vtq") + rep.get_count("runs:topk:Parquet:Mt") > 0, "Parquet sources must be exercised");
    rep.obligation("multi-thread-runs", rep.get_count("runs:join:Mon:Mt") > 0 && rep.get_count("runs:topk:Mon:Mt") > 0, "multi-thread pacing must be exercised");
    rep.obligation("scan-reads-initial-and-later", rep.get_count("scan_reads_at_generation:initial") > 0 && rep.get_count("scan_reads_at_generation:2") + rep.get_count("scan_reads_at_generation:3") + rep.get_count("scan_reads_at_generation:4") + rep.get_count("scan_reads_at_generation:5+") > 0, "scans must read dynamic filters before and after updates");
    // seeded random tail
    let n_rand = args.bound("random", 60, 6000);
    vcommon::par::run(args.workers, 0..n_rand, |i| {
        if rep.violation_count() > 60 || !rep.within_budget(args.tier.pick(50.0, 1200.0)) {
            return;
        }
        match i % 4 {
            0 => handmade_case(&rep, &env, args.seed, 10_000 + i, 0, 2),
            1 => handmade_case(&rep, &env, args.seed, 10_000 + i, 1, 2),
            2 => handmade_case(&rep, &env, args.seed, 10_000 + i, 2, 2),
            _ => generated_case(&rep, &env, args.seed, 10_000 + i),
        }
    });
    part_b(&rep, args, selftest, 1);
    rep.finish()
}

fn main() {
    let args = Args::parse();
    vcommon::par::quiet_panics();
    std::process::exit(run(&args));
}
