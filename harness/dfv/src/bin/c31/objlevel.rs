//! C31 part (b): object-level generation window of `DynamicFilterPhysicalExpr::current()`.
//!
//! Writer thread(s) publish `a@0 > k` for k = 1, 2, … (the literal IS the generation; the initial
//! `lit(true)` is generation 0), optionally `mark_complete()`. Reader threads call `current()` on the
//! original filter and on `with_new_children` clones (column remapped to `a@3`, and a second remap to
//! `b@7`) with the relaxed counters `started` / `completed` read around the call:
//!
//!     completed_before ≤ g ≤ started_after                     (generation window)
//!     g ≥ every generation this thread has already observed     (never older than was visible)
//!     g + 1 ≥ snapshot_generation() read before the call        (same, through the public generation)
//!     the expression is exactly `<expected column> > k`         (no torn value, remap applied)
//!
//! Only slim dependencies (physical-expr, expr-common, common, arrow): the same file is the TSan
//! workload of the `conc` crate (`#[path]` include).

use arrow::datatypes::{DataType, Field, Schema};
use datafusion_common::ScalarValue;
use datafusion_expr_common::operator::Operator;
use datafusion_physical_expr::expressions::{BinaryExpr, Column, DynamicFilterPhysicalExpr, Literal};
use datafusion_physical_expr::PhysicalExpr;
use std::collections::BTreeSet;
use std::sync::atomic::{AtomicBool, AtomicU64, Ordering};
use std::sync::{Arc, Mutex};
use vcommon::{json, Json, Rng};

pub struct ObjCfg {
    pub updates: u64,
    pub readers: usize,
    pub selftest: bool,
}

#[derive(Default)]
pub struct ObjOut {
    pub reads: u64,
    pub rounds: u64,
    pub reads_initial: u64,
    pub reads_mid: u64,
    pub reads_final: u64,
    pub reads_remapped: u64,
    pub reads_after_complete: u64,
    pub max_distinct_generations_in_a_round: u64,
    pub rounds_with_3_generations_incl_initial: u64,
    pub generations_seen: BTreeSet<u64>,
    pub violations: Vec<(String, Json)>,
}

fn published(col: &Arc<dyn PhysicalExpr>, k: u64) -> Arc<dyn PhysicalExpr> {
    Arc::new(BinaryExpr::new(Arc::clone(col), Operator::Gt, Arc::new(Literal::new(ScalarValue::Int64(Some(k as i64))))))
}

/// (generation, column name, column index) of an observed expression; None = not a published value
fn decode(e: &Arc<dyn PhysicalExpr>) -> Option<(u64, Option<(String, usize)>)> {
    if let Some(l) = e.downcast_ref::<Literal>() {
        return match l.value() {
            ScalarValue::Boolean(Some(true)) => Some((0, None)),
            _ => None,
        };
    }
    let b = e.downcast_ref::<BinaryExpr>()?;
    if *b.op() != Operator::Gt {
        return None;
    }
    let c = b.left().downcast_ref::<Column>()?;
    let l = b.right().downcast_ref::<Literal>()?;
    match l.value() {
        ScalarValue::Int64(Some(k)) if *k >= 1 => Some((*k as u64, Some((c.name().to_string(), c.index())))),
        _ => None,
    }
}

struct Target {
    name: &'static str,
    expr: Arc<dyn PhysicalExpr>,
    expect: (&'static str, usize),
}

fn current_of(t: &Target) -> datafusion_common::Result<Arc<dyn PhysicalExpr>> {
    t.expr.downcast_ref::<DynamicFilterPhysicalExpr>().expect("dynamic filter").current()
}

pub fn one_round(seed: u64, round: u64, cfg: &ObjCfg, out: &Mutex<ObjOut>) {
    let mut rng = Rng::derive(seed, &[31, 0xB, round]);
    let _schema = Schema::new(vec![Field::new("a", DataType::Int64, true)]);
    let col_a: Arc<dyn PhysicalExpr> = Arc::new(Column::new("a", 0));
    let filter = Arc::new(DynamicFilterPhysicalExpr::new(vec![Arc::clone(&col_a)], Arc::new(Literal::new(ScalarValue::Boolean(Some(true))))));
    let as_expr: Arc<dyn PhysicalExpr> = filter.clone();
    let remap1 = Arc::clone(&as_expr).with_new_children(vec![Arc::new(Column::new("a", 3))]).expect("with_new_children");
    let remap2 = Arc::clone(&remap1).with_new_children(vec![Arc::new(Column::new("b", 7))]).expect("with_new_children");
    let targets = [Target { name: "original", expr: as_expr, expect: ("a", 0) }, Target { name: "remapped(a@3)", expr: remap1, expect: ("a", 3) }, Target { name: "remapped-twice(b@7)", expr: remap2, expect: ("b", 7) }];
    let n_updates = cfg.updates;
    let writers = 1 + rng.usize(2);
    let complete = rng.bool();
    let pace_pct = *rng.pick(&[0u64, 30, 70, 100]);
    let started = AtomicU64::new(0);
    let completed = AtomicU64::new(0);
    let reads_done = AtomicU64::new(0);
    let writers_done = AtomicU64::new(0);
    let marked_complete = AtomicBool::new(false);
    let next_k = Mutex::new(0u64);
    let round_gens: Mutex<BTreeSet<u64>> = Mutex::new(BTreeSet::new());
    let readers = cfg.readers.max(1);
    std::thread::scope(|s| {
        for w in 0..writers {
            let (filter, started, completed, reads_done, writers_done, next_k, col_a, marked_complete) = (&filter, &started, &completed, &reads_done, &writers_done, &next_k, &col_a, &marked_complete);
            let mut wrng = Rng::derive(seed, &[31, 0xB, round, 100 + w as u64]);
            s.spawn(move || {
                // the initial generation must be observable: wait for some reads first
                while reads_done.load(Ordering::Relaxed) < readers as u64 * 4 {
                    std::thread::yield_now();
                }
                loop {
                    // updates are serialised by the harness (k == number of updates applied)
                    let mut g = next_k.lock().unwrap();
                    if *g >= n_updates {
                        break;
                    }
                    *g += 1;
                    let k = *g;
                    started.store(k, Ordering::Relaxed);
                    filter.update(published(col_a, k)).expect("update");
                    completed.store(k, Ordering::Relaxed);
                    drop(g);
                    if wrng.below(100) < pace_pct {
                        // let at least one read happen at this generation
                        let seen = reads_done.load(Ordering::Relaxed);
                        let mut spins = 0;
                        while reads_done.load(Ordering::Relaxed) == seen && spins < 2000 {
                            std::thread::yield_now();
                            spins += 1;
                        }
                    }
                }
                if writers_done.fetch_add(1, Ordering::SeqCst) + 1 == writers as u64 && complete {
                    filter.mark_complete();
                    marked_complete.store(true, Ordering::SeqCst);
                }
            });
        }
        for r in 0..readers {
            let (targets, started, completed, reads_done, writers_done, marked_complete, round_gens) = (&targets, &started, &completed, &reads_done, &writers_done, &marked_complete, &round_gens);
            let selftest = cfg.selftest;
            s.spawn(move || {
                let mut local = ObjOut::default();
                let mut last_seen = 0u64;
                let mut after_done = 0;
                let mut i = r;
                let mut gens: BTreeSet<u64> = BTreeSet::new();
                loop {
                    let t = &targets[i % targets.len()];
                    i += 1;
                    let finished = writers_done.load(Ordering::SeqCst) == writers as u64;
                    let was_complete = marked_complete.load(Ordering::SeqCst);
                    let public_gen = t.expr.snapshot_generation();
                    let c_before = completed.load(Ordering::Relaxed);
                    let e = current_of(t);
                    let s_after = started.load(Ordering::Relaxed);
                    reads_done.fetch_add(1, Ordering::Relaxed);
                    local.reads += 1;
                    let e = match e {
                        Ok(e) => e,
                        Err(err) => {
                            local.violations.push(("current-failed".into(), json!({"target": t.name, "error": err.to_string()})));
                            break;
                        }
                    };
                    match decode(&e) {
                        None => local.violations.push(("torn-expression".into(), json!({"target": t.name, "observed": e.to_string(), "completed_before": c_before, "started_after": s_after}))),
                        Some((g, col)) => {
                            let g = if selftest && g > 0 { g + 1000 } else { g };
                            gens.insert(g);
                            if g == 0 {
                                local.reads_initial += 1;
                            } else if g == n_updates {
                                local.reads_final += 1;
                            } else {
                                local.reads_mid += 1;
                            }
                            if t.expect.1 != 0 {
                                local.reads_remapped += 1;
                            }
                            if was_complete {
                                local.reads_after_complete += 1;
                            }
                            let w = json!({"target": t.name, "observed": e.to_string(), "observed_generation": g, "completed_before": c_before, "started_after": s_after, "snapshot_generation_before": public_gen, "previously_seen_by_this_thread": last_seen});
                            if g < c_before {
                                local.violations.push(("stale-generation".into(), w.clone()));
                            }
                            if g > s_after {
                                local.violations.push(("future-generation".into(), w.clone()));
                            }
                            if g < last_seen {
                                local.violations.push(("generation-went-backwards".into(), w.clone()));
                            }
                            if g + 1 < public_gen {
                                local.violations.push(("older-than-snapshot-generation".into(), w.clone()));
                            }
                            if let Some((name, idx)) = col {
                                if name != t.expect.0 || idx != t.expect.1 {
                                    local.violations.push(("remap-not-applied".into(), w));
                                }
                            }
                            last_seen = last_seen.max(g);
                        }
                    }
                    if local.violations.len() > 3 {
                        break;
                    }
                    if finished {
                        after_done += 1;
                        if after_done > 12 {
                            break;
                        }
                    }
                }
                round_gens.lock().unwrap().extend(gens.iter().copied());
                let mut o = out.lock().unwrap();
                o.reads += local.reads;
                o.reads_initial += local.reads_initial;
                o.reads_mid += local.reads_mid;
                o.reads_final += local.reads_final;
                o.reads_remapped += local.reads_remapped;
                o.reads_after_complete += local.reads_after_complete;
                o.generations_seen.extend(gens);
                if o.violations.len() < 10 {
                    o.violations.extend(local.violations);
                }
            });
        }
    });
    let g = round_gens.into_inner().unwrap();
    let mut o = out.lock().unwrap();
    o.rounds += 1;
    o.max_distinct_generations_in_a_round = o.max_distinct_generations_in_a_round.max(g.len() as u64);
    if g.len() >= 3 && g.contains(&0) {
        o.rounds_with_3_generations_incl_initial += 1;
    }
}
