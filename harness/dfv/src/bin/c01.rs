//! C01 — SQL query results agree with an independent reference interpreter.

use dfv::canon::compare;
use dfv::cases::Case;
use dfv::engine::*;
use dfv::qgen::GenCfg;
use dfv::refint::RefErr;
use vcommon::{json, Args, Report, Rng};

const REQUIRED_FEATURES: &[&str] = &[
    "join-inner", "join-left", "join-right", "join-full", "join-cross", "join-left-semi", "join-left-anti", "join-right-semi", "join-right-anti",
    "group-by", "having", "distinct", "order-by-total", "limit", "offset", "union", "union-all", "intersect", "except",
    "exists", "in-subquery", "not-in-subquery", "scalar-subquery", "quantified-any", "quantified-all", "correlated-subquery",
    "case", "coalesce", "nullif", "window", "frame-rows", "frame-range", "frame-groups", "recursive-cte", "cte", "series", "rollup", "cube", "grouping-sets",
    "derived-table", "global-aggregate", "agg-distinct", "agg-filter", "in-list", "like", "between", "is-distinct-from",
];

fn one_case(rep: &Report, rng: &mut Rng, cfg: &GenCfg, systematic: bool) {
    let case = Case::generate(rng, cfg);
    let fp = case.fingerprint();
    let reference = case.reference();
    let reference = match reference {
        Err(RefErr::Unsupported(why)) => {
            rep.skip(&format!("reference-declines: {}", why.split(':').next().unwrap_or("")));
            rep.case(fp, false);
            return;
        }
        r => r,
    };
    let sql = case.sql.clone();
    let res = vcommon::par::guard(|| {
        let rt = current_thread_rt();
        rt.block_on(async {
            let ctx = default_ctx(3, 3);
            register_db_layout(&ctx, &case.db, &case.layout)?;
            match tokio::time::timeout(std::time::Duration::from_secs(120), run_sql(&ctx, &sql)).await {
                Ok(r) => r.map(Some),
                Err(_) => Ok(None),
            }
        })
    });
    let engine = match res {
        Err(panic) => {
            rep.case(fp, true);
            rep.violation("engine-panic", case.witness(None, reference.as_deref().ok(), &format!("engine panicked: {panic}")));
            return;
        }
        Ok(Ok(None)) => {
            rep.case(fp, false);
            rep.inconclusive("a query exceeded the 120 s wall-clock guard");
            return;
        }
        Ok(Ok(Some(out))) => Ok(out),
        Ok(Err(e)) => Err(e),
    };
    match (engine, reference) {
        (Err(e), reference) => {
            let cls = classify(&e);
            match (&cls, &reference) {
                (ErrClass::NotImplemented, _) => {
                    rep.skip("engine-not-implemented");
                    rep.case(fp, false);
                }
                (ErrClass::Plan, _) => {
                    rep.skip("engine-plan-error");
                    rep.case(fp, false);
                    if rep.get_count("plan_error_samples") < 12 {
                        rep.count("plan_error_samples", 1);
                        rep.extra(&format!("plan_error_sample_{}", rep.get_count("plan_error_samples")), json!({"sql": case.sql, "error": e.to_string().chars().take(300).collect::<String>()}));
                    }
                }
                (ErrClass::DivZero, Err(RefErr::DivZero)) | (ErrClass::ScalarCard, Err(RefErr::ScalarCard)) => {
                    rep.count("error_agreements", 1);
                    rep.case(fp, true);
                }
                (_, Ok(rows)) => {
                    rep.case(fp, true);
                    let msg = e.to_string();
                    let kind = if msg.contains("Physical input schema should be the same as the one converted from logical input schema") {
                        if msg.contains("field nullability") { "internal-error:physical-logical-nullability".to_string() } else { "internal-error:physical-logical-field-names".to_string() }
                    } else if msg.contains("aggregate_statistics") && msg.contains("does not match with the projection expression") {
                        "internal-error:aggregate-statistics-field-name".to_string()
                    } else if cls == ErrClass::OptimizerFailure && msg.contains("No field named") {
                        "optimizer-failure:no-field-named".to_string()
                    } else {
                        format!("{cls:?}")
                    };
                    rep.violation(
                        &format!("engine-fails-where-reference-succeeds/{kind}"),
                        case.witness(None, Some(rows), &format!("engine error: {}", e.to_string().chars().take(400).collect::<String>())),
                    );
                }
                (_, Err(_)) => {
                    rep.count("both_fail_different_class", 1);
                    rep.case(fp, false);
                }
            }
        }
        (Ok(out), Err(_)) => {
            // the statement only constrains the engine's failures; an engine that avoids an error is fine
            rep.count("reference_fails_engine_succeeds", 1);
            rep.case(fp, false);
            let _ = out;
        }
        (Ok(out), Ok(rows)) => {
            for f in &case.feats {
                rep.seen("features", f);
            }
            let nontrivial = !rows.is_empty();
            rep.case(fp, nontrivial);
            rep.count(if systematic { "systematic_compared" } else { "random_compared" }, 1);
            if nontrivial {
                rep.count("nonempty_results", 1);
            }
            if out.rows.first().map(|r| r.len()) != rows.first().map(|r| r.len()) && !rows.is_empty() && !out.rows.is_empty() {
                rep.violation("column-count", case.witness(Some(&out.rows), Some(&rows), "column count differs"));
                return;
            }
            if let Err(diff) = compare(&out.rows, &rows, &case.mode) {
                // 1. documented engine deviations, modelled in the reference
                if let Some(sig) = dfv::cases::explain_by_known_deviation(&case, &out.rows) {
                    rep.violation(&sig, case.witness(Some(&out.rows), Some(&rows), &diff));
                    return;
                }
                // 2. semantic-preserving rewrites that disable a known trigger: does the engine agree then?
                //    (a) ORDER BY .. LIMIT evaluated as "sort everything, then cut" by the harness
                if case.query.limit.is_some() || case.query.offset.is_some() {
                    let mut q2 = case.query.clone();
                    let (lim, off) = (q2.limit.take(), q2.offset.take());
                    if let Some(mut rows2) = rerun_sql(&case, &dfv::ast::to_sql(&q2)) {
                        let o = (off.unwrap_or(0) as usize).min(rows2.len());
                        rows2.drain(..o);
                        if let Some(l) = lim {
                            rows2.truncate(l as usize);
                        }
                        if compare(&rows2, &rows, &case.mode).is_ok() {
                            let sig = if case.feats.contains("union-all") { "limit-pushdown-drops-rows/union-all" } else { "limit-pushdown-drops-rows" };
                            rep.violation(sig, case.witness(Some(&out.rows), Some(&rows), &format!("{diff}; the same query without LIMIT/OFFSET, cut by the harness, agrees with the reference")));
                            return;
                        }
                    }
                }
                //    (b) top-level ORDER BY keys made opaque (coalesce(k, k)): a sort can no longer be elided
                if !case.query.order_by.is_empty() {
                    let mut q2 = case.query.clone();
                    for o in q2.order_by.iter_mut() {
                        o.expr = dfv::ast::Expr::Coalesce(vec![o.expr.clone(), o.expr.clone()]);
                    }
                    if let Some(rows2) = rerun_sql(&case, &dfv::ast::to_sql(&q2)) {
                        if compare(&rows2, &rows, &case.mode).is_ok() {
                            rep.violation("sort-elided-wrong-order", case.witness(Some(&out.rows), Some(&rows), &format!("{diff}; with opaque ORDER BY keys (coalesce(k,k)) the engine agrees with the reference")));
                            return;
                        }
                    }
                }
                // 3. unexplained: minimise the witness
                let small = dfv::shrink::shrink(
                    &case,
                    &|c: &Case| match (c.reference(), rerun_sql(c, &c.sql)) {
                        (Ok(r), Some(e)) => compare(&e, &r, &c.mode).is_err() && dfv::cases::explain_by_known_deviation(c, &e).is_none(),
                        _ => false,
                    },
                    400,
                );
                let mut w = case.witness(Some(&out.rows), Some(&rows), &diff);
                if let (Ok(r), Some(e)) = (small.reference(), rerun_sql(&small, &small.sql)) {
                    w["minimised"] = small.witness(Some(&e), Some(&r), "minimised by delta debugging");
                }
                rep.violation("result-mismatch", w);
            } else if rep.want_sample() && nontrivial && case.feats.len() >= 3 {
                rep.sample(json!({"sql": case.sql, "rows": rows.len(), "features": case.feats.iter().collect::<Vec<_>>()}));
            }
        }
    }
}

/// Re-run some SQL text over the case's tables (same layout, same configuration).
fn rerun_sql(case: &Case, sql: &str) -> Option<Vec<dfv::value::Row>> {
    let sql = sql.to_string();
    vcommon::par::guard(|| {
        let rt = current_thread_rt();
        rt.block_on(async {
            let ctx = default_ctx(3, 3);
            register_db_layout(&ctx, &case.db, &case.layout).ok()?;
            run_sql(&ctx, &sql).await.ok().map(|o| o.rows)
        })
    })
    .ok()
    .flatten()
}

fn run(args: &Args) -> i32 {
    let rep = Report::new("C01", "exploration", args);
    rep.set_rule("case = (generated tables, generated SELECT of the fragment) executed by the engine (3 target partitions, batch size 3, 1-3 input partitions) and by the independent reference interpreter; distinct = hash(SQL text + table contents); non-trivial = both sides succeeded and the reference result is non-empty");
    rep.assume("the ~1.3 kLoC reference interpreter encodes SQL 3VL semantics + the engine conventions pinned in DESIGN appendix A");
    rep.assume("generated programs are deterministic by construction (total ORDER BY before LIMIT, total window orders, dyadic floats, no overflow)");
    if let Some(p) = &args.replay {
        return replay(p, &rep);
    }
    let cfg = GenCfg::default();
    let n_sys = args.bound("systematic", 2500, 6000);
    let n_rand = args.bound("random", 4000, 300_000);
    // systematic part: fixed seeds, independent of VERIF_SEED, so coverage obligations hold for every seed
    vcommon::par::run(args.workers, 0..n_sys, |i| {
        let mut rng = Rng::derive(0xC01, &[0, i]);
        let mut c = cfg.clone();
        c.max_depth = 1 + (i % 3) as usize;
        one_case(&rep, &mut rng, &c, true);
    });
    for f in REQUIRED_FEATURES {
        rep.obligation(&format!("feature:{f}"), rep.has_seen("features", f), "construct must be compared at least once in the systematic part");
    }
    vcommon::par::run(args.workers, 0..n_rand, |i| {
        if rep.violation_count() > 40 {
            return;
        }
        let mut rng = Rng::derive(args.seed, &[1, i]);
        let mut c = cfg.clone();
        c.max_depth = 1 + (i % 4) as usize;
        if i % 7 == 0 {
            c.max_rows = 30;
        }
        one_case(&rep, &mut rng, &c, false);
    });
    let evals = rep.get_count("systematic_compared") + rep.get_count("random_compared");
    rep.obligation("compared-share", evals * 100 >= (n_sys + n_rand) * 60, "at least 60% of generated cases must be compared (not skipped)");
    rep.finish()
}

/// Re-run a recorded witness: exit 1 if the engine still disagrees with the recorded reference rows.
fn replay(p: &std::path::Path, rep: &Report) -> i32 {
    let Some(w) = dfv::replay::load(p) else {
        println!("cannot load witness {}", p.display());
        return 2;
    };
    println!("{}", w.sql);
    let cfg = datafusion::prelude::SessionConfig::new().with_target_partitions(3).with_batch_size(3).with_information_schema(false);
    let res = dfv::replay::run(&w, cfg);
    let Some(reference) = &w.reference_rows else { return 2 };
    println!("reference rows: {}", dfv::value::rows_to_json(reference));
    let _ = rep;
    match res {
        Ok(rows) => {
            if dfv::canon::multiset_eq(&rows, reference) {
                println!("REPLAY: engine now agrees with the recorded reference answer");
                0
            } else {
                println!("VIOLATION property=C01 replay={} (replayed: still differs)", p.display());
                1
            }
        }
        Err(e) => {
            println!("engine error: {e}");
            println!("VIOLATION property=C01 replay={} (replayed: engine fails)", p.display());
            1
        }
    }
}

fn main() {
    let args = Args::parse();
    vcommon::par::quiet_panics();
    std::process::exit(run(&args));
}
