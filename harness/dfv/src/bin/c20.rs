//! C20 — Execution errors always surface; no truncated result counts as success.
//!
//! For every plan shape and every fault point: run the query on the VTQ runtime with exactly one injected fault and
//! check the protocol of the root stream: `Ok* Err` then (`None` | nothing more), never rows after the error, never a
//! successful end when the fault point was reached (early-terminating LIMIT shapes may ignore a fault that fires
//! after they are done, but then the result must be a valid answer), the error carries the injected tag, no panic,
//! no hang. Fault kinds: source error at batch k of partition p (every k, every p, every chaos table of the shape),
//! failing UDF at row k (marker = the row's unique id, or k-th evaluated row) in filter / projection / join filter /
//! aggregate argument / sort key / window argument / group key, memory pool refusing exactly the j-th `try_grow`,
//! disk quota exhausted during spilling.

use dfv::engine::batches_to_rows;
use dfv::sched::*;
use dfv::value::{row_total_cmp, rows_to_json, Row};
use std::collections::HashMap;
use std::time::Duration;
use vcommon::{json, Args, Json, Report, Rng};

#[derive(Clone, Copy, Debug, PartialEq)]
enum Fault {
    None,
    Source { table: usize, partition: usize, at_batch: u64, kind: FaultKind },
    Udf(FailMode),
    Pool { j: u64 },
    Disk { quota: u64 },
}

impl Fault {
    fn kind(&self) -> &'static str {
        match self {
            Fault::None => "none",
            Fault::Source { .. } => "source",
            Fault::Udf(FailMode::NthRow(_)) => "udf-nth-row",
            Fault::Udf(_) => "udf-marker",
            Fault::Pool { .. } => "pool",
            Fault::Disk { .. } => "disk-quota",
        }
    }
}

#[derive(Clone, Debug)]
struct Case {
    shape: Shape,
    fault: Fault,
    noise: Noise,
    /// self test 1: hide the observed error from the oracle
    corrupt: bool,
    /// observation only: keep polling after the first error (outside the documented stream contract)
    poll_after_error: bool,
}

impl Case {
    fn fingerprint(&self) -> u64 {
        vcommon::fp_str(&format!("{}|{:?}|{:?}", self.shape.name, self.fault, self.noise))
    }
}

struct Obs {
    proto: Protocol,
    rows: Vec<Row>,
    fired: bool,
    try_grow_calls: u64,
    udf_rows: u64,
    spills: usize,
    ops: Vec<String>,
    wall_hit: bool,
    tag: String,
}

fn tag_of(c: &Case) -> String {
    make_tag(c.fault.kind(), c.fingerprint() % 1_000_000)
}

async fn run_case(ds: &Dataset, c: &Case) -> Result<Obs, String> {
    let mut wc = c.shape.world_cfg();
    let tag = tag_of(c);
    wc.env.tag = tag.clone();
    wc.noise = c.noise;
    wc.wall_guard = Some(Duration::from_secs(120));
    match c.fault {
        Fault::None => {}
        Fault::Source { table, partition, at_batch, kind } => wc.fault = Some((table, SourceFault { partition, at_batch, kind })),
        Fault::Udf(m) => wc.udf = m,
        Fault::Pool { j } => wc.env.fail_try_grow_at = Some(j),
        Fault::Disk { quota } => wc.env.disk_quota = Some(quota),
    }
    let world = World::new(ds, &wc).await.map_err(|e| format!("world: {e}"))?;
    // planning errors are not execution errors
    let plan = world.plan(c.shape.sql).await.map_err(|e| format!("plan: {e}"))?;
    let ops = plan_operators(&plan);
    let proto = match world.execute(plan.clone()) {
        Ok(stream) => drain_protocol(stream, if c.poll_after_error { 2 } else { 0 }).await,
        // an error at `execute` time is an execution error surfaced before the first poll
        Err(e) => Protocol { error: Some(e), ..Protocol::default() },
    };
    let fired = match c.fault {
        Fault::None => false,
        Fault::Source { .. } => world.any_source_fault_fired(),
        Fault::Udf(_) => world.udf.fired(),
        Fault::Pool { .. } => world.env.pool.fired(),
        // reached iff the engine reports it: no independent observation (see the oracle)
        Fault::Disk { .. } => proto.error.is_some(),
    };
    let rows = batches_to_rows(&proto.batches);
    Ok(Obs { rows, fired, try_grow_calls: world.env.pool.try_grow_calls(), udf_rows: world.udf.rows_seen(), spills: sum_metric(&plan, "spill_count"), ops, wall_hit: world.wall_hit(), tag, proto })
}

fn multiset_contains(big: &[Row], small: &[Row]) -> bool {
    let mut b: Vec<&Row> = big.iter().collect();
    b.sort_by(|x, y| row_total_cmp(x, y));
    let mut used = vec![false; b.len()];
    'o: for r in small {
        let start = b.partition_point(|x| row_total_cmp(x, r) == std::cmp::Ordering::Less);
        let mut i = start;
        while i < b.len() && row_total_cmp(b[i], r) == std::cmp::Ordering::Equal {
            if !used[i] {
                used[i] = true;
                continue 'o;
            }
            i += 1;
        }
        return false;
    }
    true
}

struct Baselines {
    /// fault-free answers by SQL text
    answers: HashMap<String, Vec<Row>>,
}

impl Baselines {
    /// Some(true) valid answer, Some(false) not, None not comparable
    fn valid(&self, shape: &Shape, rows: &[Row]) -> Option<bool> {
        match shape.cmp {
            ShapeCmp::Opaque => None,
            ShapeCmp::Multiset => self.answers.get(shape.sql).map(|e| dfv::canon::multiset_eq(rows, e)),
            ShapeCmp::SubsetOf { of, n } => self.answers.get(of).map(|e| rows.len() == n.min(e.len()) && multiset_contains(e, rows)),
        }
    }
}


/// Contents and physical layout (partitions -> batches -> rows) of the generated tables, so that a witness can be
/// replayed without the generator. Tables beyond `max_rows` rows in total are only described by seed + config.
fn tables_json(ds: &Dataset, max_rows: usize) -> Json {
    let total: usize = (0..4).map(|i| ds.table(i).iter().flatten().map(|b| b.num_rows()).sum::<usize>()).sum();
    if total > max_rows {
        return json!(format!("{total} rows: regenerate with dfv::sched::Dataset::new(dataset_seed, dataset)"));
    }
    let dump = |t: &Vec<Vec<arrow::record_batch::RecordBatch>>| -> Json {
        json!(t.iter().map(|p| p.iter().map(|b| dfv::value::rows_to_json(&dfv::engine::batches_to_rows(std::slice::from_ref(b)))).collect::<Vec<_>>()).collect::<Vec<_>>())
    };
    json!({"columns": ["id BIGINT NOT NULL", "k BIGINT NOT NULL", "v BIGINT", "s VARCHAR NOT NULL"], "t1": dump(&ds.t1), "t2": dump(&ds.t2), "ts (declared ORDER BY k, id)": dump(&ds.ts), "tb": dump(&ds.tb)})
}

fn witness(c: &Case, ds: &Dataset, o: Option<&Obs>, expected: Option<&Vec<Row>>, what: &str) -> Json {
    json!({
        "shape": c.shape.name, "sql": c.shape.sql, "settings": c.shape.settings.iter().map(|(k, v)| format!("{k}={v}")).collect::<Vec<_>>(),
        "target_partitions": c.shape.target_partitions, "batch_size": 8, "mem_limit_fair_pool": c.shape.mem_limit,
        "fault": format!("{:?}", c.fault), "noise": format!("{:?}", c.noise), "dataset_seed": ds.seed, "dataset": format!("{:?}", DatasetCfg::default()),
        "tables": "t1(3 partitions) t2(2) ts(3, sorted on k,id) tb(3, bigger) = dfv::sched::Dataset::new(dataset_seed); columns id BIGINT, k BIGINT, v BIGINT NULL, s VARCHAR",
        "observed": o.map(|o| json!({
            "batches_before_error": o.proto.batches.len(), "rows_before_error": o.rows.len(), "error": o.proto.error.as_ref().map(|e| e.to_string().chars().take(400).collect::<String>()),
            "stream_ended_with_none": o.proto.ended, "items_after_error": o.proto.items_after_error, "rows_after_error": o.proto.rows_after_error,
            "stuck": o.proto.stuck, "stuck_after_error": o.proto.stuck_after_error, "fault_fired": o.fired, "tag": o.tag,
            "rows": if o.rows.len() <= 40 { rows_to_json(&o.rows) } else { json!(format!("{} rows", o.rows.len())) },
        })),
        "expected_rows_fault_free": expected.map(|e| if e.len() <= 40 { rows_to_json(e) } else { json!(format!("{} rows", e.len())) }),
        "what": what,
        "table_contents": tables_json(ds, 2000),
        "replay": format!("c20 C20 --opt only={}", c.shape.name),
    })
}

fn judge(rep: &Report, ds: &Dataset, base: &Baselines, c: &Case, o: &mut Obs) {
    let name = c.shape.name;
    let kind = c.fault.kind();
    let expected = match c.shape.cmp {
        ShapeCmp::Multiset => base.answers.get(c.shape.sql),
        ShapeCmp::SubsetOf { of, .. } => base.answers.get(of),
        ShapeCmp::Opaque => None,
    };
    if c.corrupt && o.proto.error.is_some() {
        // self test: the monitor "misses" the error
        o.proto.error = None;
        o.proto.ended = true;
    }
    let o: &Obs = o;
    let viol = |sig: &str, what: &str| rep.violation(&format!("{sig}/{kind}/{name}"), witness(c, ds, Some(o), expected, what));
    if o.proto.stuck {
        viol("hang", "virtual-time quiescence: a poll of the root stream did not complete within 1500 virtual seconds — nothing is runnable, the stream neither yields the error nor ends");
        return;
    }
    // The documented contract of SendableRecordBatchStream is "once a stream returns an error, it should not be polled
    // again"; what a stream does when polled nevertheless is left open, so it is observed (--opt poll_after_error=1)
    // but never a verdict.
    if o.proto.rows_after_error > 0 {
        rep.count("observed:rows-after-error", 1);
        rep.seen("shapes_yielding_rows_after_error", name);
    }
    if o.proto.stuck_after_error {
        rep.count("observed:pending-forever-after-error", 1);
    }
    rep.count(&format!("{kind}:{}", if o.fired { "fired" } else { "not-fired" }), 1);
    rep.count(&format!("grid:{kind}/{name}"), 1);
    match (&o.proto.error, o.fired) {
        (Some(e), fired) => {
            rep.count(&format!("{kind}:error-surfaced"), 1);
            if o.proto.ended {
                rep.count("ended-with-none-after-error", 1);
            }
            // under a (calibrated, binding) memory limit a genuine ResourcesExhausted is a legitimate outcome of any
            // run: the seeded schedule changes how the fair pool is shared
            let genuine_memory_failure = c.shape.mem_limit.is_some() && root_is_resources_exhausted(e) && !carries_tag(e, &o.tag);
            match c.fault {
                _ if genuine_memory_failure => rep.count(&format!("{kind}:genuine-resources-exhausted-under-memory-limit"), 1),
                Fault::Source { .. } | Fault::Udf(_) => {
                    if !carries_tag(e, &o.tag) {
                        if fired {
                            viol("error-without-injected-tag", "the surfaced error does not carry the injected failure as its cause");
                        } else {
                            viol("spurious-error", "the query failed although the injected fault never fired");
                        }
                    }
                }
                Fault::Pool { .. } => {
                    if !root_is_resources_exhausted(e) {
                        viol("resource-failure-surfaced-as-other-error", "a refused memory reservation surfaced with a root cause other than ResourcesExhausted");
                    } else if !carries_tag(e, &o.tag) {
                        rep.count("pool:error-restated-by-operator", 1);
                    }
                }
                Fault::Disk { .. } => {
                    // the quota check lives in the spill file writer and is an io::Error by construction
                    // (disk_manager.rs), so the root is ArrowError::IoError, not ResourcesExhausted
                    if !root_is_resources_exhausted(e) && !e.to_string().contains("exceeded the allowable limit") {
                        viol("disk-quota-surfaced-as-unrelated-error", "an exhausted disk quota surfaced as an error that does not name the quota");
                    } else if !root_is_resources_exhausted(e) {
                        rep.count("disk-quota:surfaced-as-io-error", 1);
                    }
                }
                Fault::None => viol("spurious-error", "fault-free run fails"),
            }
        }
        (None, fired) => {
            if !o.proto.ended {
                return;
            }
            let valid = base.valid(&c.shape, &o.rows);
            match c.fault {
                Fault::Source { .. } | Fault::Udf(_) if fired => {
                    if c.shape.early_stop && valid != Some(false) {
                        rep.count(&format!("{kind}:fired-after-early-termination"), 1);
                    } else {
                        viol("error-swallowed", &format!("the injected fault fired but the stream ended successfully (result {} the fault-free answer)", if valid == Some(true) { "equals" } else { "differs from" }));
                    }
                }
                Fault::Pool { .. } | Fault::Disk { .. } | Fault::Source { .. } | Fault::Udf(_) | Fault::None => {
                    if fired {
                        rep.count(&format!("{kind}:recovered-with-complete-result"), 1);
                    }
                    if valid == Some(false) {
                        viol(if fired { "truncated-result-after-resource-failure" } else { "wrong-result-fault-not-reached" }, "the stream ended successfully but the result differs from the fault-free answer");
                    }
                }
            }
        }
    }
}

fn execute(rep: &Report, ds: &Dataset, base: &Baselines, c: &Case) {
    let fp = c.fingerprint();
    match run_vtq(|| run_case(ds, c)) {
        RunOutcome::Panic(p) => {
            rep.case(fp, true);
            rep.violation(&format!("panic/{}/{}", c.fault.kind(), c.shape.name), witness(c, ds, None, None, &format!("panicked: {p}")));
        }
        RunOutcome::Stuck => {
            rep.case(fp, true);
            rep.violation(&format!("hang/{}/{}", c.fault.kind(), c.shape.name), witness(c, ds, None, None, "virtual-time quiescence detector fired (1 h virtual) outside a stream poll"));
        }
        RunOutcome::Wall => rep.inconclusive("wall guard"),
        RunOutcome::Done(Err(e)) => {
            rep.case(fp, false);
            rep.skip(&format!("setup-error/{}: {}", c.shape.name, e.chars().take(100).collect::<String>()));
        }
        RunOutcome::Done(Ok(mut o)) => {
            if o.wall_hit {
                rep.case(fp, false);
                rep.inconclusive("wall-clock guard of a source fired");
                return;
            }
            rep.case(fp, o.fired);
            for op in &o.ops {
                rep.seen("operators", op);
            }
            if o.fired {
                rep.seen(&format!("shapes_with_fired_{}", c.fault.kind()), c.shape.name);
            }
            judge(rep, ds, base, c, &mut o);
            if rep.want_sample() && o.fired && o.proto.batches.len() >= 2 {
                rep.sample(json!({"shape": c.shape.name, "sql": c.shape.sql, "fault": format!("{:?}", c.fault), "batches_before_error": o.proto.batches.len(),
                    "error": o.proto.error.as_ref().map(|e| e.to_string().chars().take(160).collect::<String>()), "ended_with_none": o.proto.ended}));
            }
        }
    }
}

// ------------------------------------------------------------------------------------------
// UDF positions

fn udf_shapes() -> Vec<(Shape, usize)> {
    // (shape, table whose `id` column feeds fail_at)
    vec![
        (shape("udf-filter", "SELECT id, v FROM t1 WHERE fail_at(id) >= 0", &["FilterExec"]), 0),
        (shape("udf-projection", "SELECT fail_at(id) AS f, v FROM t1", &["ProjectionExec"]), 0),
        (shape("udf-join-filter", "SELECT a.id AS a, b.id AS b FROM t1 a JOIN t2 b ON a.k = b.k AND fail_at(a.id + b.k - b.k) >= 0", &["HashJoinExec"]), 0),
        (shape("udf-nlj-filter", "SELECT a.id AS a, b.id AS b FROM t2 a JOIN t1 b ON fail_at(b.id) < a.v - 300", &["NestedLoopJoinExec"]), 0),
        (shape("udf-aggregate-argument", "SELECT k, sum(fail_at(id)) AS s FROM t1 GROUP BY k", &["AggregateExec"]), 0),
        (shape("udf-group-key", "SELECT g, count(*) AS c FROM (SELECT fail_at(id) % 5 AS g FROM t1) GROUP BY g", &["AggregateExec"]), 0),
        (shape("udf-sort-key", "SELECT id FROM t1 ORDER BY fail_at(id) DESC", &["SortExec"]), 0),
        (Shape { early_stop: true, ..shape("udf-topk-key", "SELECT id FROM t1 ORDER BY fail_at(id) DESC LIMIT 4", &["SortExec"]) }, 0),
        (shape("udf-window-argument", "SELECT id, sum(fail_at(id)) OVER (PARTITION BY k ORDER BY id) AS w FROM t1", &["BoundedWindowAggExec"]), 0),
        (shape("udf-union-branch", "SELECT id FROM t1 UNION ALL SELECT fail_at(id) FROM t2", &["UnionExec"]), 1),
        (Shape { early_stop: true, cmp: ShapeCmp::SubsetOf { of: "SELECT id FROM t2", n: 5 }, ..shape("udf-under-limit", "SELECT fail_at(id) AS id FROM t2 LIMIT 5", &["GlobalLimitExec"]) }, 1),
        (Shape { settings: &[("datafusion.optimizer.prefer_hash_join", "false")], ..shape("udf-smj-filter", "SELECT a.id AS a, b.id AS b FROM t1 a LEFT JOIN t2 b ON a.k = b.k AND fail_at(a.id + b.k - b.k) > 40", &["SortMergeJoinExec"]) }, 0),
    ]
}

fn table_ids(ds: &Dataset, t: usize) -> Vec<i64> {
    use arrow::array::Int64Array;
    let mut out = vec![];
    for b in ds.table(t).iter().flatten() {
        let a = b.column(0).as_any().downcast_ref::<Int64Array>().unwrap();
        out.extend(a.values().iter().copied());
    }
    out.sort();
    out
}

fn tables_of(sql: &str) -> Vec<usize> {
    TABLE_NAMES.iter().enumerate().filter(|(_, n)| sql.contains(&format!(" {n}"))).map(|(i, _)| i).collect()
}

/// shapes whose operators reserve memory (pool faults) — with the memory-limited variants
fn pool_shapes(base: &[Shape]) -> Vec<Shape> {
    let mut v: Vec<Shape> = base
        .iter()
        .cloned()
        .filter(|s| ["agg-partial-final-hash-repart", "sort", "sort-spill", "topk", "hash-join-partitioned", "hash-join-left-filter", "sort-merge-join", "nested-loop-join", "cross-join", "window-bounded", "window-unbounded-following", "distinct", "join-agg-sort", "interleave", "repart-preserve-order", "recursive"].contains(&s.name))
        .collect();
    v.push(Shape { mem_limit: Some(CALIBRATE), target_partitions: 1, ..shape("agg-spill", "SELECT s, count(*) AS c, max(id) AS m FROM tb GROUP BY s", &["AggregateExec"]) });
    v.push(Shape { mem_limit: Some(CALIBRATE), target_partitions: 2, settings: &[("datafusion.optimizer.prefer_hash_join", "false")], ..shape("smj-sort-spill", "SELECT a.id AS a, b.id AS b, a.s AS s FROM tb a JOIN t2 b ON a.k = b.k", &["SortMergeJoinExec"]) });
    v
}

fn run(args: &Args) -> i32 {
    let rep = Report::new("C20", "fault_enumeration", args);
    rep.set_rule("case = (plan shape via SQL over ChaosTables, ONE injected fault, seeded source noise) on the VTQ runtime; faults enumerated per shape: source error at every batch index 0..=len of every partition of every chaos table the shape reads; failing UDF with marker = every row id of the fed table (+ k-th evaluated row); memory pool refusing the j-th try_grow for every j up to the fault-free run's count; disk quotas from 0 upwards for spilling shapes. distinct = hash(shape, fault, noise); non-trivial = the injector reports that its fault point was reached");
    rep.assume("the injector's `fired` flag is exact for source / UDF / pool faults; for disk quotas the fault counts as reached iff the engine reports an error");
    rep.assume("a refused memory reservation may be handled by the operator (spilling): then the query may succeed, but only with the complete fault-free result");
    rep.assume("LIMIT shapes may finish before an eagerly prefetching operator reaches the fault; a fault firing after that may be ignored if the result is a valid answer");
    rep.assume("the stream contract ends at the first Err (\"once a stream returns an error, it should not be polled again\"): the monitor stops there, like collect()");
    let selftest = args.opt_u64("selftest", 0);
    let poll_after_error = args.opt_u64("poll_after_error", 0) == 1;
    let only = args.opt_str("only");
    let keep = |s: &Shape| only.is_none_or(|o| o == s.name);
    let ds0 = Dataset::new(0xC20, &DatasetCfg { files: true, ..DatasetCfg::default() });
    if let Some(name) = args.opt_str("probe") {
        // debugging aid: how does a shape behave under a sweep of FairSpillPool limits?
        let mut cat = shapes();
        cat.extend(pool_shapes(&shapes()));
        let Some(sh) = cat.into_iter().find(|s| s.name == name) else { return 2 };
        let unl = plain_run(&ds0, &sh);
        let peak = unl.as_ref().map(|r| r.peak).unwrap_or(0);
        println!("unlimited: peak={peak} err={:?} spills={:?}", unl.as_ref().and_then(|r| r.error.as_ref().map(|e| e.to_string())), unl.as_ref().map(|r| r.spills));
        for pct in [150u64, 100, 80, 65, 50, 40, 33, 25, 20, 15, 10, 7, 5, 3] {
            let mut p = sh.clone();
            p.mem_limit = Some(((peak * pct / 100) as usize).max(512));
            let r = plain_run(&ds0, &p);
            println!("{pct}% limit={:?}: {:?}", p.mem_limit, r.map(|r| (r.spills, r.peak, r.batches.len(), r.error.map(|e| e.to_string().chars().take(150).collect::<String>()))));
        }
        return 0;
    }
    // shape catalogs with calibrated memory limits (largest fraction of the unlimited peak that still spills + succeeds)
    let mut sshapes = shapes();
    let mut failed = calibrate_spill_limits(&ds0, &mut sshapes);
    let mut pshapes = pool_shapes(&sshapes);
    failed.extend(calibrate_spill_limits(&ds0, &mut pshapes));
    for f in failed {
        rep.skip(&format!("no memory limit found under which {f} spills and succeeds"));
    }
    let ushapes = udf_shapes();
    let spill_shapes: Vec<Shape> = pshapes.iter().filter(|s| s.mem_limit.is_some()).cloned().collect();
    for s in &spill_shapes {
        rep.count(&format!("calibrated_mem_limit:{}", s.name), s.mem_limit.unwrap_or(0) as u64);
    }

    // fault-free baselines (answers, try_grow counts, udf row counts)
    let mut all: Vec<Shape> = sshapes.clone();
    all.extend(ushapes.iter().map(|(s, _)| s.clone()));
    all.extend(pshapes.iter().filter(|s| !sshapes.iter().any(|x| x.name == s.name)).cloned());
    let mut base_sqls: Vec<(String, Shape)> = vec![];
    for s in &all {
        base_sqls.push((s.sql.to_string(), s.clone()));
        if let ShapeCmp::SubsetOf { of, .. } = s.cmp {
            base_sqls.push((of.to_string(), Shape { name: "subset-base", sql: of, cmp: ShapeCmp::Multiset, ..s.clone() }));
        }
    }
    let answers = std::sync::Mutex::new(HashMap::new());
    let counts: std::sync::Mutex<HashMap<&'static str, (u64, u64, usize)>> = std::sync::Mutex::new(HashMap::new());
    vcommon::par::run(args.workers, base_sqls.into_iter(), |(sql, s)| {
        let c = Case { shape: s.clone(), fault: Fault::None, noise: Noise::none(), corrupt: false, poll_after_error: false };
        match run_vtq(|| run_case(&ds0, &c)) {
            RunOutcome::Done(Ok(o)) if o.proto.error.is_none() && o.proto.ended => {
                counts.lock().unwrap().insert(s.name, (o.try_grow_calls, o.udf_rows, o.spills));
                answers.lock().unwrap().insert(sql, o.rows);
            }
            RunOutcome::Done(Ok(o)) => rep.skip(&format!("fault-free run of {} fails: {}", s.name, o.proto.error.map(|e| e.to_string()).unwrap_or_default().chars().take(120).collect::<String>())),
            other => rep.skip(&format!("fault-free run of {} did not finish: {:?}", s.name, match other { RunOutcome::Panic(p) => p, RunOutcome::Stuck => "stuck".into(), RunOutcome::Done(Err(e)) => e, _ => "?".into() })),
        }
    });
    let base = Baselines { answers: answers.into_inner().unwrap() };
    let counts = counts.into_inner().unwrap();

    // ---- enumerate
    let mut cases: Vec<Case> = vec![];
    // A. source errors: every table, partition, batch index (incl. "instead of EOS")
    for s in sshapes.iter().cloned().chain(ushapes.iter().map(|(s, _)| s.clone()).take(2)).filter(|s| keep(s)) {
        if !base.answers.contains_key(s.sql) {
            continue;
        }
        for t in tables_of(s.sql) {
            for (p, part) in ds0.table(t).iter().enumerate() {
                for k in 0..=part.len() as u64 {
                    let kind = if selftest == 2 && k == 1 { FaultKind::End } else { FaultKind::Error };
                    let noise = if (k + p as u64) % 2 == 0 { Noise::none() } else { Noise::seeded(k * 7 + p as u64) };
                    cases.push(Case { shape: s.clone(), fault: Fault::Source { table: t, partition: p, at_batch: k, kind }, noise, corrupt: selftest == 1 && k == 1, poll_after_error });
                }
            }
        }
    }
    let n_source = cases.len();
    // B. UDF failures: marker = every id of the fed table; k-th evaluated row on a stride
    for (s, t) in ushapes.iter().cloned().filter(|(s, _)| keep(s)) {
        if !base.answers.contains_key(s.sql) {
            continue;
        }
        for id in table_ids(&ds0, t) {
            cases.push(Case { shape: s.clone(), fault: Fault::Udf(FailMode::Marker(id)), noise: if id % 3 == 0 { Noise::seeded(id as u64) } else { Noise::none() }, corrupt: false, poll_after_error });
        }
        let seen = counts.get(s.name).map(|c| c.1).unwrap_or(0);
        let mut k = 0;
        while k <= seen {
            cases.push(Case { shape: s.clone(), fault: Fault::Udf(FailMode::NthRow(k)), noise: Noise::none(), corrupt: false, poll_after_error });
            k += 1 + seen / 24;
        }
    }
    let n_udf = cases.len() - n_source;
    // C. pool: the j-th try_grow
    let pool_cap = args.bound("pool_points", 70, 400);
    for s in pshapes.iter().cloned().filter(|s| keep(s)) {
        if !base.answers.contains_key(s.sql) {
            continue;
        }
        let n = counts.get(s.name).map(|c| c.0).unwrap_or(0);
        rep.count(&format!("try_grow_calls_fault_free:{}", s.name), n);
        let stride = 1 + n / pool_cap;
        let mut j = 0;
        while j < n {
            cases.push(Case { shape: s.clone(), fault: Fault::Pool { j }, noise: if j % 4 == 1 { Noise::seeded(j) } else { Noise::none() }, corrupt: false, poll_after_error });
            j += stride;
        }
    }
    let n_pool = cases.len() - n_source - n_udf;
    // D. disk quota
    for s in spill_shapes.iter().cloned().filter(|s| keep(s)) {
        if !base.answers.contains_key(s.sql) {
            continue;
        }
        rep.count(&format!("spill_count_fault_free:{}", s.name), counts.get(s.name).map(|c| c.2).unwrap_or(0) as u64);
        for quota in [0u64, 1, 64, 256, 512, 1024, 2048, 3072, 4096, 6144, 8192, 12288, 16384, 32768, 65536, 1 << 20] {
            cases.push(Case { shape: s.clone(), fault: Fault::Disk { quota }, noise: Noise::none(), corrupt: false, poll_after_error });
        }
    }
    let n_disk = cases.len() - n_source - n_udf - n_pool;
    rep.extra("enumerated", json!({"source": n_source, "udf": n_udf, "pool": n_pool, "disk_quota": n_disk}));
    vcommon::par::run(args.workers, cases.into_iter(), |c| execute(&rep, &ds0, &base, &c));

    // seeded random tail: random shape × random fault × random noise on the same dataset
    let n_rand = args.bound("random", 400, 20_000);
    if only.is_none() {
        vcommon::par::run(args.workers, 0..n_rand, |i| {
            if !rep.within_budget(75.0) {
                return;
            }
            let mut rng = Rng::derive(args.seed, &[20, i]);
            let noise = Noise { seed: rng.next_u64(), yield_pct: rng.below(40) as u32, sleep_pct: rng.below(30) as u32, max_sleep_ms: 1 + rng.below(20), unit_us: 0 };
            let c = match rng.below(3) {
                0 => {
                    let s = rng.pick(&sshapes).clone();
                    let ts = tables_of(s.sql);
                    if ts.is_empty() {
                        return;
                    }
                    let t = *rng.pick(&ts);
                    let p = rng.usize(ds0.table(t).len());
                    let k = rng.below(ds0.table(t)[p].len() as u64 + 1);
                    Case { shape: s, fault: Fault::Source { table: t, partition: p, at_batch: k, kind: FaultKind::Error }, noise, corrupt: false, poll_after_error }
                }
                1 => {
                    let (s, t) = rng.pick(&ushapes).clone();
                    let ids = table_ids(&ds0, t);
                    Case { shape: s, fault: Fault::Udf(FailMode::Marker(*rng.pick(&ids))), noise, corrupt: false, poll_after_error }
                }
                _ => {
                    let s = rng.pick(&pshapes).clone();
                    let n = counts.get(s.name).map(|c| c.0).unwrap_or(0);
                    Case { shape: s, fault: Fault::Pool { j: rng.below(n.max(1)) }, noise, corrupt: false, poll_after_error }
                }
            };
            if base.answers.contains_key(c.shape.sql) {
                execute(&rep, &ds0, &base, &c);
            }
        });
    }

    if only.is_none() {
        for kind in ["source", "udf-marker", "udf-nth-row", "pool", "disk-quota"] {
            let f = rep.get_count(&format!("{kind}:fired"));
            let e = rep.get_count(&format!("{kind}:error-surfaced"));
            rep.obligation(&format!("fired:{kind}"), f >= 10 && e >= 5, &format!("fault kind must fire and surface often enough (fired {f}, surfaced {e})"));
        }
        let n = rep.seen_count("shapes_with_fired_source");
        rep.obligation("source-fault-shapes", n >= 22, &format!("source faults must fire in >= 22 plan shapes (seen {n})"));
        let n = rep.seen_count("shapes_with_fired_udf-marker");
        rep.obligation("udf-positions", n >= 10, &format!("UDF faults must fire in >= 10 expression positions (seen {n})"));
        let n = rep.seen_count("shapes_with_fired_pool");
        rep.obligation("pool-fault-shapes", n >= 10, &format!("pool faults must fire in >= 10 plan shapes (seen {n})"));
        rep.obligation("not-reached-cases", rep.get_count("source:not-fired") + rep.get_count("udf-marker:not-fired") >= 5, "some fault points must be legitimately unreached (LIMIT) and then compared with the fault-free answer");
        for o in ["RepartitionExec", "CoalescePartitionsExec", "UnionExec", "InterleaveExec", "SortPreservingMergeExec", "SortExec", "HashJoinExec", "SortMergeJoinExec", "NestedLoopJoinExec", "CrossJoinExec", "AggregateExec", "BoundedWindowAggExec", "WindowAggExec", "AnalyzeExec", "RecursiveQueryExec", "DataSourceExec", "FilterExec", "ProjectionExec", "GlobalLimitExec", "LocalLimitExec"] {
            rep.obligation(&format!("operator:{o}"), rep.has_seen("operators", o), "operator must appear in a faulted plan");
        }
    }
    rep.set_exhaustive(false);
    rep.finish()
}

fn main() {
    let args = Args::parse();
    vcommon::par::quiet_panics();
    std::process::exit(run(&args));
}
