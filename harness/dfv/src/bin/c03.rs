//! C03 — logical optimization preserves results and output schema: full pipeline, each rule alone,
//! pipeline minus each rule, random prefixes — against the analyzer-only (unoptimized) plan.

use datafusion::execution::session_state::SessionStateBuilder;
use datafusion::optimizer::{Optimizer, OptimizerRule};
use datafusion::prelude::*;
use dfv::canon::compare;
use dfv::cases::Case;
use dfv::diffrun::*;
use dfv::engine::*;
use dfv::qgen::GenCfg;
use std::sync::Arc;
use vcommon::{fp_mix, fp_str, json, Args, Report, Rng};

type Rule = Arc<dyn OptimizerRule + Send + Sync>;

/// rules without which the physical planner cannot execute subqueries / set comparisons at all
const MANDATORY: &[&str] = &["rewrite_set_comparison", "decorrelate_predicate_subquery", "scalar_subquery_to_join", "decorrelate_lateral_join"];

fn ctx_with_rules(case: &Case, rules: Vec<Rule>) -> DfResult<SessionContext> {
    let state = SessionStateBuilder::new().with_config(base_config()).with_default_features().with_optimizer_rules(rules).build();
    let ctx = SessionContext::new_with_state(state);
    register_db_layout(&ctx, &case.db, &case.layout)?;
    Ok(ctx)
}

struct Out {
    exec: Exec,
    logical_names: Vec<String>,
    logical_types: Vec<String>,
    logical_text: String,
}

fn run_rules(case: &Case, rules: Vec<Rule>) -> Result<DfResult<Out>, String> {
    let sql = case.sql.clone();
    block(async {
        let ctx = ctx_with_rules(case, rules)?;
        let df = ctx.sql(&sql).await?;
        let optimized = ctx.state().optimize(df.logical_plan())?;
        let schema = optimized.schema().clone();
        let logical_names = schema.fields().iter().map(|f| f.name().clone()).collect();
        let logical_types = schema.fields().iter().map(|f| logical_type(f.data_type())).collect();
        let logical_text = format!("{}", optimized.display_indent());
        let phys = df.create_physical_plan().await?;
        let exec = exec_physical(&ctx, phys).await?;
        Ok(Out { exec, logical_names, logical_types, logical_text })
    })
}

fn one_case(rep: &Report, case: &Case, rng: &mut Rng, all: &[Rule], thorough: bool) {
    let fp = case.fingerprint();
    let by_name = |n: &str| all.iter().find(|r| r.name() == n).cloned();
    let mandatory: Vec<Rule> = MANDATORY.iter().filter_map(|n| by_name(n)).collect();
    // baseline: analyzer only; if the planner cannot execute that (subqueries), analyzer + mandatory rules
    let (base, base_rules): (Out, Vec<Rule>) = match run_rules(case, vec![]) {
        Ok(Ok(o)) => (o, vec![]),
        Ok(Err(e)) if matches!(classify(&e), ErrClass::NotImplemented | ErrClass::Plan | ErrClass::Other) => match run_rules(case, mandatory.clone()) {
            Ok(Ok(o)) => {
                rep.count("baseline_needed_mandatory_rules", 1);
                (o, mandatory.clone())
            }
            Ok(Err(e2)) => {
                rep.case(fp, false);
                rep.skip(&format!("baseline-unexecutable/{}", skip_class(&e2)));
                return;
            }
            Err(_) => {
                rep.case(fp, false);
                rep.skip("baseline-panic");
                return;
            }
        },
        Ok(Err(e)) => {
            rep.case(fp, false);
            rep.skip(&format!("baseline-error/{}", skip_class(&e)));
            return;
        }
        Err(_) => {
            rep.case(fp, false);
            rep.skip("baseline-panic");
            return;
        }
    };
    let in_base = |r: &Rule| base_rules.iter().any(|b| b.name() == r.name());
    let mut variants: Vec<(String, Vec<Rule>)> = vec![("full".into(), all.to_vec())];
    for r in all {
        if !in_base(r) {
            let mut v = base_rules.clone();
            v.push(r.clone());
            variants.push((format!("only/{}", r.name()), v));
        }
    }
    let minus: Vec<&Rule> = all.iter().filter(|r| !MANDATORY.contains(&r.name())).collect();
    let n_minus = if thorough { minus.len() } else { 6 };
    for _ in 0..n_minus {
        let r = (*rng.pick(&minus)).clone();
        variants.push((format!("minus/{}", r.name()), all.iter().filter(|x| x.name() != r.name()).cloned().collect()));
    }
    for _ in 0..(if thorough { 6 } else { 2 }) {
        let k = rng.usize(all.len() + 1);
        let mut v: Vec<Rule> = all[..k].to_vec();
        for m in &base_rules {
            if !v.iter().any(|x| x.name() == m.name()) {
                v.push(m.clone());
            }
        }
        variants.push((format!("prefix/{k}"), v));
    }
    for (name, rules) in variants {
        let kind = name.split('/').next().unwrap_or("").to_string();
        match run_rules(case, rules) {
            Err(p) => {
                rep.case(fp_mix(fp, fp_str(&name)), true);
                rep.violation(&format!("optimizer-panic/{name}"), json!({"case": case.witness(None, Some(&base.exec.rows), &format!("panic with rule set {name}: {p}"))}));
            }
            Ok(Err(e)) => {
                rep.case(fp_mix(fp, fp_str(&name)), false);
                let cls = classify(&e);
                // the property is conditional on both plans being executable
                if kind == "full" && !matches!(cls, ErrClass::NotImplemented | ErrClass::Plan) {
                    let msg = e.to_string();
                    let k = if msg.contains("Physical input schema should be the same") {
                        if msg.contains("field nullability") { "internal-error:physical-logical-nullability" } else { "internal-error:physical-logical-field-names" }
                    } else if msg.contains("No field named") {
                        "optimizer-failure:no-field-named"
                    } else if msg.contains("aggregate_statistics") {
                        "internal-error:aggregate-statistics-field-name"
                    } else {
                        "other"
                    };
                    rep.violation(&format!("optimized-plan-fails/{k}"), json!({"case": case.witness(None, Some(&base.exec.rows), &format!("the fully optimized plan fails while the unoptimized plan runs: {}", msg.chars().take(300).collect::<String>()))}));
                } else {
                    rep.skip(&format!("variant-unexecutable/{kind}/{cls:?}"));
                }
            }
            Ok(Ok(o)) => {
                let changed = o.logical_text != base.logical_text;
                rep.case(fp_mix(fp, fp_str(&o.logical_text)), changed);
                if changed {
                    rep.seen("rules_that_changed_a_plan", &name);
                    rep.count(&format!("changed/{kind}"), 1);
                }
                if o.logical_names != base.logical_names {
                    rep.violation(&format!("schema-names-changed/{name}"), json!({"sql": case.sql, "unoptimized": base.logical_names, "optimized": o.logical_names, "rule_set": name}));
                    continue;
                }
                if o.logical_types != base.logical_types {
                    rep.violation(&format!("schema-types-changed/{name}"), json!({"sql": case.sql, "unoptimized": base.logical_types, "optimized": o.logical_types, "rule_set": name}));
                    continue;
                }
                if let Err(d) = compare(&o.exec.rows, &base.exec.rows, &case.mode) {
                    // is the difference one of the known engine deviations (then the *baseline* or the variant
                    // disagrees with the reference for a reason already filed under C01)?
                    let sig = match case.reference() {
                        Ok(reference) => {
                            let variant_ok = compare(&o.exec.rows, &reference, &case.mode).is_ok();
                            let wrong: &[dfv::value::Row] = if variant_ok { &base.exec.rows } else { &o.exec.rows };
                            match dfv::cases::explain_by_known_deviation(case, wrong) {
                                Some(k) => format!("{k}/{}", if variant_ok { "unoptimized-side" } else { "optimized-side" }),
                                // the independent reference sides with the optimized plan: the baseline (analyzer +
                                // decorrelation only) is the wrong one. Root cause seen on the unchanged tree: the
                                // null-aware anti join of NOT IN only works once extract_equijoin_predicate has
                                // turned the comparison into a join key; without it NOT IN silently runs as NOT EXISTS
                                None if variant_ok && case.sql.contains("NOT IN (SELECT") => "not-in-null-awareness-needs-equijoin-extraction/unoptimized-side".to_string(),
                                None => format!("results-changed/{name}"),
                            }
                        }
                        Err(_) => format!("results-changed/{name}"),
                    };
                    rep.violation(&sig, json!({"case": case.witness(Some(&o.exec.rows), Some(&base.exec.rows), &format!("rule set {name} vs unoptimized: {d}")), "rule_set": name, "optimized_plan": o.logical_text, "unoptimized_plan": base.logical_text}));
                } else if rep.want_sample() && changed && kind == "only" {
                    rep.sample(json!({"sql": case.sql, "rule_set": name, "rows": base.exec.rows.len()}));
                }
            }
        }
    }
}

fn run(args: &Args) -> i32 {
    let rep = Report::new("C03", "exploration", args);
    rep.set_rule("case = (generated tables + query, optimizer rule set): full default pipeline, every rule alone, pipeline minus a rule, random prefixes; oracle = the same query executed from the analyzer-only plan (plus the rules the planner needs for subqueries), and the unoptimized plan's output schema; distinct = hash(case, optimized logical plan text); non-trivial = the rule set changed the logical plan");
    rep.assume("the physical planner and executor are shared by both sides (differences are due to the logical rules); plans whose unoptimized form cannot be executed are skipped as the property is conditional");
    let all: Vec<Rule> = Optimizer::new().rules;
    rep.extra("default_rules", json!(all.iter().map(|r| r.name().to_string()).collect::<Vec<_>>()));
    let cfg = GenCfg::default();
    let thorough = args.tier == vcommon::Tier::Thorough;
    let n_sys = args.bound("systematic", 250, 2000);
    let n_rand = args.bound("random", 250, 6000);
    for_each_case(args, &rep, 0xC03, n_sys, n_rand, &cfg, |case, rng, _| one_case(&rep, case, rng, &all, thorough));
    // every anchored rule should have been observed to change some plan when applied alone
    let never: Vec<String> = all.iter().map(|r| format!("only/{}", r.name())).filter(|n| !MANDATORY.iter().any(|m| n.ends_with(m)) && !rep.has_seen("rules_that_changed_a_plan", n)).collect();
    rep.extra("rules_never_observed_to_fire_alone", json!(never));
    rep.obligation("rules-fire", rep.seen_count("rules_that_changed_a_plan") >= 15, "at least 15 rule sets must have changed a plan");
    rep.finish()
}

fn main() {
    let args = Args::parse();
    vcommon::par::quiet_panics();
    std::process::exit(run(&args));
}
