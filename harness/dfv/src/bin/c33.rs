//! C33 — expression evaluation strategies agree with row-by-row SQL semantics.
//!
//! `create_physical_expr` then (1) vectorized `evaluate(batch)` == independent row-by-row evaluator
//! on the core operators; (2) full batch == every row as a 1-row batch == scalar-vs-array operand
//! variants (columns folded to literals); (3) `evaluate_selection(batch, mask)` == `evaluate(filter(
//! batch, mask))` on the selected rows; (4) a CASE never raises an error from a branch no row selects.

use arrow::array::{Array, ArrayRef, BooleanArray};
use arrow::compute::filter_record_batch;
use arrow::datatypes::{DataType, TimeUnit};
use arrow::record_batch::RecordBatch;
use datafusion_common::ScalarValue;
use datafusion_common::tree_node::{Transformed, TransformedResult, TreeNode};
use datafusion_expr::{Expr, Operator, col, lit};
use datafusion_physical_expr::PhysicalExpr;
use dfv::exprgen::*;
use std::sync::Arc;
use vcommon::{Args, Report, Rng, fp_mix, fp_str, json};

const CMP_OPS8: [Operator; 8] =
    [Operator::Eq, Operator::NotEq, Operator::Lt, Operator::LtEq, Operator::Gt, Operator::GtEq, Operator::IsDistinctFrom, Operator::IsNotDistinctFrom];

fn c(n: &str) -> Expr {
    col(n)
}

struct Cx<'a> {
    rep: &'a Report,
    selftest: bool,
}

#[derive(Clone, Default)]
struct Opts {
    /// the expression is a guard template: the reference (lazy CASE) defines every row, so an engine
    /// error on the full batch is a violation of part (4)
    guard: bool,
    /// TRY_CAST template: no row may raise
    try_cast: bool,
    rows: Option<Vec<Vec<V>>>,
}

/// at most 3 kept witnesses per signature (the report keeps 25 in total); every occurrence is counted
fn violate(rep: &Report, sig: &str, w: vcommon::Json) {
    let key = format!("violations_by_signature/{sig}");
    if rep.get_count(&key) < 3 {
        rep.violation(sig, w);
    } else {
        rep.count("violations_not_kept(same signature)", 1);
    }
    rep.count(&key, 1);
}

fn flip(v: &V) -> V {
    match v {
        V::Null => V::B(true),
        V::B(b) => V::B(!b),
        V::I(i) => V::I(i + 1),
        V::F(f) => V::F(if f.is_nan() { 0.0 } else { f + 1.0 }),
        V::S(s) => V::S(format!("{s}#")),
    }
}

fn dict_utf8() -> DataType {
    DataType::Dictionary(Box::new(DataType::Int32), Box::new(DataType::Utf8))
}

/// evidence: which evaluation strategies the built physical expression selected
fn record_strategies(rep: &Report, pe: &Arc<dyn PhysicalExpr>) {
    let dbg = format!("{pe:?}");
    for m in ["NoExpression", "WithExpression", "InfallibleExprOrNull", "ScalarOrScalar", "ExpressionOrExpression", "WithExprScalarLookupTable"] {
        if dbg.contains(&format!("eval_method: {m}")) {
            rep.seen("case_eval_methods", m);
        }
    }
    let disp = format!("{pe}");
    if disp.contains(" IN (SET) (") {
        rep.seen("inlist_paths", "static-filter");
    }
    if disp.contains(" IN ([") {
        rep.seen("inlist_paths", "dynamic-list");
    }
    for (needle, name) in [("LikeExpr", "LikeExpr"), ("SimilarToExpr", "SimilarToExpr"), ("TryCastExpr", "TryCastExpr"), ("CastExpr", "CastExpr"), ("NotExpr", "NotExpr"), ("NegativeExpr", "NegativeExpr"), ("IsNullExpr", "IsNullExpr"), ("IsNotNullExpr", "IsNotNullExpr"), ("ScalarFunctionExpr", "ScalarFunctionExpr"), ("BinaryExpr", "BinaryExpr"), ("InListExpr", "InListExpr"), ("CaseExpr", "CaseExpr")] {
        if dbg.contains(needle) {
            rep.seen("physical_nodes", name);
        }
    }
}

/// the IN-list strategy the engine's thresholds select for a constant list (derived from
/// in_list/{strategy,primitive_filter,branchless_filter}.rs; the filter objects have no Debug)
fn inlist_strategy_label(dt: &DataType, non_null: usize) -> String {
    let dt = match dt {
        DataType::Dictionary(_, v) => v.as_ref(),
        o => o,
    };
    let width = match dt {
        DataType::Int8 | DataType::UInt8 => 1,
        DataType::Int16 | DataType::UInt16 => 2,
        DataType::Int32 | DataType::UInt32 | DataType::Float32 | DataType::Date32 => 4,
        DataType::Int64 | DataType::UInt64 | DataType::Float64 | DataType::Date64 | DataType::Timestamp(_, _) => 8,
        DataType::Decimal128(_, _) => 16,
        _ => 0,
    };
    let max = match width {
        1 => 16,
        2 => 8,
        4 => 32,
        8 => 16,
        16 => 4,
        _ => 0,
    };
    if width == 0 {
        "array-static-filter".into()
    } else if non_null <= max {
        format!("branchless/{width}B")
    } else if width <= 2 {
        format!("bitmap/{width}B")
    } else if matches!(dt, DataType::Date32 | DataType::Date64 | DataType::Timestamp(_, _)) {
        "array-static-filter(temporal beyond branchless)".into()
    } else {
        format!("hashset/{width}B")
    }
}

fn substitute(e: &Expr, env: &Env, cols: &[usize], row: &[V]) -> Expr {
    e.clone()
        .transform_up(|n| {
            if let Expr::Column(cc) = &n {
                if let Some(i) = env.cols.iter().position(|s| s.name == cc.name) {
                    if cols.contains(&i) {
                        return Ok(Transformed::yes(lit_v(&env.cols[i].dt, &row[i])));
                    }
                }
            }
            Ok(Transformed::no(n))
        })
        .data()
        .expect("substitute")
}

fn masks(n: usize, rng: &mut Rng) -> Vec<(&'static str, BooleanArray)> {
    let mut out: Vec<(&'static str, BooleanArray)> = vec![];
    out.push(("all-true", BooleanArray::from(vec![true; n])));
    out.push(("all-false", BooleanArray::from(vec![false; n])));
    out.push(("sparse", BooleanArray::from((0..n).map(|i| i % 7 == 3).collect::<Vec<_>>())));
    out.push(("half", BooleanArray::from((0..n).map(|_| rng.bool()).collect::<Vec<_>>())));
    out.push((
        "with-nulls",
        (0..n)
            .map(|_| match rng.usize(3) {
                0 => None,
                1 => Some(true),
                _ => Some(false),
            })
            .collect::<BooleanArray>(),
    ));
    out.push(("single", BooleanArray::from((0..n).map(|i| i == n / 2).collect::<Vec<_>>())));
    out
}

fn eval_sel(pe: &Arc<dyn PhysicalExpr>, batch: &RecordBatch, mask: &BooleanArray) -> Result<ArrayRef, String> {
    match vcommon::par::guard(|| pe.evaluate_selection(batch, mask).and_then(|cv| cv.into_array(batch.num_rows()))) {
        Ok(Ok(a)) => Ok(a),
        Ok(Err(e)) => Err(e.to_string()),
        Err(p) => Err(format!("panic: {p}")),
    }
}

fn check_expr(cx: &Cx, env: &Env, tag: &str, raw: Expr, rng: &mut Rng, case_no: u64, opts: &Opts) {
    let rep = cx.rep;
    let coerced = match env.coerce(raw) {
        Ok(e) => e,
        Err(_) => {
            rep.skip("type-coercion-rejects");
            return;
        }
    };
    let text = format!("{coerced}");
    let fp = fp_mix(fp_str(&text), fp_str(tag));
    let pe = match vcommon::par::guard(|| env.physical(&coerced)) {
        Ok(Ok(p)) => p,
        Ok(Err(e)) => {
            rep.skip(if e.to_string().contains("not implemented") || e.to_string().contains("NotImplemented") { "physical-planning-not-implemented" } else { "physical-planning-rejects" });
            return;
        }
        Err(_) => {
            rep.skip("physical-planning-panics");
            return;
        }
    };
    record_strategies(rep, &pe);
    let rows: Vec<Vec<V>> = match &opts.rows {
        Some(r) => r.clone(),
        None => build_rows(env, &coerced, rng, rep.args.opt_u64("cap", 320) as usize, 16).0,
    };
    let batch = env.batch(&rows);
    let refs = referenced_cols(&coerced, env);
    let n = rows.len();
    let witness_base = |what: &str, r: usize, more: vcommon::Json| {
        json!({"family": tag, "what": what, "expr": text, "physical": format!("{pe}"), "schema": env.schema_json(),
               "row": row_json(env, &rows[r], &refs), "row_index": r, "batch_rows": n, "detail": more})
    };

    // ---- evaluate: full batch and row by row
    let full = eval_batch(&pe, &batch);
    let single = eval_rowwise(&pe, &batch);
    if single.panicked || full.as_ref().err().is_some_and(|e| e.starts_with("panic: ")) {
        rep.count("engine_panics", 1);
        if rep.get_count("panic_samples") < 6 {
            rep.count("panic_samples", 1);
            rep.extra(&format!("panic_sample_{}", rep.get_count("panic_samples")), json!({"expr": text, "error": full.as_ref().err()}));
        }
    }
    // engine value per row: vectorized result where the batch evaluates, else the 1-row result
    let mut eng: Vec<Option<V>> = match &full {
        Ok(a) => (0..n).map(|i| Some(cell_v(a.as_ref(), i))).collect(),
        Err(_) => single.vals.clone(),
    };
    if cx.selftest && case_no % 5 == 0 && !eng.is_empty() {
        let k = (case_no as usize / 5) % eng.len();
        if let Some(v) = &eng[k] {
            eng[k] = Some(flip(v));
        }
    }
    let mut compared = 0u64;

    // ---- (2a) full batch vs 1-row batches
    if let Ok(a) = &full {
        rep.count("batches_evaluated", 1);
        for r in 0..n {
            if let (Some(fv), Some(sv)) = (&eng[r], &single.vals[r]) {
                compared += 1;
                if !fv.same(sv) {
                    // float arithmetic over NaN / inf / zero inputs yields NaN whose SIGN differs between the
                    // vectorized kernel and the 1-row path; the engine's total order on floats then compares
                    // -NaN below and +NaN above every number: one root cause, keyed by its own signature
                    let special = rows[r].iter().any(|v| matches!(v, V::F(f) if f.is_nan() || f.is_infinite() || *f == 0.0));
                    let arith = [" + ", " - ", " * ", " / ", " % "].iter().any(|o| text.contains(o));
                    let sig = if special && arith { "batch-vs-single-row/nan-sign-from-float-arithmetic".to_string() } else { format!("batch-vs-single-row/{tag}") };
                    violate(rep, &sig, witness_base("full-batch value differs from the value of the same row evaluated as a 1-row batch", r, json!({"batch_value": fv.to_json(), "single_row_value": sv.to_json()})));
                    break;
                }
            }
        }
        if let Some(sdt) = &single.dt {
            if sdt != a.data_type() {
                violate(rep, &format!("batch-vs-single-row-data-type/{tag}"), json!({"family": tag, "expr": text, "batch_type": a.data_type().to_string(), "single_row_type": sdt.to_string()}));
            }
        }
    } else {
        rep.count("batches_raising_error", 1);
        if single.vals.iter().all(|v| v.is_some()) && n > 0 {
            rep.count("batch_error_but_every_row_ok", 1);
        }
    }

    // ---- (1) independent reference
    match compile(&coerced, env) {
        Ok(r) => {
            rep.count("reference_supported_exprs", 1);
            let mut n_ref = 0u64;
            let mut all_defined = true;
            let mut zero_sign_reported = false;
            // a disagreement that disappears when membership tests (IN / simple CASE / NULLIF) compare floats
            // bit-wise has one precise root cause: those kernels do not normalise -0.0 like `=` does
            let explained_by_zero_sign = |row: &[V], ev: &Option<V>| -> bool {
                set_membership_bitwise(true);
                let alt = r.eval(row);
                set_membership_bitwise(false);
                match (alt, ev) {
                    (Ok(a), Some(e)) => a.same(e),
                    (Err(RErr::Error), None) => true,
                    // with bit-wise membership the +-0 difference feeds arithmetic that produces NaN, which the
                    // reference declines to model (sign/payload unspecified): the engine's NaN is that same effect
                    (Err(_), Some(V::F(f))) if f.is_nan() => true,
                    // the reference evaluates this row under `=` membership but declines under bit-wise
                    // membership: the two modes took different branches, i.e. a +-0 membership test decides
                    // the row, and what follows (NaN arithmetic) is outside the reference: not judged
                    (Err(RErr::Unsup), _) => true,
                    _ => false,
                }
            };
            let construct = if text.contains(" IN (") { "in-list" } else if text.contains("CASE ") { "case" } else if text.contains("nullif(") { "nullif" } else { "other" };
            for (i, row) in rows.iter().enumerate() {
                match (r.eval(row), &eng[i]) {
                    (Ok(rv), Some(ev)) => {
                        n_ref += 1;
                        if !ev.same(&rv) {
                            let w = witness_base("engine value differs from row-by-row SQL semantics", i, json!({"engine": ev.to_json(), "reference": rv.to_json(), "from_full_batch": full.is_ok()}));
                            if explained_by_zero_sign(row, &eng[i]) {
                                rep.count(&format!("rows_membership_float_zero_sign/{construct}"), 1);
                                if !zero_sign_reported && construct != "nullif" && construct != "other" {
                                    violate(rep, &format!("membership-float-zero-sign/{construct}"), w);
                                }
                                zero_sign_reported = true;
                                all_defined = false;
                                continue;
                            }
                            violate(rep, &format!("vectorized-vs-reference/{tag}"), w);
                            break;
                        }
                    }
                    (Ok(rv), None) => {
                        all_defined = false;
                        let w = witness_base("engine raises an error on a row whose value is defined (1-row batch)", i, json!({"reference": rv.to_json(), "batch_error": full.as_ref().err()}));
                        if explained_by_zero_sign(row, &eng[i]) {
                            rep.count(&format!("rows_membership_float_zero_sign/{construct}"), 1);
                            if !zero_sign_reported && construct != "nullif" && construct != "other" {
                                violate(rep, &format!("membership-float-zero-sign/{construct}"), w);
                            }
                            zero_sign_reported = true;
                            continue;
                        }
                        violate(rep, &format!("engine-error-where-reference-defined/{tag}"), w);
                        break;
                    }
                    (Err(RErr::Error), Some(_)) => {
                        rep.count("rows_reference_error_engine_ok", 1);
                        all_defined = false;
                    }
                    (Err(_), _) => all_defined = false,
                }
            }
            rep.count("rows_compared_with_reference", n_ref);
            compared += n_ref;
            // ---- (4) guarded templates: every row is defined, so the full batch must evaluate
            if opts.guard && all_defined {
                rep.count("guard_templates_checked", 1);
                if let Err(e) = &full {
                    violate(rep, &format!("case-raises-from-unselected-branch/{tag}"), json!({"family": tag, "expr": text, "physical": format!("{pe}"), "schema": env.schema_json(), "error": e, "rows": rows.iter().map(|r| row_json(env, r, &refs)).take(12).collect::<Vec<_>>() }));
                }
            }
        }
        Err(why) => {
            rep.count("reference_unsupported_exprs", 1);
            rep.seen("reference_unsupported_reasons", why.split(' ').next().unwrap_or(""));
            if opts.guard {
                rep.count("guard_templates_without_reference", 1);
                if let Err(e) = &full {
                    // guarded casts are outside the reference: the guard makes every row defined by construction
                    violate(rep, &format!("case-raises-from-unselected-branch/{tag}"), json!({"family": tag, "expr": text, "physical": format!("{pe}"), "error": e, "schema": env.schema_json()}));
                }
            }
        }
    }
    if opts.try_cast {
        for r in 0..n {
            if single.vals[r].is_none() {
                violate(rep, &format!("try-cast-raises/{tag}"), witness_base("TRY_CAST raises instead of returning NULL", r, json!({"batch_error": full.as_ref().err()})));
                break;
            }
        }
    }

    // ---- (2b) scalar-vs-array operand combinations
    if !refs.is_empty() && n > 0 {
        for k in 0..2usize {
            let r = rng.usize(n);
            let Some(ev) = &eng[r] else { continue };
            // every referenced column folded to a literal: scalar-only evaluation
            let (cols, sub_rows): (Vec<usize>, Vec<usize>) = if k == 0 || refs.len() < 2 {
                (refs.clone(), vec![r])
            } else {
                let cidx = refs[rng.usize(refs.len())];
                (vec![cidx], (0..n).filter(|&i| rows[i][cidx].same(&rows[r][cidx])).collect())
            };
            let folded = substitute(&coerced, env, &cols, &rows[r]);
            let Ok(Ok(fpe)) = vcommon::par::guard(|| env.physical(&folded)) else {
                rep.count("scalar_variant_not_plannable", 1);
                continue;
            };
            let sub = env.batch(&sub_rows.iter().map(|&i| rows[i].clone()).collect::<Vec<_>>());
            match eval_batch(&fpe, &sub) {
                Ok(a) => {
                    rep.count(if cols.len() == refs.len() { "scalar_variants_all_columns_folded" } else { "scalar_variants_one_column_folded" }, 1);
                    for (j, &i) in sub_rows.iter().enumerate() {
                        let Some(orig_v) = &eng[i] else { continue };
                        let sv = cell_v(a.as_ref(), j);
                        compared += 1;
                        if !sv.same(orig_v) {
                            violate(rep, 
                                &format!("scalar-vs-array/{tag}"),
                                witness_base("value changes when column operands are replaced by equal literals", i, json!({"folded_expr": format!("{folded}"), "array_form": orig_v.to_json(), "scalar_form": sv.to_json()})),
                            );
                            break;
                        }
                    }
                    let _ = ev;
                }
                Err(_) => rep.count("scalar_variant_raises_error", 1),
            }
        }
    }

    // ---- (3) evaluate_selection
    if n > 0 {
        for (mname, mask) in masks(n, rng) {
            let filtered = match filter_record_batch(&batch, &mask) {
                Ok(b) => b,
                Err(_) => continue,
            };
            let Ok(fa) = eval_batch(&pe, &filtered) else {
                rep.count("selection_filtered_eval_errors", 1);
                continue;
            };
            rep.seen("selection_masks", mname);
            match eval_sel(&pe, &batch, &mask) {
                Err(e) => {
                    violate(rep, &format!("evaluate-selection-raises/{tag}"), json!({"family": tag, "expr": text, "physical": format!("{pe}"), "mask": mname, "error": e, "schema": env.schema_json(), "note": "evaluate(filter(batch, mask)) succeeds"}));
                    break;
                }
                Ok(sa) => {
                    let mut k = 0usize;
                    let mut bad = false;
                    for i in 0..n {
                        if mask.is_valid(i) && mask.value(i) {
                            let (a, b) = (cell_v(sa.as_ref(), i), cell_v(fa.as_ref(), k));
                            k += 1;
                            compared += 1;
                            let a = if cx.selftest && case_no % 11 == 1 && k == 1 { flip(&a) } else { a };
                            if !a.same(&b) {
                                violate(rep, 
                                    &format!("evaluate-selection-differs/{tag}"),
                                    witness_base("evaluate_selection differs from evaluate(filter(batch, mask)) on a selected row", i, json!({"mask": mname, "selection": a.to_json(), "filtered": b.to_json()})),
                                );
                                bad = true;
                                break;
                            }
                        }
                    }
                    rep.count("selection_comparisons", 1);
                    if bad {
                        break;
                    }
                }
            }
        }
    }
    rep.count("rows_compared", compared);
    rep.case(fp, compared > 0);
    if rep.want_sample() && case_no % 397 == 5 {
        rep.sample(json!({"family": tag, "expr": text, "physical": format!("{pe}"), "rows": n, "comparisons": compared}));
    }
}

// ------------------------------------------------------------------------------------------------
// enumerated strategy-selecting shapes
// ------------------------------------------------------------------------------------------------

/// k-th distinct value of a type (deterministic)
fn nth_value(dt: &DataType, k: usize) -> V {
    let k = k as i128;
    let zig = if k % 2 == 0 { k / 2 } else { -(k + 1) / 2 }; // 0,-1,1,-2,2..
    match dt {
        DataType::Boolean => V::B(k % 2 == 0),
        DataType::Int8 => V::I(zig.clamp(-128, 127)),
        DataType::Int16 | DataType::Int32 | DataType::Int64 | DataType::Date32 => V::I(zig * 3),
        DataType::UInt8 => V::I((k * 2) % 256),
        DataType::UInt16 | DataType::UInt32 | DataType::UInt64 => V::I(k * 3),
        DataType::Float32 | DataType::Float64 => V::F(zig as f64 * 0.5),
        DataType::Utf8 | DataType::LargeUtf8 | DataType::Utf8View => V::S(match k {
            0 => "a".into(),
            1 => "".into(),
            2 => "A".into(),
            3 => "ab".into(),
            _ => format!("v{k}"),
        }),
        DataType::Dictionary(_, v) => nth_value(v, k as usize),
        DataType::Timestamp(_, _) => V::I(D_2024 * DAY_NS + zig * 1_000_000_007),
        DataType::Decimal128(_, _) => V::I(zig * 50),
        other => panic!("harness: nth_value {other}"),
    }
}

fn inlist_types() -> Vec<DataType> {
    vec![
        DataType::Int8,
        DataType::Int16,
        DataType::Int32,
        DataType::Int64,
        DataType::UInt8,
        DataType::UInt16,
        DataType::UInt32,
        DataType::UInt64,
        DataType::Float32,
        DataType::Float64,
        DataType::Utf8,
        DataType::Utf8View,
        DataType::LargeUtf8,
        dict_utf8(),
        DataType::Date32,
        TS,
        DEC,
        DataType::Boolean,
    ]
}

fn run_inlist_shapes(cx: &Cx, args: &Args, div: usize) {
    let sizes = [0usize, 1, 2, 3, 4, 8, 16, 17, 32, 33, 100];
    let mut shapes = vec![];
    for dt in inlist_types() {
        for &size in &sizes {
            for with_null in [false, true] {
                for negated in [false, true] {
                    shapes.push((dt.clone(), size, with_null, negated));
                }
            }
        }
    }
    let n = shapes.len() / div;
    vcommon::par::run(args.workers, shapes.into_iter().take(n.max(4)).enumerate(), |(i, (dt, size, with_null, negated))| {
        let env = Env::new(vec![cs("x", dt.clone(), true), cs("y", dt.clone(), true), cs("xn", dt.clone(), false)]);
        let mut rng = Rng::derive(0xC33, &[1, i as u64]);
        let mut list: Vec<Expr> = (0..size).map(|k| lit_v(&dt, &nth_value(&dt, k))).collect();
        if with_null {
            list.insert(list.len().min(1), null_of(&dt));
        }
        // table: domain values, list members, near misses, NULL
        let mut xs: Vec<V> = domain(&dt, true);
        for k in 0..(size + 6).min(40) {
            let v = nth_value(&dt, k);
            if !xs.iter().any(|x| x.same(&v)) {
                xs.push(v);
            }
        }
        let ys: Vec<V> = vec![V::Null, nth_value(&dt, 0), nth_value(&dt, 101)];
        let mut rows = vec![];
        for x in &xs {
            for y in &ys {
                let xn = if x.is_null() { nth_value(&dt, 2) } else { x.clone() };
                rows.push(vec![x.clone(), y.clone(), xn]);
            }
        }
        let non_null = list.iter().filter(|e| !matches!(e, Expr::Literal(s, _) if s.is_null())).count();
        let tname = dt.to_string();
        let tag = format!("in-list/{}", tname.split('(').next().unwrap_or("t"));
        cx.rep.seen("inlist_strategy_by_thresholds", &inlist_strategy_label(&dt, non_null));
        cx.rep.seen("inlist_size_classes", &format!("{size}{}", if with_null { "+NULL" } else { "" }));
        cx.rep.seen("inlist_element_types", &tname);
        let o = Opts { rows: Some(rows), ..Default::default() };
        check_expr(cx, &env, &tag, e_in(c("x"), list.clone(), negated), &mut rng, i as u64 * 4, &o);
        check_expr(cx, &env, &tag, e_in(c("xn"), list.clone(), negated), &mut rng, i as u64 * 4 + 1, &o);
        if size >= 1 && size <= 8 {
            // non-constant list: dynamic evaluation path
            let mut l2 = list.clone();
            l2.insert(0, c("y"));
            check_expr(cx, &env, &format!("{tag}/dynamic"), e_in(c("x"), l2, negated), &mut rng, i as u64 * 4 + 2, &o);
            // literal probe against a list of columns
            check_expr(cx, &env, &format!("{tag}/dynamic"), e_in(lit_v(&dt, &nth_value(&dt, 0)), vec![c("x"), c("y")], negated), &mut rng, i as u64 * 4 + 3, &o);
        }
    });
}

fn like_env() -> (Env, Vec<Vec<V>>) {
    let env = Env::new(vec![cs("s", DataType::Utf8, true), cs("p", DataType::Utf8, true), cs("sv", DataType::Utf8View, true), cs("sl", DataType::LargeUtf8, true), cs("sd", dict_utf8(), true)]);
    let strings = ["", "a", "A", "ab", "aB", "AB", "b", "%", "_", "a%b", "a_b", "axb", "é", "É", "éa", "Éa", "ß", "ss", "SS", "İ", "i", "ı", "I", "ǆ", "ǅ", "a\\", "\\", "a\\%b", "日本", "σ", "ς", "Σ"];
    let pats = ["%", "a%", "%b", "_", "a_b", "é%", "É", "_a", "%ß", "ss", "i", "ǆ", "a\\%b", "\\\\", "σ", "%"];
    let mut rows = vec![];
    for (i, s) in strings.iter().enumerate() {
        for (j, p) in pats.iter().enumerate() {
            if (i + j) % 3 == 0 || j < 2 {
                let sv = V::S(s.to_string());
                rows.push(vec![sv.clone(), V::S(p.to_string()), sv.clone(), sv.clone(), sv]);
            }
        }
    }
    rows.push(vec![V::Null, V::S("%".into()), V::Null, V::Null, V::Null]);
    rows.push(vec![V::S("a".into()), V::Null, V::S("a".into()), V::S("a".into()), V::S("a".into())]);
    (env, rows)
}

fn string_cast_env() -> (Env, Vec<Vec<V>>) {
    let env = Env::new(vec![cs("sc", DataType::Utf8, true), cs("scv", DataType::Utf8View, true)]);
    let vals = [
        "0", "1", "-1", " 1", "1 ", "+1", "01", "1.0", "1.5", "-1.5", "1e3", "127", "128", "-128", "-129", "255", "256", "2147483647", "2147483648", "9223372036854775807", "9223372036854775808",
        "18446744073709551615", "18446744073709551616", "abc", "", "NaN", "inf", "-inf", "Infinity", "true", "false", "t", "yes", "2024-01-01", "2024-02-30", "2024-01-01T00:00:00", "2024-01-01 12:34:56.789",
        "1970-01-01", "0000-00-00", "99999999.99", "100000000.00", "0.001", "-0", "0x10", "١", "1_000",
    ];
    let mut rows: Vec<Vec<V>> = vals.iter().map(|s| vec![V::S(s.to_string()), V::S(s.to_string())]).collect();
    rows.push(vec![V::Null, V::Null]);
    (env, rows)
}

fn cast_targets() -> Vec<DataType> {
    vec![
        DataType::Boolean,
        DataType::Int8,
        DataType::Int16,
        DataType::Int32,
        DataType::Int64,
        DataType::UInt8,
        DataType::UInt32,
        DataType::UInt64,
        DataType::Float32,
        DataType::Float64,
        DataType::Utf8,
        DataType::Utf8View,
        DataType::Date32,
        DataType::Date64,
        TS,
        DataType::Timestamp(TimeUnit::Second, None),
        DataType::Timestamp(TimeUnit::Millisecond, None),
        DEC,
        DataType::Decimal128(5, 0),
        DataType::Decimal128(38, 10),
        DataType::Decimal128(3, 2),
    ]
}

type Shape = (String, Expr, Opts);

fn std_shapes(env: &Env) -> Vec<Shape> {
    let mut out: Vec<Shape> = vec![];
    let plain = Opts::default();
    let guard = Opts { guard: true, ..Default::default() };
    let mut add = |tag: &str, e: Expr, o: &Opts| out.push((tag.to_string(), e, o.clone()));
    let zero = |n: &str| lit_v(&env.cols[env.idx(n)].dt, &V::I(0));

    // ---- (4) CASE guards: a failing branch that no row (or not every row) selects
    for (x, y) in [("i32", "i32b"), ("i32n", "i32"), ("i8", "i8"), ("i64", "i64"), ("u8", "u8")] {
        let (cx_, cy) = (|| c(x), || c(y));
        let nz = || cx_().not_eq(zero(x));
        for op in [Operator::Divide, Operator::Modulo] {
            let div = || bin(cy(), op, cx_());
            add("case-guard", e_case(None, vec![(nz(), div())], None), &guard);
            add("case-guard", e_case(None, vec![(nz(), div())], Some(zero(x))), &guard);
            add("case-guard", e_case(None, vec![(cx_().eq(zero(x)), null_of(&env.cols[env.idx(x)].dt))], Some(div())), &guard);
            add("case-guard", e_case(None, vec![(cx_().eq(zero(x)), zero(x))], Some(div())), &guard);
            add("case-guard", e_case(Some(cx_()), vec![(zero(x), cy())], Some(div())), &guard);
            add("case-guard", e_case(None, vec![(cx_().gt(zero(x)), div()), (cx_().lt(zero(x)), bin(cx_(), op, cx_()))], Some(zero(x))), &guard);
            add("case-guard", e_case(None, vec![(cx_().is_null(), zero(x)), (cx_().eq(zero(x)), cy()), (lit(true), div())], None), &guard);
            add("case-guard", e_case(None, vec![(nz(), e_case(None, vec![(div().gt(zero(x)), lit(1))], Some(lit(0))))], None), &guard);
            add("case-guard", e_case(None, vec![(nz(), bin(lit_v(&env.cols[env.idx(x)].dt, &V::I(10)), op, cx_()))], None), &guard);
            add("case-guard", e_case(None, vec![(nz().and(c("b")), div())], Some(cy())), &guard);
            add("case-guard", e_case(None, vec![(c("b"), cy()), (nz(), div())], None), &guard);
            add("case-guard", bin(cy(), op, f_nullif(cx_(), zero(x))), &guard);
            add("case-guard", e_case(None, vec![(nz(), div())], None).is_null(), &guard);
        }
        // a constant failing branch that no row selects
        let dz = bin(lit_v(&env.cols[env.idx(x)].dt, &V::I(1)), Operator::Divide, zero(x));
        add("case-guard", e_case(None, vec![(lit(false), dz.clone())], Some(cx_())), &guard);
        add("case-guard", e_case(None, vec![(cx_().is_null().and(cx_().is_not_null()), dz.clone())], Some(cx_())), &guard);
        add("case-guard", e_case(None, vec![(cx_().is_not_null().or(cx_().is_null()), cx_())], Some(dz.clone())), &guard);
        add("case-guard", e_case(None, vec![(lit(true), cx_())], Some(dz.clone())), &guard);
    }
    // guarded casts
    add("case-guard-cast", e_case(None, vec![(e_between(c("i64"), false, lit(-128i64), lit(127i64)), e_cast(c("i64"), DataType::Int8))], None), &guard);
    add("case-guard-cast", e_case(None, vec![(e_between(c("i32"), false, lit(0), lit(255)), e_cast(c("i32"), DataType::UInt8))], Some(lit(0u8))), &guard);
    add("case-guard-cast", e_case(None, vec![(c("i32").gt_eq(lit(0)), e_cast(c("i32"), DataType::UInt32))], None), &guard);
    add("case-guard-cast", e_case(None, vec![(e_in(c("s"), vec![lit("1"), lit("2")], false), e_cast(c("s"), DataType::Int32))], None), &guard);
    add("case-guard-cast", e_case(None, vec![(c("s").eq(lit("12")), e_cast(c("s"), DataType::Int32))], Some(lit(-1))), &guard);
    add("case-guard-cast", e_case(None, vec![(e_between(c("f64"), false, lit(-100.0f64), lit(100.0f64)), e_cast(c("f64"), DataType::Int8))], None), &guard);
    add("case-guard-cast", e_case(None, vec![(f_abs(c("f64")).lt(lit(1e9f64)), e_cast(c("f64"), DataType::Int32))], None), &guard);

    // ---- CASE forms (eval-method coverage)
    let conds = [c("b"), c("bn"), c("i32").gt(lit(0)), c("s").eq(lit("a")), c("i32").is_null(), c("f64").lt(lit(1.0f64))];
    let vals: [(Expr, Expr, Expr); 5] =
        [(c("i32"), c("i32b"), lit(7)), (c("s"), c("s2"), lit("k")), (c("f64"), c("f64b"), lit(2.5f64)), (c("b2"), c("bn"), lit(true)), (c("dec"), c("decn"), lit(ScalarValue::Decimal128(Some(150), 10, 2)))];
    for cond in &conds {
        for (a, b, l) in &vals {
            add("case-forms", e_case(None, vec![(cond.clone(), a.clone())], None), &plain); // InfallibleExprOrNull
            add("case-forms", e_case(None, vec![(cond.clone(), l.clone())], Some(l.clone())), &plain); // ScalarOrScalar
            add("case-forms", e_case(None, vec![(cond.clone(), l.clone())], None), &plain);
            add("case-forms", e_case(None, vec![(cond.clone(), a.clone())], Some(b.clone())), &plain); // ExpressionOrExpression
            add("case-forms", e_case(None, vec![(cond.clone(), a.clone())], Some(l.clone())), &plain);
            add("case-forms", e_case(None, vec![(cond.clone(), l.clone())], Some(b.clone())), &plain);
            add("case-forms", e_case(None, vec![(cond.clone(), a.clone()), (c("b2"), b.clone())], None), &plain); // NoExpression
            add("case-forms", e_case(None, vec![(cond.clone(), a.clone()), (c("b2"), b.clone()), (c("b"), l.clone())], Some(a.clone())), &plain);
            add("case-forms", e_case(None, vec![(cond.clone(), e_case(None, vec![(c("b2"), a.clone())], Some(b.clone())))], Some(l.clone())), &plain); // nested
            add("case-forms", e_case(None, vec![(cond.clone(), a.clone()), (cond.clone(), b.clone())], None), &plain); // duplicate WHEN
            add("case-forms", e_case(None, vec![(null_of(&DataType::Boolean), a.clone()), (cond.clone(), b.clone())], None), &plain);
        }
    }
    for bn in ["i8", "i32", "i32n", "i64", "u8", "f64", "s", "sn", "b", "d32", "ts", "dec"] {
        let dt = env.cols[env.idx(bn)].dt.clone();
        let dom = domain(&dt, false);
        let l = |k: usize| lit_v(&dt, &dom[k % dom.len()]);
        let other = match bn {
            "i32" | "i32n" => Some(c("i32b")),
            "f64" => Some(c("f64b")),
            "s" | "sn" => Some(c("s2")),
            "b" => Some(c("b2")),
            "dec" => Some(c("decn")),
            _ => None,
        };
        for (ta, tb, tc) in [(lit("p"), lit("q"), lit("r")), (lit(1), lit(2), lit(3)), (lit(true), lit(false), lit(true)), (lit(1.5f64), lit(-0.0f64), lit(f64::NAN))] {
            // literal lookup tables
            add("case-lookup", e_case(Some(c(bn)), vec![(l(0), ta.clone()), (l(3), tb.clone())], Some(tc.clone())), &plain);
            add("case-lookup", e_case(Some(c(bn)), vec![(l(0), ta.clone()), (l(3), tb.clone()), (l(4), tc.clone())], None), &plain);
            add("case-lookup", e_case(Some(c(bn)), vec![(l(0), ta.clone()), (l(0), tb.clone())], Some(tc.clone())), &plain); // duplicate WHEN literal
            add("case-lookup", e_case(Some(c(bn)), vec![(null_of(&dt), ta.clone()), (l(3), tb.clone())], Some(tc.clone())), &plain); // NULL WHEN
            add("case-lookup", e_case(Some(c(bn)), vec![(l(2), Expr::Literal(ScalarValue::try_from(&ta.get_type_hint()).unwrap_or(ScalarValue::Null), None)), (l(3), tb.clone())], None), &plain); // NULL THEN
            add("case-lookup", e_case(Some(c(bn)), (0..dom.len()).map(|k| (l(k), if k % 2 == 0 { ta.clone() } else { tb.clone() })).collect(), Some(tc.clone())), &plain);
        }
        // WHEN / THEN with columns: WithExpression
        add("case-with-expr", e_case(Some(c(bn)), vec![(l(0), c("i32")), (l(3), c("i32b"))], None), &plain);
        add("case-with-expr", e_case(Some(c(bn)), vec![(l(0), c("s")), (l(3), lit("z"))], Some(c("s2"))), &plain);
        if let Some(o) = &other {
            add("case-with-expr", e_case(Some(c(bn)), vec![(o.clone(), lit(1)), (l(3), lit(2))], Some(lit(0))), &plain);
            add("case-with-expr", e_case(Some(c(bn)), vec![(o.clone(), c("i32")), (c(bn), c("i32b"))], None), &plain);
            add("case-with-expr", e_case(Some(l(3)), vec![(c(bn), lit("x")), (o.clone(), lit("y"))], None), &plain);
        }
        add("case-with-expr", e_case(Some(null_of(&dt)), vec![(c(bn), lit("x"))], Some(lit("e"))), &plain);
    }

    // ---- IS [NOT] DISTINCT FROM and the six comparisons, column/column, column/literal, column/NULL
    let pairs: [(&str, &str); 9] = [("i32", "i32b"), ("i8", "i8"), ("f64", "f64b"), ("s", "s2"), ("b", "b2"), ("dec", "decn"), ("i32n", "i32"), ("sn", "s"), ("bn", "b")];
    for (a, b) in pairs {
        let dt = env.cols[env.idx(a)].dt.clone();
        let dom = domain(&dt, false);
        for op in CMP_OPS8 {
            add("comparison", bin(c(a), op, c(b)), &plain);
            add("comparison", bin(c(a), op, null_of(&dt)), &plain);
            add("comparison", bin(null_of(&dt), op, c(a)), &plain);
            for k in 0..dom.len() {
                add("comparison", bin(c(a), op, lit_v(&dt, &dom[k])), &plain);
                if k % 3 == 0 {
                    add("comparison", bin(lit_v(&dt, &dom[k]), op, c(a)), &plain);
                }
            }
        }
    }
    for n in ["d32", "ts", "i64", "u8"] {
        let dt = env.cols[env.idx(n)].dt.clone();
        let dom = domain(&dt, false);
        for op in CMP_OPS8 {
            add("comparison", bin(c(n), op, c(n)), &plain);
            add("comparison", bin(c(n), op, lit_v(&dt, &dom[2])), &plain);
            add("comparison", bin(c(n), op, null_of(&dt)), &plain);
        }
    }
    // boolean connectives incl. short-circuit shapes
    let bs = [c("b"), c("b2"), c("bn"), lit(true), lit(false), null_of(&DataType::Boolean), c("i32").gt(lit(0))];
    for a in &bs {
        for b in &bs {
            add("boolean", bin(a.clone(), Operator::And, b.clone()), &plain);
            add("boolean", bin(a.clone(), Operator::Or, b.clone()), &plain);
        }
        add("not-negation", Expr::Not(Box::new(a.clone())), &plain);
        add("not-negation", Expr::Not(Box::new(Expr::Not(Box::new(a.clone())))), &plain);
        for k in 0..8 {
            let e = Box::new(a.clone());
            add(
                "is-tests",
                match k {
                    0 => Expr::IsTrue(e),
                    1 => Expr::IsFalse(e),
                    2 => Expr::IsUnknown(e),
                    3 => Expr::IsNotTrue(e),
                    4 => Expr::IsNotFalse(e),
                    5 => Expr::IsNotUnknown(e),
                    6 => Expr::IsNull(e),
                    _ => Expr::IsNotNull(e),
                },
                &plain,
            );
        }
    }
    add("boolean", bin(c("b"), Operator::And, bin(c("i32b"), Operator::Divide, c("i32")).gt(lit(0))), &plain);
    add("boolean", bin(c("i32").not_eq(lit(0)), Operator::And, bin(c("i32b"), Operator::Divide, c("i32")).gt(lit(0))), &plain);
    add("boolean", bin(c("i32").eq(lit(0)), Operator::Or, bin(c("i32b"), Operator::Modulo, c("i32")).eq(lit(0))), &plain);
    for n in ["i8", "i32", "i32n", "i64", "f64", "dec"] {
        add("not-negation", Expr::Negative(Box::new(c(n))), &plain);
        add("not-negation", Expr::Negative(Box::new(Expr::Negative(Box::new(c(n))))), &plain);
        add("not-negation", Expr::Negative(Box::new(bin(c(n), Operator::Plus, c(n)))), &plain);
        for op in [Operator::Plus, Operator::Minus, Operator::Multiply, Operator::Divide, Operator::Modulo] {
            add("arithmetic", bin(c(n), op, c(n)), &plain);
            let dt = env.cols[env.idx(n)].dt.clone();
            for v in domain(&dt, false) {
                add("arithmetic", bin(c(n), op, lit_v(&dt, &v)), &plain);
                add("arithmetic", bin(lit_v(&dt, &v), op, c(n)), &plain);
            }
        }
    }
    for op in [Operator::Plus, Operator::Minus, Operator::Multiply, Operator::Divide, Operator::Modulo] {
        add("arithmetic", bin(c("i32"), op, c("i32b")), &plain);
        add("arithmetic", bin(c("i8"), op, c("i64")), &plain);
        add("arithmetic", bin(c("u8"), op, c("i8")), &plain);
        add("arithmetic", bin(c("f64"), op, c("f64b")), &plain);
        add("arithmetic", bin(c("i32"), op, c("f64")), &plain);
        add("arithmetic", bin(c("u8"), op, c("u8")), &plain);
    }
    // BETWEEN
    for n in ["i8", "i32", "f64", "s", "dec", "d32"] {
        let dt = env.cols[env.idx(n)].dt.clone();
        let dom = domain(&dt, false);
        let l = |k: usize| lit_v(&dt, &dom[k % dom.len()]);
        for negated in [false, true] {
            add("between", e_between(c(n), negated, l(2), l(5)), &plain);
            add("between", e_between(c(n), negated, l(5), l(2)), &plain);
            add("between", e_between(c(n), negated, null_of(&dt), l(5)), &plain);
            add("between", e_between(c(n), negated, c(n), l(5)), &plain);
        }
    }
    // functions of the reference fragment
    for n in ["i32", "s", "f64", "b", "dec"] {
        let dt = env.cols[env.idx(n)].dt.clone();
        let dom = domain(&dt, false);
        add("nullif", f_nullif(c(n), c(n)), &plain);
        for k in 0..dom.len() {
            add("nullif", f_nullif(c(n), lit_v(&dt, &dom[k])), &plain);
        }
        add("nullif", f_nullif(c(n), null_of(&dt)), &plain);
    }
    add("nullif", f_nullif(c("i32"), c("i32b")), &plain);
    add("nullif", f_nullif(c("f64"), c("f64b")), &plain);
    add("nullif", f_nullif(c("s"), c("s2")), &plain);
    for n in ["i8", "i32", "i64", "f64", "u8"] {
        add("abs", f_abs(c(n)), &plain);
    }
    for n in ["s", "sn"] {
        add("string-fn", f_upper(c(n)), &plain);
        add("string-fn", f_lower(c(n)), &plain);
        add("string-fn", f_length(c(n)), &plain);
        add("string-fn", f_concat(vec![c(n), c("s2")]), &plain);
        add("string-fn", f_concat(vec![c(n), lit("-"), c("s2"), null_of(&DataType::Utf8)]), &plain);
        add("string-fn", f_starts_with(c(n), c("s2")), &plain);
        add("string-fn", f_starts_with(c(n), lit("a")), &plain);
    }
    for part in ["year", "month", "day", "hour", "dow", "doy", "week", "quarter"] {
        add("date-fn", f_date_part(part, c("d32")), &plain);
        add("date-fn", f_date_part(part, c("ts")), &plain);
        if !matches!(part, "dow" | "doy") {
            add("date-fn", f_date_trunc(part, c("ts")), &plain);
        }
    }

    // ---- casts / try_casts across the lattice
    for src in ["b", "i8", "i32", "i64", "u8", "f64", "s", "d32", "ts", "dec"] {
        for t in cast_targets() {
            add("cast", e_cast(c(src), t.clone()), &plain);
            add("try-cast", e_try_cast(c(src), t.clone()), &Opts { try_cast: true, ..Default::default() });
        }
    }
    out
}

trait TypeHint {
    fn get_type_hint(&self) -> DataType;
}
impl TypeHint for Expr {
    fn get_type_hint(&self) -> DataType {
        match self {
            Expr::Literal(s, _) => s.data_type(),
            _ => DataType::Null,
        }
    }
}

fn like_shapes() -> Vec<(String, Expr)> {
    let mut out = vec![];
    let lits = ["%", "a%", "%a", "%a%", "_", "a_", "a%b", "", "a", "A%", "\\%", "a\\%b", "%%", "_%", "\\_", "ab", "AB", "é%", "É", "_é", "%ß", "ss", "SS", "i", "İ", "ǆ", "ǅ", "σ", "Σ", "a\\", "\\\\", "日_"];
    for scol in ["s", "sv", "sl", "sd"] {
        for p in lits {
            for (negated, ci) in [(false, false), (true, false), (false, true), (true, true)] {
                if scol != "s" && (negated || p.len() > 3) {
                    continue;
                }
                let pl = match scol {
                    "sv" => lit(ScalarValue::Utf8View(Some(p.to_string()))),
                    "sl" => lit(ScalarValue::LargeUtf8(Some(p.to_string()))),
                    _ => lit(p),
                };
                out.push((format!("like/{}", if ci { "ilike" } else { "like" }), e_like(c(scol), pl, negated, ci)));
            }
        }
    }
    for (negated, ci) in [(false, false), (true, false), (false, true), (true, true)] {
        out.push((format!("like/{}-pattern-column", if ci { "ilike" } else { "like" }), e_like(c("s"), c("p"), negated, ci)));
        out.push((format!("like/{}-pattern-column", if ci { "ilike" } else { "like" }), e_like(lit("a%b"), c("p"), negated, ci)));
        out.push(("like/null-pattern".into(), e_like(c("s"), null_of(&DataType::Utf8), negated, ci)));
    }
    for p in ["a", "a%", "(a|b)%", "_b", "a*", "%", "é|É", "[ab]+"] {
        out.push(("similar-to".into(), e_similar(c("s"), lit(p), false)));
        out.push(("similar-to".into(), e_similar(c("s"), lit(p), true)));
    }
    out
}

fn run(args: &Args) -> i32 {
    let rep = Report::new("C33", "exploration", args);
    rep.set_rule(
        "case = one physical expression (enumerated strategy-selecting shape, or random typed tree of depth <= 3) x its evaluation table (exhaustive small-domain product of the referenced \
         columns, capped, + random rows) x {full batch, every row as 1-row batch, columns folded to literals, 6 selection masks}; distinct = hash(coerced expression text, family); \
         non-trivial = at least one row was compared between two evaluation strategies or against the reference",
    );
    rep.assume("the independent evaluator implements SQL 3VL + the engine's documented non-ANSI conventions (wrapping + - *, checked /, NaN = NaN, -0.0 = 0.0) for the core operators only");
    rep.assume("the reference raises an error eagerly for every sub-expression except unselected CASE/COALESCE branches; rows it marks as erroring are not compared");
    rep.assume("evaluate_selection is compared on selected rows only (unselected rows are unspecified)");
    let selftest = args.opt_u64("selftest", 0) == 1;
    let cx = Cx { rep: &rep, selftest };
    let div = match args.stage.as_str() {
        "miri" => 100,
        "memcheck" | "tsan" => 10,
        _ => 1,
    };
    let only = args.opt_str("family").map(|s| s.to_string());
    let want = |tag: &str| only.as_ref().is_none_or(|f| tag.starts_with(f.as_str()));

    // ---- systematic part
    if want("in-list") {
        run_inlist_shapes(&cx, args, div);
    }
    let env = Env::standard();
    let shapes: Vec<Shape> = std_shapes(&env).into_iter().filter(|(t, _, _)| want(t)).collect();
    let n_shapes = (shapes.len() / div).max(1);
    vcommon::par::run(args.workers, shapes.into_iter().take(n_shapes).enumerate(), |(i, (tag, e, o))| {
        let mut rng = Rng::derive(0xC33, &[2, i as u64]);
        check_expr(&cx, &env, &tag, e, &mut rng, 100_000 + i as u64, &o);
    });
    let (lenv, lrows) = like_env();
    let lshapes: Vec<(String, Expr)> = like_shapes().into_iter().filter(|(t, _)| want(t)).collect();
    let n_l = (lshapes.len() / div).max(1);
    vcommon::par::run(args.workers, lshapes.into_iter().take(n_l).enumerate(), |(i, (tag, e))| {
        let mut rng = Rng::derive(0xC33, &[3, i as u64]);
        check_expr(&cx, &lenv, &tag, e, &mut rng, 200_000 + i as u64, &Opts { rows: Some(lrows.clone()), ..Default::default() });
    });
    let (senv, srows) = string_cast_env();
    let mut sshapes = vec![];
    for src in ["sc", "scv"] {
        for t in cast_targets() {
            sshapes.push(("cast/from-string".to_string(), e_cast(c(src), t.clone()), false));
            sshapes.push(("try-cast/from-string".to_string(), e_try_cast(c(src), t.clone()), true));
        }
    }
    sshapes.retain(|(t, _, _)| want(t));
    vcommon::par::run(args.workers, sshapes.into_iter().enumerate(), |(i, (tag, e, tc))| {
        let mut rng = Rng::derive(0xC33, &[4, i as u64]);
        check_expr(&cx, &senv, &tag, e, &mut rng, 300_000 + i as u64, &Opts { rows: Some(srows.clone()), try_cast: tc, ..Default::default() });
    });

    if only.is_none() && div == 1 {
        for m in ["NoExpression", "WithExpression", "InfallibleExprOrNull", "ScalarOrScalar", "ExpressionOrExpression", "WithExprScalarLookupTable"] {
            rep.obligation(&format!("case-eval-method:{m}"), rep.has_seen("case_eval_methods", m), "every CASE evaluation method must be selected by at least one built expression (from Debug of CaseExpr)");
        }
        for p in ["static-filter", "dynamic-list"] {
            rep.obligation(&format!("inlist-path:{p}"), rep.has_seen("inlist_paths", p), "both IN-list evaluation paths must be built (from Display of InListExpr)");
        }
        for s in ["branchless/1B", "branchless/4B", "branchless/8B", "branchless/16B", "bitmap/1B", "bitmap/2B", "hashset/4B", "hashset/8B", "hashset/16B", "array-static-filter"] {
            rep.obligation(&format!("inlist-strategy:{s}"), rep.has_seen("inlist_strategy_by_thresholds", s), "list sizes must straddle the strategy thresholds of every width class");
        }
        for m in ["all-true", "all-false", "sparse", "half", "with-nulls", "single"] {
            rep.obligation(&format!("selection-mask:{m}"), rep.has_seen("selection_masks", m), "every mask class must be compared");
        }
        rep.obligation("guard-templates", rep.get_count("guard_templates_checked") >= 50, "CASE guard templates must be checked against the reference");
    }

    // ---- seeded random tail
    let n_rand = args.bound("random", 8000, 500_000) / div as u64;
    if only.is_none() || want("random") {
        vcommon::par::run(args.workers, 0..n_rand, |i| {
            if rep.violation_count() > 400 {
                return;
            }
            let mut rng = Rng::derive(args.seed, &[1, i]);
            let depth = 1 + (i % 3) as usize;
            let raw = {
                let mut g = Gen::new(&mut rng, &env);
                g.allow_coalesce = false;
                if i % 4 == 3 {
                    let tc = g.any_tc();
                    g.expr(tc, depth)
                } else {
                    g.bool_expr(depth)
                }
            };
            check_expr(&cx, &env, "random", raw, &mut rng, 1_000_000 + i, &Opts::default());
        });
    }
    rep.finish()
}

fn main() {
    let args = Args::parse();
    vcommon::par::quiet_panics();
    std::process::exit(run(&args));
}
