//! C29 — statistics reported as exact are exact.
//!
//! Every node of every engine-built plan is wrapped by `planmon::MonitorExec`. For every node whose
//! partitions were all drained to end of stream, the node's statistics (`StatisticsContext::compute`,
//! whole plan and per partition) are compared with the aggregates of the output it really produced:
//! every `Precision::Exact` among num_rows, per-column null_count / min / max / sum / distinct count
//! must equal the computed value (Inexact / Absent are free; byte sizes are not compared).
//! Second part: queries answerable from statistics (`count(*)`, `min`, `max`) with the
//! `aggregate_statistics` physical optimizer rule on vs removed must agree.

use datafusion::execution::session_state::SessionStateBuilder;
use datafusion::physical_optimizer::optimizer::PhysicalOptimizer;
use datafusion::prelude::*;
use dfv::cases::Case;
use dfv::planmon::*;
use dfv::qgen::GenCfg;
use vcommon::{json, Args, Report, Rng};

const REQUIRED_NODE_KINDS: &[&str] = &[
    "DataSourceExec", "ProjectionExec", "FilterExec", "SortExec", "SortPreservingMergeExec", "AggregateExec", "HashJoinExec", "SortMergeJoinExec",
    "NestedLoopJoinExec", "CrossJoinExec", "RepartitionExec", "CoalescePartitionsExec", "UnionExec", "BoundedWindowAggExec", "GlobalLimitExec",
];

fn analyse(run: &MonRun, tally: &mut Tally, corrupt: Corrupt) -> Vec<Finding> {
    let mut per_node = vec![];
    let mut corrupted = false;
    for (i, node) in run.wrapped.nodes.iter().enumerate() {
        let obs = observe(node);
        let twin = run.twin.as_ref().and_then(|t| t.get(i));
        let has_exact = obs.complete && node_statistics(node, None).map(|s| matches!(s.num_rows, datafusion::common::stats::Precision::Exact(_))).unwrap_or(false);
        let c = Corrupt { on: corrupt.on && !corrupted && has_exact };
        corrupted |= c.on;
        per_node.push(check_statistics(node, &obs, twin, tally, c));
    }
    report_origins(&run.wrapped.nodes, per_node, tally)
}

fn nontrivial(run: &MonRun) -> bool {
    run.wrapped.nodes.iter().any(|n| {
        let o = observe(n);
        o.complete && o.total_rows() > 0 && node_statistics(n, None).map(|s| matches!(s.num_rows, datafusion::common::stats::Precision::Exact(_))).unwrap_or(false)
    })
}

fn gen_case(rep: &Report, rng: &mut Rng, cfg: &GenCfg, cfg_idx: u64, reg: Reg, reg_seed: u64, corrupt: Corrupt) {
    let case = Case::generate(rng, cfg);
    match prepare_generated(&case, cfg_idx, reg, reg_seed) {
        Ok(p) => {
            drive(rep, p, nontrivial, |run, tally| analyse(run, tally, corrupt));
        }
        Err(_) => rep.skip("harness-registration-failed"),
    }
    // the same query with the aggregate_statistics rule on vs removed
    if case.feats.contains("global-aggregate") && !case.feats.contains("limit") {
        let rt = dfv::engine::current_thread_rt();
        let sc = sess_cfg(cfg_idx).session_config();
        let on = SessionContext::new_with_config(sc.clone());
        let off = ctx_without_rule(sc, "aggregate_statistics");
        if dfv::engine::register_db_layout(&on, &case.db, &case.layout).is_ok() && dfv::engine::register_db_layout(&off, &case.db, &case.layout).is_ok() {
            let w = json!({"sql": case.sql, "tables": dfv::engine::db_to_json(&case.db), "layout": json!(case.layout), "config": sess_cfg(cfg_idx).label()});
            rule_on_off(rep, &rt, &on, &off, &case.sql, w, "generated", corrupt);
        }
    }
}

const SETTINGS: &[&[(&str, &str)]] = &[
    &[],
    &[("datafusion.execution.collect_statistics", "false")],
    &[("datafusion.execution.parquet.pushdown_filters", "true")],
    &[("datafusion.execution.parquet.pushdown_filters", "true"), ("datafusion.execution.collect_statistics", "false")],
    &[("datafusion.execution.parquet.enable_page_index", "false"), ("datafusion.execution.parquet.pruning", "false")],
];

/// Statistics-specific templates: pruning filters, limits, unions, joins, projections of expressions.
fn stats_query(rng: &mut Rng, idx: u64) -> String {
    let files = ["p_a", "p_id", "p_plain", "c_id"];
    let any = ["m_id", "m_a", "m_ab", "m_plain", "p_a", "p_id", "p_plain", "c_id"];
    let p = *rng.pick(&files);
    let t1 = *rng.pick(&any);
    let t2 = *rng.pick(&any);
    let k = rng.range(0, 9);
    let id = rng.range(1, 48);
    let jt = *rng.pick(&["JOIN", "LEFT JOIN", "RIGHT JOIN", "FULL JOIN"]);
    let templates: Vec<String> = vec![
        format!("SELECT * FROM {p}"),
        format!("SELECT id, a, c FROM {p} WHERE id > {id}"),
        format!("SELECT id, a FROM {p} WHERE id <= {id}"),
        format!("SELECT id, a, b FROM {p} WHERE a = {k}"),
        format!("SELECT id, a, b FROM {p} WHERE a < {k}"),
        format!("SELECT id, a, b FROM {p} WHERE a > {k} AND id < {id}"),
        format!("SELECT id, a FROM {p} WHERE id BETWEEN {k} AND {id}"),
        format!("SELECT id, a FROM {p} WHERE a IS NULL"),
        format!("SELECT id, a, d FROM {p} WHERE a IS NOT NULL AND d IS NOT NULL"),
        format!("SELECT id, d FROM {p} WHERE d = 'a'"),
        format!("SELECT id, c FROM {p} WHERE c >= {k}.5"),
        format!("SELECT * FROM {t1} WHERE false"),
        format!("SELECT * FROM {t1} ORDER BY id LIMIT 3"),
        format!("SELECT * FROM {t1} ORDER BY id LIMIT 3 OFFSET 2"),
        format!("SELECT * FROM {t1} ORDER BY id LIMIT 100 OFFSET 45"),
        format!("SELECT id, a FROM {t1} ORDER BY id DESC LIMIT 60"),
        format!("SELECT a FROM {t1} UNION ALL SELECT a FROM {t2}"),
        format!("SELECT a, b FROM {t1} UNION ALL SELECT b, a FROM {t2}"),
        format!("SELECT id, a FROM {t1} WHERE a = {k} UNION ALL SELECT id, a FROM {t2}"),
        format!("SELECT a FROM {t1} UNION SELECT a FROM {t2}"),
        format!("SELECT l.id AS lid, r.id AS rid, l.a AS la, r.b AS rb FROM {t1} l {jt} {t2} r ON l.id = r.id"),
        format!("SELECT l.id AS lid, r.id AS rid, l.a AS la, r.a AS ra FROM {t1} l {jt} {t2} r ON l.a = r.a"),
        format!("SELECT l.id AS lid, r.id AS rid FROM {t1} l {jt} {t2} r ON l.id = r.id AND l.a < r.b"),
        format!("SELECT l.id AS lid, r.id AS rid FROM {t1} l CROSS JOIN (SELECT id FROM {t2} WHERE id <= 2) r"),
        format!("SELECT l.id AS lid, r.id AS rid FROM {t1} l JOIN {t2} r ON l.id < r.id AND r.id <= 3"),
        format!("SELECT id, a FROM {t1} WHERE id IN (SELECT id FROM {t2} WHERE a > {k})"),
        format!("SELECT id, a FROM {t1} WHERE id NOT IN (SELECT id FROM {t2} WHERE a > {k})"),
        format!("SELECT id, a FROM {t1} l WHERE EXISTS (SELECT 1 FROM {t2} r WHERE r.a = l.a AND r.id <> l.id)"),
        format!("SELECT a + 1 AS x, -a AS y, abs(c) AS z, CAST(a AS DOUBLE) AS w, id FROM {t1}"),
        format!("SELECT a AS x, a AS y, id + 0 AS z, coalesce(a, -1) AS w FROM {t1}"),
        format!("SELECT CASE WHEN a > {k} THEN a ELSE NULL END AS x, d || 'z' AS y, id FROM {t1}"),
        format!("SELECT 1 AS one, 'k' AS kk, NULL AS nn, id FROM {t1}"),
        format!("SELECT DISTINCT a FROM {t1}"),
        format!("SELECT DISTINCT a, b FROM {t1}"),
        format!("SELECT a, count(*) AS n, min(c) AS lo, max(c) AS hi, sum(b) AS s FROM {t1} GROUP BY a"),
        format!("SELECT count(*) AS n, min(a) AS lo, max(a) AS hi FROM {t1}"),
        format!("SELECT count(*) AS n FROM {t1} WHERE a = {k}"),
        format!("SELECT id, a, row_number() OVER (ORDER BY id) AS rn, sum(a) OVER (PARTITION BY b ORDER BY id) AS s FROM {t1}"),
        format!("SELECT * FROM (VALUES (1, 'a', 1.5), (2, NULL, 2.5), (NULL, 'c', NULL)) AS v(x, y, z)"),
        format!("SELECT x, y FROM (VALUES (1, 'a'), (2, NULL), (3, 'c')) AS v(x, y) WHERE x > 1"),
        format!("SELECT id, a FROM (SELECT * FROM {t1} ORDER BY id LIMIT 10) WHERE a > {k}"),
        format!("SELECT * FROM (SELECT id, a FROM {t1} WHERE a >= {k}) ORDER BY id LIMIT 4"),
        format!("SELECT a, b FROM {t1} WHERE a = {k} AND b IS NOT NULL ORDER BY b"),
        format!("SELECT id FROM {t1} EXCEPT SELECT id FROM {t2} WHERE a > {k}"),
        format!("SELECT id FROM {t1} INTERSECT SELECT id FROM {t2} WHERE a > {k}"),
    ];
    let n = templates.len() as u64;
    templates.into_iter().nth((idx % n) as usize).unwrap_or_default()
}
const N_STATS_TEMPLATES: u64 = 45;

fn fixture_case(rep: &Report, fx: &Fixture, seed: u64, idx: u64, cfg_idx: u64, own_templates: bool, corrupt: Corrupt) {
    let mut rng = Rng::derive(seed, &[29, 7, idx, own_templates as u64]);
    let sql = if own_templates { stats_query(&mut rng, idx) } else { fixture_query(&mut rng, idx) };
    let reg_seed = rng.next_u64() % 1000;
    let sets = SETTINGS[((idx / 3) % SETTINGS.len() as u64) as usize];
    let rt = dfv::engine::current_thread_rt();
    match rt.block_on(prepare_fixture(fx, sql, cfg_idx, reg_seed, sets)) {
        Ok(p) => {
            drop(rt);
            drive(rep, p, nontrivial, |run, tally| analyse(run, tally, corrupt));
        }
        Err(_) => rep.skip("harness-fixture-registration-failed"),
    }
}

// ------------------------------------------------------------------------------------------------
// aggregate_statistics on vs off

fn ctx_without_rule(cfg: SessionConfig, rule: &str) -> SessionContext {
    let rules = PhysicalOptimizer::new().rules.into_iter().filter(|r| r.name() != rule).collect();
    let state = SessionStateBuilder::new().with_config(cfg).with_default_features().with_physical_optimizer_rules(rules).build();
    SessionContext::new_with_state(state)
}

fn agg_query(rng: &mut Rng, idx: u64) -> String {
    let any = ["m_id", "m_a", "m_ab", "m_c", "m_plain", "p_a", "p_id", "p_plain", "c_id"];
    let t1 = *rng.pick(&any);
    let t2 = *rng.pick(&any);
    let k = rng.range(0, 9);
    let id = rng.range(1, 48);
    let templates: Vec<String> = vec![
        format!("SELECT count(*) AS n FROM {t1}"),
        format!("SELECT count(*) AS n, count(a) AS na, count(d) AS nd, count(id) AS ni FROM {t1}"),
        format!("SELECT min(a) AS lo, max(a) AS hi FROM {t1}"),
        format!("SELECT count(*) AS n, min(id) AS a1, max(id) AS a2, min(c) AS c1, max(c) AS c2, min(d) AS d1, max(d) AS d2, min(t) AS t1, max(t) AS t2 FROM {t1}"),
        format!("SELECT count(*) AS n, min(a) AS lo, max(a) AS hi FROM {t1} WHERE id > {id}"),
        format!("SELECT count(*) AS n, min(a) AS lo, max(a) AS hi FROM {t1} WHERE a = {k}"),
        format!("SELECT count(*) AS n, min(x) AS lo, max(x) AS hi FROM (SELECT a + 1 AS x FROM {t1})"),
        format!("SELECT count(*) AS n, min(x) AS lo, max(x) AS hi FROM (SELECT -a AS x FROM {t1})"),
        format!("SELECT count(*) AS n, min(x) AS lo, max(x) AS hi, count(x) AS nx FROM (SELECT a AS x FROM {t1} UNION ALL SELECT b AS x FROM {t2})"),
        format!("SELECT count(*) AS n, min(x) AS lo FROM (SELECT id AS x FROM {t1} ORDER BY id LIMIT 5)"),
        format!("SELECT count(*) AS n, max(x) AS hi FROM (SELECT id AS x FROM {t1} ORDER BY id LIMIT 5 OFFSET 3)"),
        format!("SELECT count(*) AS n FROM {t1} l CROSS JOIN {t2} r"),
        format!("SELECT count(*) AS n, min(l.a) AS lo, max(r.c) AS hi FROM {t1} l CROSS JOIN (SELECT * FROM {t2} WHERE id <= 3) r"),
        format!("SELECT count(*) AS n, min(l.id) AS lo, max(r.id) AS hi FROM {t1} l JOIN {t2} r ON l.id = r.id"),
        format!("SELECT count(*) AS n, count(r.id) AS nr, min(r.a) AS lo FROM {t1} l LEFT JOIN {t2} r ON l.id = r.id AND r.a > {k}"),
        format!("SELECT count(*) AS n, min(a) AS lo, max(a) AS hi FROM (SELECT DISTINCT a FROM {t1})"),
        format!("SELECT count(*) AS n, max(n2) AS m FROM (SELECT a, count(*) AS n2 FROM {t1} GROUP BY a)"),
        format!("SELECT count(*) AS n FROM (SELECT * FROM {t1} WHERE false)"),
        format!("SELECT count(*) AS n, min(x) AS lo, max(y) AS hi FROM (VALUES (1, 2), (NULL, 5), (3, NULL)) AS v(x, y)"),
        format!("SELECT count(a) AS na, min(coalesce(a, -1)) AS lo, max(CAST(a AS DOUBLE)) AS hi FROM {t1}"),
        format!("SELECT count(*) AS n, min(a) AS lo FROM {t1} WHERE a IS NULL"),
        format!("SELECT count(1) AS n, count(NULL) AS z, min(1) AS one, max('x') AS x FROM {t1}"),
    ];
    let n = templates.len() as u64;
    templates.into_iter().nth((idx % n) as usize).unwrap_or_default()
}
const N_AGG_TEMPLATES: u64 = 22;

#[allow(clippy::too_many_arguments)]
fn rule_on_off(rep: &Report, rt: &tokio::runtime::Runtime, on: &SessionContext, off: &SessionContext, sql: &str, witness: vcommon::Json, kind: &str, corrupt: Corrupt) {
    let fp = vcommon::fp_mix(vcommon::fp_str(sql), vcommon::fp_str(&format!("rule-on-off/{}", witness.get("config").map(|c| c.to_string()).unwrap_or_default())));
    let r = vcommon::par::guard(|| {
        rt.block_on(async {
            let p_on = on.sql(sql).await?.create_physical_plan().await?;
            let p_off = off.sql(sql).await?.create_physical_plan().await?;
            let t_on = datafusion::physical_plan::displayable(p_on.as_ref()).indent(false).to_string();
            let t_off = datafusion::physical_plan::displayable(p_off.as_ref()).indent(false).to_string();
            let b_on = datafusion::physical_plan::collect(p_on, on.task_ctx()).await?;
            let b_off = datafusion::physical_plan::collect(p_off, off.task_ctx()).await?;
            Ok::<_, datafusion::error::DataFusionError>((t_on, t_off, dfv::engine::batches_to_rows(&b_on), dfv::engine::batches_to_rows(&b_off)))
        })
    });
    match r {
        Ok(Ok((t_on, t_off, mut r_on, r_off))) => {
            let fired = t_on != t_off;
            rep.case(fp, fired);
            rep.count(&format!("aggregate_statistics_compared_{kind}"), 1);
            if fired {
                rep.count(&format!("aggregate_statistics_rule_fired_{kind}"), 1);
            }
            if corrupt.on && fired && rep.get_count("selftest_rule_corrupted") == 0 {
                rep.count("selftest_rule_corrupted", 1);
                r_on.push(vec![]);
            }
            if !dfv::canon::multiset_eq(&r_on, &r_off) {
                let mut w = witness;
                if let Some(o) = w.as_object_mut() {
                    o.insert("what".into(), json!("the query answered with the aggregate_statistics rule differs from the same query computed from data (rule removed)"));
                    o.insert("rows_rule_on".into(), dfv::value::rows_to_json(&r_on));
                    o.insert("rows_rule_off".into(), dfv::value::rows_to_json(&r_off));
                    o.insert("plan_rule_on".into(), json!(t_on));
                    o.insert("plan_rule_off".into(), json!(t_off));
                }
                rep.violation("aggregate-statistics-answer", w);
            }
        }
        Ok(Err(_)) => {
            rep.skip("rule-on-off:engine-error");
            rep.case(fp, false);
        }
        Err(_) => {
            rep.skip("rule-on-off:engine-panic");
            rep.case(fp, false);
        }
    }
}

fn agg_case(rep: &Report, fx: &Fixture, seed: u64, idx: u64, corrupt: Corrupt) {
    let mut rng = Rng::derive(seed, &[29, 11, idx]);
    let sql = agg_query(&mut rng, idx);
    let cfg_idx = idx / N_AGG_TEMPLATES;
    let sets = SETTINGS[((idx / 2) % SETTINGS.len() as u64) as usize];
    let reg_seed = rng.next_u64() % 1000;
    let mut sc = sess_cfg(cfg_idx).session_config();
    for (k, v) in sets {
        sc = sc.set_str(k, v);
    }
    let on = SessionContext::new_with_config(sc.clone());
    let off = ctx_without_rule(sc, "aggregate_statistics");
    let rt = dfv::engine::current_thread_rt();
    let nparts = 1 + (reg_seed % 3) as usize;
    let ok = rt.block_on(async { fx.register(&on, nparts, 4, reg_seed).await.is_ok() && fx.register(&off, nparts, 4, reg_seed).await.is_ok() });
    if !ok {
        rep.skip("harness-fixture-registration-failed");
        return;
    }
    let w = json!({"sql": sql, "fixture": fx.to_json(), "reg_seed": reg_seed, "config": format!("{} {:?}", sess_cfg(cfg_idx).label(), sets)});
    rule_on_off(rep, &rt, &on, &off, &sql, w, "fixture", corrupt);
}

fn run(args: &Args) -> i32 {
    let rep = Report::new("C29", "exploration", args);
    rep.set_rule("case = (generated tables + generated SELECT of the C01 fragment | template query over MemTable / Parquet listing tables (3 files, row groups of 8 rows, with and without collect_statistics, pruning filters, filter pushdown on/off) / CSV) x session configuration; every node is wrapped by MonitorExec; for every node drained to end of stream on all partitions every Precision::Exact statistic (whole plan and per partition) is compared with the aggregate of the tapped output; plus count/min/max queries with the aggregate_statistics rule on vs removed; distinct = hash(SQL + tables + configuration); non-trivial = some fully drained node with an exact row count emitted rows (rule part: the rule changed the plan)");
    rep.assume("the wrapper is transparent for statistics: it requests its child's statistics for the same partition and returns them unchanged; node statistics are obtained with StatisticsContext::compute on the monitored node itself");
    rep.assume("total_byte_size / byte_size are not compared (no logical size is documented); an exact min/max/sum over an output without any non-null value is vacuous; whether NULL counts as a distinct value is left open; float sums are compared with a 1e-9 relative tolerance on dyadic data");
    let corrupt = Corrupt { on: args.opt_u64("selftest", 0) == 1 };
    let cfg = GenCfg::default();
    let n_sys = args.bound("systematic", 1000, 6000);
    let n_fix = args.bound("fixture", 580, 2900);
    let n_own = args.bound("stats_templates", 450, 2250);
    let n_agg = args.bound("aggregate_statistics", 440, 2200);
    let n_rand = args.bound("random", 1000, 60_000);
    let fx = match Fixture::new(29, 48) {
        Ok(f) => f,
        Err(e) => {
            rep.inconclusive(&format!("cannot create the fixture files: {e}"));
            return rep.finish();
        }
    };
    vcommon::par::run(args.workers, 0..n_sys, |i| {
        let mut rng = Rng::derive(0xC29, &[0, i]);
        let mut c = cfg.clone();
        c.max_depth = 1 + (i % 3) as usize;
        let reg = if i % 4 == 0 { Reg::Sorted(i / 4) } else { Reg::Layout };
        gen_case(&rep, &mut rng, &c, i, reg, i, corrupt);
    });
    vcommon::par::run(args.workers, 0..n_fix, |i| fixture_case(&rep, &fx, 0xC29, i, i / N_FIXTURE_TEMPLATES, false, corrupt));
    vcommon::par::run(args.workers, 0..n_own, |i| fixture_case(&rep, &fx, 0xC29, i, i / N_STATS_TEMPLATES, true, corrupt));
    vcommon::par::run(args.workers, 0..n_agg, |i| agg_case(&rep, &fx, 0xC29, i, corrupt));
    for k in REQUIRED_NODE_KINDS {
        rep.obligation(&format!("node-kind:{k}"), rep.get_count(&format!("stats_nodes_plan/{k}")) > 0, "statistics of this operator must be examined on a fully drained output in the systematic part");
    }
    for (stat, min) in [("exact_num_rows", 1000u64), ("exact_null_count", 1000), ("exact_min", 200), ("exact_max", 200)] {
        let n: u64 = COUNTED_KINDS.iter().map(|k| rep.get_count(&format!("{stat}/{k}"))).sum();
        rep.obligation(&format!("claims:{stat}"), n >= min, "exact claims of this kind must have been compared");
    }
    rep.obligation("rule-fired", rep.get_count("aggregate_statistics_rule_fired_fixture") >= 50, "the aggregate_statistics rule must have rewritten plans");
    vcommon::par::run(args.workers, 0..n_rand, |i| {
        if rep.violation_count() > 4000 || !rep.within_budget(args.tier.pick(70.0, 900.0)) {
            return;
        }
        match i % 6 {
            4 => fixture_case(&rep, &fx, args.seed, 1_000_000 + i, i, i % 12 == 4, corrupt),
            5 => agg_case(&rep, &fx, args.seed, 1_000_000 + i, corrupt),
            _ => {
                let mut rng = Rng::derive(args.seed, &[1, i]);
                let mut c = cfg.clone();
                c.max_depth = 1 + (i % 4) as usize;
                if i % 7 == 0 {
                    c.max_rows = 30;
                }
                let reg = if i % 4 == 0 { Reg::Sorted(rng.below(5)) } else { Reg::Layout };
                let cfg_idx = rng.below(10);
                gen_case(&rep, &mut rng, &c, cfg_idx, reg, i, corrupt);
            }
        }
    });
    let executed = rep.get_count("executed_generated") + rep.get_count("executed_generated-sorted") + rep.get_count("executed_fixture");
    let guard = rep.get_count("guard_mismatch");
    rep.obligation("guard", guard * 100 <= executed.max(1), "wrapped and unwrapped runs must agree in >= 99% of the executed cases");
    rep.obligation("executed-share", executed * 100 >= (n_sys + n_fix + n_own) * 60, "at least 60% of the systematic cases must execute");
    rep.finish()
}

const COUNTED_KINDS: &[&str] = &[
    "DataSourceExec", "ProjectionExec", "FilterExec", "SortExec", "SortPreservingMergeExec", "AggregateExec", "HashJoinExec", "SortMergeJoinExec", "NestedLoopJoinExec", "CrossJoinExec",
    "RepartitionExec", "CoalescePartitionsExec", "CoalesceBatchesExec", "UnionExec", "InterleaveExec", "BoundedWindowAggExec", "WindowAggExec", "GlobalLimitExec", "LocalLimitExec",
    "PlaceholderRowExec", "EmptyExec", "RecursiveQueryExec", "WorkTableExec", "ScalarSubqueryExec", "LazyMemoryExec", "PartialSortExec", "UnnestExec", "CooperativeExec",
];

fn main() {
    let args = Args::parse();
    vcommon::par::quiet_panics();
    std::process::exit(run(&args));
}
