//! C05 — every join operator computes exactly its join type's result.
//!
//! The physical join operators are built DIRECTLY (no SQL, no optimizer) over in-memory sources
//! with a recorded partition/batch layout and compared, as multisets, with a nested-loop
//! evaluation of the join definition over plain `Value` rows (`oracle`).

use arrow::array::{ArrayRef, Int32Array, Int64Array, StringArray};
use arrow::compute::SortOptions;
use arrow::datatypes::{DataType, Field, Schema, SchemaRef};
use arrow::record_batch::RecordBatch;
use datafusion::execution::TaskContext;
use datafusion::execution::runtime_env::RuntimeEnvBuilder;
use datafusion::prelude::SessionConfig;
use datafusion_common::{JoinSide, JoinType, NullEquality};
use datafusion_datasource::memory::MemorySourceConfig;
use datafusion_expr::Operator;
use datafusion_physical_expr::expressions::{BinaryExpr, Column, lit};
use datafusion_physical_expr::{LexOrdering, Partitioning, PhysicalExpr, PhysicalSortExpr};
use datafusion_physical_plan::{ExecutionPlan, ExecutionPlanProperties};
use datafusion_physical_plan::coalesce_partitions::CoalescePartitionsExec;
use datafusion_physical_plan::joins::utils::{ColumnIndex, JoinFilter};
use datafusion_physical_plan::joins::{
    CrossJoinExec, HashJoinExecBuilder, NestedLoopJoinExec, PartitionMode, PiecewiseMergeJoinExec, SortMergeJoinExec, StreamJoinPartitionMode,
    SymmetricHashJoinExec,
};
use datafusion_physical_plan::repartition::RepartitionExec;
use datafusion_physical_plan::test::TestMemoryExec;
use dfv::canon::multiset_eq;
use dfv::engine::{ErrClass, batches_to_rows, classify, current_thread_rt};
use dfv::value::{Row, Value, rows_to_json};
use std::cmp::Ordering;
use std::collections::BTreeMap;
use std::sync::{Arc, Mutex};
use vcommon::{Args, Json, Report, Rng, fp_mix, fp_str, json};

// ------------------------------------------------------------------------------------------
// case description (fully materialised; JSON round-trippable so that a witness replays
// without the generator)

const JOIN_TYPES: [JoinType; 10] = [
    JoinType::Inner,
    JoinType::Left,
    JoinType::Right,
    JoinType::Full,
    JoinType::LeftSemi,
    JoinType::LeftAnti,
    JoinType::RightSemi,
    JoinType::RightAnti,
    JoinType::LeftMark,
    JoinType::RightMark,
];

#[derive(Clone, Copy, Debug, PartialEq, Eq)]
enum KeyTy {
    I32,
    I64,
    Utf8,
}

impl KeyTy {
    fn name(self) -> &'static str {
        match self {
            KeyTy::I32 => "I32",
            KeyTy::I64 => "I64",
            KeyTy::Utf8 => "Utf8",
        }
    }
    fn parse(s: &str) -> KeyTy {
        match s {
            "I64" => KeyTy::I64,
            "Utf8" => KeyTy::Utf8,
            _ => KeyTy::I32,
        }
    }
    fn arrow(self) -> DataType {
        match self {
            KeyTy::I32 => DataType::Int32,
            KeyTy::I64 => DataType::Int64,
            KeyTy::Utf8 => DataType::Utf8,
        }
    }
}

#[derive(Clone, Copy, Debug, PartialEq, Eq)]
enum OpKind {
    Hash,
    Smj,
    Nlj,
    Shj,
    Cross,
    Pwmj,
}

impl OpKind {
    fn name(self) -> &'static str {
        match self {
            OpKind::Hash => "HashJoinExec",
            OpKind::Smj => "SortMergeJoinExec",
            OpKind::Nlj => "NestedLoopJoinExec",
            OpKind::Shj => "SymmetricHashJoinExec",
            OpKind::Cross => "CrossJoinExec",
            OpKind::Pwmj => "PiecewiseMergeJoinExec",
        }
    }
    fn parse(s: &str) -> OpKind {
        match s {
            "SortMergeJoinExec" => OpKind::Smj,
            "NestedLoopJoinExec" => OpKind::Nlj,
            "SymmetricHashJoinExec" => OpKind::Shj,
            "CrossJoinExec" => OpKind::Cross,
            "PiecewiseMergeJoinExec" => OpKind::Pwmj,
            _ => OpKind::Hash,
        }
    }
}

#[derive(Clone, Copy, Debug, PartialEq, Eq)]
enum FilterKind {
    None,
    /// l.v < r.v
    Lt,
    /// (l.v + r.v) % 3 = 0
    Mod3,
    /// l.v > 2   (references the left side only)
    LeftOnly,
    /// r.v <= 5  (references the right side only)
    RightOnly,
}

const FILTERS: [FilterKind; 4] = [FilterKind::Lt, FilterKind::Mod3, FilterKind::LeftOnly, FilterKind::RightOnly];

impl FilterKind {
    fn name(self) -> &'static str {
        match self {
            FilterKind::None => "none",
            FilterKind::Lt => "l.v<r.v",
            FilterKind::Mod3 => "(l.v+r.v)%3=0",
            FilterKind::LeftOnly => "l.v>2",
            FilterKind::RightOnly => "r.v<=5",
        }
    }
    fn parse(s: &str) -> FilterKind {
        match s {
            "l.v<r.v" => FilterKind::Lt,
            "(l.v+r.v)%3=0" => FilterKind::Mod3,
            "l.v>2" => FilterKind::LeftOnly,
            "r.v<=5" => FilterKind::RightOnly,
            _ => FilterKind::None,
        }
    }
}

/// Row layout of both inputs: [k1, k2, v, id]; `id` is unique and never NULL.
const K1: usize = 0;
const V: usize = 2;
const W: usize = 4;

#[derive(Clone, Debug)]
struct Case {
    kt1: KeyTy,
    kt2: KeyTy,
    left: Vec<Row>,
    right: Vec<Row>,
    shape: String,
    // what is joined
    op: OpKind,
    jt: JoinType,
    nkeys: usize,
    neq_null: bool,
    filter: FilterKind,
    // operator mode
    /// Hash: Partitioned vs CollectLeft; Shj: Partitioned vs SinglePartition; Smj: co-partitioned inputs
    partitioned: bool,
    nparts: usize,
    /// Hash: 0 = perfect hash join forced off, 1 = forced on, 2 = engine defaults
    perfect: u8,
    null_aware: bool,
    /// Hash/Shj partitioned: let a RepartitionExec(Hash) co-partition the inputs instead of the harness
    via_repartition: bool,
    /// Smj: (descending, nulls_first) per key
    sort_opts: Vec<(bool, bool)>,
    /// Nlj / Smj: memory pool size in bytes
    mem_limit: Option<usize>,
    /// Shj: `enforce_batch_size_in_joins`
    enforce_bs: bool,
    /// Shj: inputs sorted on v (ascending, nulls last) and declared so (enables pruning with a filter)
    shj_sorted: bool,
    /// Pwmj: 0 `<`, 1 `<=`, 2 `>`, 3 `>=` applied as `l.v op r.v`
    pw_op: u8,
    // physical layout
    lparts: usize,
    rparts: usize,
    /// rows per source batch; 0 = one batch per partition
    lbatch: usize,
    rbatch: usize,
    batch_size: usize,
    proj: Option<Vec<usize>>,
    fetch: Option<usize>,
    /// TestMemoryExec instead of DataSourceExec(MemorySourceConfig)
    test_source: bool,
}

fn jt_parse(s: &str) -> JoinType {
    JOIN_TYPES.iter().copied().find(|j| format!("{j:?}") == s).unwrap_or(JoinType::Inner)
}

impl Case {
    fn to_json(&self) -> Json {
        json!({
            "kt1": self.kt1.name(), "kt2": self.kt2.name(), "shape": self.shape,
            "columns": ["k1", "k2", "v", "id"],
            "left": rows_to_json(&self.left), "right": rows_to_json(&self.right),
            "op": self.op.name(), "join_type": format!("{:?}", self.jt), "nkeys": self.nkeys,
            "null_equals_null": self.neq_null, "filter": self.filter.name(),
            "partitioned": self.partitioned, "nparts": self.nparts, "perfect": self.perfect, "null_aware": self.null_aware,
            "via_repartition": self.via_repartition,
            "sort_opts": self.sort_opts.iter().map(|(d, n)| json!([d, n])).collect::<Vec<_>>(),
            "mem_limit": self.mem_limit, "enforce_bs": self.enforce_bs, "shj_sorted": self.shj_sorted, "pw_op": self.pw_op,
            "lparts": self.lparts, "rparts": self.rparts, "lbatch": self.lbatch, "rbatch": self.rbatch, "batch_size": self.batch_size,
            "proj": self.proj, "fetch": self.fetch, "test_source": self.test_source,
        })
    }

    fn from_json(j: &Json) -> Option<Case> {
        let kt1 = KeyTy::parse(j.get("kt1")?.as_str()?);
        let kt2 = KeyTy::parse(j.get("kt2")?.as_str()?);
        let rows = |key: &str| -> Option<Vec<Row>> {
            let mut out = vec![];
            for r in j.get(key)?.as_array()? {
                let r = r.as_array()?;
                let cell = |v: &Json| match v {
                    Json::Null => Value::Null,
                    Json::String(s) => Value::Str(s.clone()),
                    other => Value::Int(other.as_i64().unwrap_or(0)),
                };
                out.push(r.iter().map(cell).collect());
            }
            Some(out)
        };
        let u = |k: &str| j.get(k).and_then(|x| x.as_u64()).unwrap_or(0) as usize;
        let b = |k: &str| j.get(k).and_then(|x| x.as_bool()).unwrap_or(false);
        Some(Case {
            kt1,
            kt2,
            left: rows("left")?,
            right: rows("right")?,
            shape: j.get("shape").and_then(|x| x.as_str()).unwrap_or("replay").to_string(),
            op: OpKind::parse(j.get("op")?.as_str()?),
            jt: jt_parse(j.get("join_type")?.as_str()?),
            nkeys: u("nkeys").clamp(1, 2),
            neq_null: b("null_equals_null"),
            filter: FilterKind::parse(j.get("filter").and_then(|x| x.as_str()).unwrap_or("none")),
            partitioned: b("partitioned"),
            nparts: u("nparts").max(1),
            perfect: u("perfect") as u8,
            null_aware: b("null_aware"),
            via_repartition: b("via_repartition"),
            sort_opts: j
                .get("sort_opts")
                .and_then(|x| x.as_array())
                .map(|a| a.iter().map(|p| (p[0].as_bool().unwrap_or(false), p[1].as_bool().unwrap_or(false))).collect())
                .unwrap_or_default(),
            mem_limit: j.get("mem_limit").and_then(|x| x.as_u64()).map(|x| x as usize),
            enforce_bs: b("enforce_bs"),
            shj_sorted: b("shj_sorted"),
            pw_op: u("pw_op") as u8,
            lparts: u("lparts").max(1),
            rparts: u("rparts").max(1),
            lbatch: u("lbatch"),
            rbatch: u("rbatch"),
            batch_size: u("batch_size").max(1),
            proj: j.get("proj").and_then(|x| x.as_array()).map(|a| a.iter().map(|x| x.as_u64().unwrap_or(0) as usize).collect()),
            fetch: j.get("fetch").and_then(|x| x.as_u64()).map(|x| x as usize),
            test_source: b("test_source"),
        })
    }

    fn fingerprint(&self) -> u64 {
        fp_str(&self.to_json().to_string())
    }

    /// label of the operator *mode* for the coverage matrix (refined after execution by what the
    /// operator reports, e.g. whether the array map was really built / a spill really happened)
    fn mode_label(&self, array_map: bool, spilled: bool) -> String {
        match self.op {
            OpKind::Hash => {
                let m = if self.partitioned { "Partitioned" } else { "CollectLeft" };
                let v = if self.null_aware {
                    "+null_aware"
                } else if array_map {
                    "+array_map"
                } else {
                    ""
                };
                format!("HashJoinExec:{m}{v}")
            }
            OpKind::Smj => format!("SortMergeJoinExec{}", if spilled { "+spill" } else { "" }),
            OpKind::Nlj => format!("NestedLoopJoinExec{}", if spilled { "+spill" } else { "" }),
            OpKind::Shj => format!(
                "SymmetricHashJoinExec:{}{}",
                if self.partitioned { "Partitioned" } else { "SinglePartition" },
                if self.shj_sorted { "+sorted" } else { "" }
            ),
            OpKind::Cross => "CrossJoinExec".to_string(),
            OpKind::Pwmj => "PiecewiseMergeJoinExec".to_string(),
        }
    }

    fn pw_operator(&self) -> Operator {
        match self.pw_op & 3 {
            0 => Operator::Lt,
            1 => Operator::LtEq,
            2 => Operator::Gt,
            _ => Operator::GtEq,
        }
    }
}

// ------------------------------------------------------------------------------------------
// ORACLE: nested-loop evaluation of the join definition with SQL three-valued logic

fn int(v: &Value) -> Option<i64> {
    if let Value::Int(i) = v { Some(*i) } else { None }
}

/// residual filter under 3VL: None = NULL (does not qualify)
fn filter_eval(k: FilterKind, l: &Row, r: &Row) -> Option<bool> {
    match k {
        FilterKind::None => Some(true),
        FilterKind::Lt => Some(int(&l[V])? < int(&r[V])?),
        FilterKind::Mod3 => Some((int(&l[V])? + int(&r[V])?) % 3 == 0),
        FilterKind::LeftOnly => Some(int(&l[V])? > 2),
        FilterKind::RightOnly => Some(int(&r[V])? <= 5),
    }
}

fn key_eq(a: &Value, b: &Value, null_equals_null: bool) -> bool {
    match (a, b) {
        (Value::Null, Value::Null) => null_equals_null,
        (Value::Null, _) | (_, Value::Null) => false,
        _ => a == b,
    }
}

/// the complete join condition of the case for one pair of rows
fn pair_matches(c: &Case, l: &Row, r: &Row) -> bool {
    match c.op {
        OpKind::Cross => true,
        OpKind::Pwmj => match (int(&l[V]), int(&r[V])) {
            (Some(a), Some(b)) => match c.pw_operator() {
                Operator::Lt => a < b,
                Operator::LtEq => a <= b,
                Operator::Gt => a > b,
                _ => a >= b,
            },
            _ => false,
        },
        _ => (0..c.nkeys).all(|k| key_eq(&l[k], &r[k], c.neq_null)) && filter_eval(c.filter, l, r) == Some(true),
    }
}

/// `x NOT IN (SELECT key FROM other WHERE filter)` is TRUE (three-valued) for row `x`
fn not_in_true(c: &Case, x: &Row, other: &[Row], x_is_left: bool) -> bool {
    let qualifies = |o: &Row| if x_is_left { filter_eval(c.filter, x, o) } else { filter_eval(c.filter, o, x) } == Some(true);
    let set: Vec<&Row> = other.iter().filter(|o| qualifies(o)).collect();
    if set.is_empty() {
        return true;
    }
    if x[K1].is_null() {
        return false; // NULL NOT IN (non-empty) is NULL
    }
    // any equal member -> FALSE; else any NULL member -> NULL; else TRUE
    !set.iter().any(|o| o[K1].is_null() || o[K1] == x[K1])
}

fn oracle(c: &Case) -> Vec<Row> {
    let (l, r) = (&c.left, &c.right);
    let nulls = || vec![Value::Null; W];
    let cat = |a: &Row, b: &Row| a.iter().chain(b.iter()).cloned().collect::<Row>();
    let lm: Vec<bool> = l.iter().map(|x| r.iter().any(|y| pair_matches(c, x, y))).collect();
    let rm: Vec<bool> = r.iter().map(|y| l.iter().any(|x| pair_matches(c, x, y))).collect();
    let mut out = vec![];
    let pairs = |out: &mut Vec<Row>| {
        for x in l {
            for y in r {
                if pair_matches(c, x, y) {
                    out.push(cat(x, y));
                }
            }
        }
    };
    let mark = |row: &Row, m: bool| row.iter().cloned().chain([Value::Bool(m)]).collect::<Row>();
    match c.jt {
        JoinType::Inner => pairs(&mut out),
        JoinType::Left | JoinType::Right | JoinType::Full => {
            pairs(&mut out);
            if c.jt != JoinType::Right {
                out.extend(l.iter().zip(&lm).filter(|(_, m)| !**m).map(|(x, _)| cat(x, &nulls())));
            }
            if c.jt != JoinType::Left {
                out.extend(r.iter().zip(&rm).filter(|(_, m)| !**m).map(|(y, _)| cat(&nulls(), y)));
            }
        }
        JoinType::LeftSemi => out.extend(l.iter().zip(&lm).filter(|(_, m)| **m).map(|(x, _)| x.clone())),
        JoinType::RightSemi => out.extend(r.iter().zip(&rm).filter(|(_, m)| **m).map(|(y, _)| y.clone())),
        JoinType::LeftAnti if c.null_aware => out.extend(l.iter().filter(|x| not_in_true(c, x, r, true)).cloned()),
        JoinType::RightAnti if c.null_aware => out.extend(r.iter().filter(|y| not_in_true(c, y, l, false)).cloned()),
        JoinType::LeftAnti => out.extend(l.iter().zip(&lm).filter(|(_, m)| !**m).map(|(x, _)| x.clone())),
        JoinType::RightAnti => out.extend(r.iter().zip(&rm).filter(|(_, m)| !**m).map(|(y, _)| y.clone())),
        JoinType::LeftMark => out.extend(l.iter().zip(&lm).map(|(x, m)| mark(x, *m))),
        JoinType::RightMark => out.extend(r.iter().zip(&rm).map(|(y, m)| mark(y, *m))),
    }
    if let Some(p) = &c.proj {
        out = out.into_iter().map(|row| p.iter().map(|i| row[*i].clone()).collect()).collect();
    }
    out
}

/// The engine's *documented-as-implemented* model of a null-aware LEFT ANTI join that carries a
/// residual filter: the NULL handling looks at the whole probe side, not at the rows that pass
/// the filter. Used only to key a known deviation precisely.
fn null_aware_global_model(c: &Case) -> Vec<Row> {
    if c.right.iter().any(|y| y[K1].is_null()) {
        return vec![];
    }
    let nonempty = !c.right.is_empty();
    c.left.iter().filter(|x| !(nonempty && x[K1].is_null()) && !c.right.iter().any(|y| pair_matches(c, x, y))).cloned().collect()
}

// ------------------------------------------------------------------------------------------
// expected-support table (fixed): which join types an operator is expected to accept

fn expected_support(c: &Case) -> bool {
    match c.op {
        OpKind::Cross => c.jt == JoinType::Inner,
        OpKind::Pwmj => !matches!(c.jt, JoinType::RightSemi | JoinType::RightAnti | JoinType::LeftMark | JoinType::RightMark),
        OpKind::Hash if c.null_aware => match c.jt {
            JoinType::LeftAnti => true,
            JoinType::RightAnti => !c.partitioned && c.filter == FilterKind::None,
            _ => false,
        },
        _ => true,
    }
}

// ------------------------------------------------------------------------------------------
// physical plan construction

fn side_schema(c: &Case, left: bool) -> SchemaRef {
    let p = if left { "l" } else { "r" };
    Arc::new(Schema::new(vec![
        Field::new(format!("{p}k1"), c.kt1.arrow(), true),
        Field::new(format!("{p}k2"), c.kt2.arrow(), true),
        Field::new(format!("{p}v"), DataType::Int32, true),
        Field::new(format!("{p}id"), DataType::Int32, false),
    ]))
}

fn key_array(rows: &[&Row], col: usize, ty: KeyTy) -> ArrayRef {
    match ty {
        KeyTy::I32 => Arc::new(Int32Array::from_iter(rows.iter().map(|r| int(&r[col]).map(|i| i as i32)))),
        KeyTy::I64 => Arc::new(Int64Array::from_iter(rows.iter().map(|r| int(&r[col])))),
        KeyTy::Utf8 => Arc::new(StringArray::from_iter(rows.iter().map(|r| if let Value::Str(s) = &r[col] { Some(s.clone()) } else { None }))),
    }
}

fn to_batch(c: &Case, schema: &SchemaRef, rows: &[&Row]) -> RecordBatch {
    let cols: Vec<ArrayRef> = vec![
        key_array(rows, 0, c.kt1),
        key_array(rows, 1, c.kt2),
        key_array(rows, 2, KeyTy::I32),
        Arc::new(Int32Array::from_iter_values(rows.iter().map(|r| int(&r[3]).unwrap_or(0) as i32))),
    ];
    RecordBatch::try_new(schema.clone(), cols).expect("harness batch")
}

fn val_cmp(a: &Value, b: &Value, desc: bool, nulls_first: bool) -> Ordering {
    match (a.is_null(), b.is_null()) {
        (true, true) => Ordering::Equal,
        (true, false) => if nulls_first { Ordering::Less } else { Ordering::Greater },
        (false, true) => if nulls_first { Ordering::Greater } else { Ordering::Less },
        _ => {
            let o = match (a, b) {
                (Value::Int(x), Value::Int(y)) => x.cmp(y),
                (Value::Str(x), Value::Str(y)) => x.as_bytes().cmp(y.as_bytes()),
                _ => Ordering::Equal,
            };
            if desc { o.reverse() } else { o }
        }
    }
}

fn key_partition(row: &Row, nkeys: usize, n: usize) -> usize {
    let mut h = 17u64;
    for k in 0..nkeys {
        h = fp_mix(h, fp_str(&row[k].render()));
    }
    (h % n as u64) as usize
}

/// rows of one side -> partitions (lists of row refs), honouring what the operator requires
fn partition_rows<'a>(c: &Case, rows: &'a [Row], left: bool) -> Vec<Vec<&'a Row>> {
    let copartition = c.partitioned && !c.via_repartition;
    let n = if copartition {
        c.nparts
    } else if c.op == OpKind::Smj || (c.op == OpKind::Shj && !c.partitioned) || (c.op == OpKind::Pwmj && left) {
        1
    } else if left {
        c.lparts
    } else {
        c.rparts
    };
    let n = n.max(1);
    let mut parts: Vec<Vec<&Row>> = vec![vec![]; n];
    for (i, r) in rows.iter().enumerate() {
        let p = if copartition { key_partition(r, c.nkeys, n) } else { i * n / rows.len().max(1) };
        parts[p].push(r);
    }
    // orderings the operator relies on
    for p in parts.iter_mut() {
        match c.op {
            OpKind::Smj => p.sort_by(|a, b| {
                for k in 0..c.nkeys {
                    let (d, nf) = c.sort_opts.get(k).copied().unwrap_or((false, false));
                    let o = val_cmp(&a[k], &b[k], d, nf);
                    if o != Ordering::Equal {
                        return o;
                    }
                }
                Ordering::Equal
            }),
            OpKind::Shj if c.shj_sorted => p.sort_by(|a, b| val_cmp(&a[V], &b[V], false, false)),
            _ => {}
        }
    }
    parts
}

fn source(c: &Case, left: bool, sort_on: Option<(usize, SortOptions)>) -> datafusion_common::Result<Arc<dyn ExecutionPlan>> {
    let schema = side_schema(c, left);
    let rows = if left { &c.left } else { &c.right };
    let per = if left { c.lbatch } else { c.rbatch };
    let mut parts = partition_rows(c, rows, left);
    if let Some((col, so)) = sort_on {
        for p in parts.iter_mut() {
            p.sort_by(|a, b| val_cmp(&a[col], &b[col], so.descending, so.nulls_first));
        }
    }
    let batches: Vec<Vec<RecordBatch>> = parts
        .iter()
        .enumerate()
        .map(|(pi, p)| {
            if p.is_empty() {
                // alternate between "no batch at all" and "one empty batch"
                return if pi % 2 == 0 { vec![] } else { vec![to_batch(c, &schema, &[])] };
            }
            let sz = if per == 0 { p.len() } else { per };
            p.chunks(sz).map(|ch| to_batch(c, &schema, ch)).collect()
        })
        .collect();
    let mut ordering: Vec<LexOrdering> = vec![];
    if c.op == OpKind::Shj && c.shj_sorted {
        let e = PhysicalSortExpr::new(Arc::new(Column::new(schema.field(V).name(), V)), SortOptions::new(false, false));
        ordering.extend(LexOrdering::new(vec![e]));
    }
    let plan: Arc<dyn ExecutionPlan> = if c.test_source {
        let t = TestMemoryExec::try_new(&batches, schema.clone(), None)?;
        let t = if ordering.is_empty() { t } else { t.try_with_sort_information(ordering)? };
        Arc::new(TestMemoryExec::update_cache(&Arc::new(t)))
    } else {
        let m = MemorySourceConfig::try_new(&batches, schema.clone(), None)?;
        let m = if ordering.is_empty() { m } else { m.try_with_sort_information(ordering)? };
        datafusion_datasource::source::DataSourceExec::from_data_source(m)
    };
    // operators that need ONE left partition get a CoalescePartitionsExec when the source has several
    let single_left = left && matches!(c.op, OpKind::Nlj | OpKind::Cross | OpKind::Pwmj) || (left && c.op == OpKind::Hash && !c.partitioned);
    let plan: Arc<dyn ExecutionPlan> = if single_left && batches.len() > 1 { Arc::new(CoalescePartitionsExec::new(plan)) } else { plan };
    if c.partitioned && c.via_repartition {
        let keys: Vec<Arc<dyn PhysicalExpr>> = (0..c.nkeys).map(|k| Arc::new(Column::new(schema.field(k).name(), k)) as _).collect();
        return Ok(Arc::new(RepartitionExec::try_new(plan, Partitioning::Hash(keys, c.nparts))?));
    }
    Ok(plan)
}

fn bin(l: Arc<dyn PhysicalExpr>, op: Operator, r: Arc<dyn PhysicalExpr>) -> Arc<dyn PhysicalExpr> {
    Arc::new(BinaryExpr::new(l, op, r))
}

/// residual JoinFilter over an intermediate schema that contains only the referenced columns;
/// `with_keys` (nested loop join) additionally folds the equality keys into the predicate
fn join_filter(c: &Case, with_keys: bool) -> Option<JoinFilter> {
    let (ls, rs) = (side_schema(c, true), side_schema(c, false));
    let mut fields: Vec<Field> = vec![];
    let mut idx: Vec<ColumnIndex> = vec![];
    let mut add = |side: JoinSide, col: usize| -> Arc<dyn PhysicalExpr> {
        let f = if side == JoinSide::Left { ls.field(col).clone() } else { rs.field(col).clone() };
        let e = Arc::new(Column::new(f.name(), fields.len()));
        fields.push(f);
        idx.push(ColumnIndex { index: col, side });
        e
    };
    let mut conj: Vec<Arc<dyn PhysicalExpr>> = vec![];
    if with_keys {
        for k in 0..c.nkeys {
            let (a, b) = (add(JoinSide::Left, k), add(JoinSide::Right, k));
            conj.push(bin(a, if c.neq_null { Operator::IsNotDistinctFrom } else { Operator::Eq }, b));
        }
    }
    match c.filter {
        FilterKind::None => {}
        FilterKind::Lt => {
            let (a, b) = (add(JoinSide::Left, V), add(JoinSide::Right, V));
            conj.push(bin(a, Operator::Lt, b));
        }
        FilterKind::Mod3 => {
            let (a, b) = (add(JoinSide::Left, V), add(JoinSide::Right, V));
            conj.push(bin(bin(bin(a, Operator::Plus, b), Operator::Modulo, lit(3i32)), Operator::Eq, lit(0i32)));
        }
        FilterKind::LeftOnly => {
            let a = add(JoinSide::Left, V);
            conj.push(bin(a, Operator::Gt, lit(2i32)));
        }
        FilterKind::RightOnly => {
            let b = add(JoinSide::Right, V);
            conj.push(bin(b, Operator::LtEq, lit(5i32)));
        }
    }
    let expr = conj.into_iter().reduce(|a, b| bin(a, Operator::And, b))?;
    Some(JoinFilter::new(expr, idx, Arc::new(Schema::new(fields))))
}

fn build_plan(c: &Case) -> datafusion_common::Result<Arc<dyn ExecutionPlan>> {
    let (ls, rs) = (side_schema(c, true), side_schema(c, false));
    let on: Vec<(Arc<dyn PhysicalExpr>, Arc<dyn PhysicalExpr>)> =
        (0..c.nkeys).map(|k| (Arc::new(Column::new(ls.field(k).name(), k)) as _, Arc::new(Column::new(rs.field(k).name(), k)) as _)).collect();
    let neq = if c.neq_null { NullEquality::NullEqualsNull } else { NullEquality::NullEqualsNothing };
    Ok(match c.op {
        OpKind::Hash => {
            let b = HashJoinExecBuilder::new(source(c, true, None)?, source(c, false, None)?, on, c.jt)
                .with_filter(join_filter(c, false))
                .with_partition_mode(if c.partitioned { PartitionMode::Partitioned } else { PartitionMode::CollectLeft })
                .with_null_equality(neq)
                .with_null_aware(c.null_aware)
                .with_projection(c.proj.clone())
                .with_fetch(c.fetch);
            b.build_exec()?
        }
        OpKind::Smj => {
            let so: Vec<SortOptions> = (0..c.nkeys).map(|k| c.sort_opts.get(k).copied().unwrap_or((false, false))).map(|(d, n)| SortOptions::new(d, n)).collect();
            let j = SortMergeJoinExec::try_new(source(c, true, None)?, source(c, false, None)?, on, join_filter(c, false), c.jt, so, neq)?;
            match &c.proj {
                Some(p) => Arc::new(j.with_projection(Some(p.clone()))?),
                None => Arc::new(j),
            }
        }
        OpKind::Nlj => Arc::new(NestedLoopJoinExec::try_new(source(c, true, None)?, source(c, false, None)?, join_filter(c, true), &c.jt, c.proj.clone())?),
        OpKind::Shj => {
            let (lo, ro) = if c.shj_sorted {
                let mk = |s: &SchemaRef| LexOrdering::new(vec![PhysicalSortExpr::new(Arc::new(Column::new(s.field(V).name(), V)), SortOptions::new(false, false))]);
                (mk(&ls), mk(&rs))
            } else {
                (None, None)
            };
            let mode = if c.partitioned { StreamJoinPartitionMode::Partitioned } else { StreamJoinPartitionMode::SinglePartition };
            Arc::new(SymmetricHashJoinExec::try_new(source(c, true, None)?, source(c, false, None)?, on, join_filter(c, false), &c.jt, neq, lo, ro, mode)?)
        }
        OpKind::Cross => Arc::new(CrossJoinExec::new(source(c, true, None)?, source(c, false, None)?)),
        OpKind::Pwmj => {
            let on = (Arc::new(Column::new(ls.field(V).name(), V)) as Arc<dyn PhysicalExpr>, Arc::new(Column::new(rs.field(V).name(), V)) as Arc<dyn PhysicalExpr>);
            // first build with an unsorted buffered side to ask the operator which order it requires …
            let probe = PiecewiseMergeJoinExec::try_new(source(c, true, None)?, source(c, false, None)?, on.clone(), c.pw_operator(), c.jt, c.rparts)?;
            let so = *probe.sort_options();
            // … then hand it a buffered side that really has that order
            Arc::new(PiecewiseMergeJoinExec::try_new(source(c, true, Some((V, so)))?, source(c, false, None)?, on, c.pw_operator(), c.jt, c.rparts)?)
        }
    })
}

fn task_ctx(c: &Case) -> datafusion_common::Result<Arc<TaskContext>> {
    let mut cfg = SessionConfig::new().with_batch_size(c.batch_size);
    {
        let o = &mut cfg.options_mut().execution;
        o.enforce_batch_size_in_joins = c.enforce_bs;
        match c.perfect {
            0 => {
                o.perfect_hash_join_small_build_threshold = 0;
                o.perfect_hash_join_min_key_density = f64::INFINITY;
            }
            1 => {
                o.perfect_hash_join_small_build_threshold = 819_200;
                o.perfect_hash_join_min_key_density = 0.0;
            }
            _ => {}
        }
    }
    let mut ctx = TaskContext::default().with_session_config(cfg);
    if let Some(m) = c.mem_limit {
        ctx = ctx.with_runtime(RuntimeEnvBuilder::new().with_memory_limit(m, 1.0).build_arc()?);
    }
    Ok(Arc::new(ctx))
}

struct Observed {
    rows: Vec<Row>,
    array_map: bool,
    spills: usize,
    out_partitions: usize,
}

/// `fetch` limits every OUTPUT PARTITION of the operator: the result is a sub-multiset of the
/// definition with between min(n, k) and min(n, k * partitions) rows
fn fetch_ok(rows: &[Row], expected: &[Row], k: usize, out_partitions: usize) -> bool {
    let n = expected.len();
    rows.len() >= n.min(k) && rows.len() <= n.min(k * out_partitions.max(1)) && is_submultiset(rows, expected)
}

enum Outcome {
    Rejected(String),
    Ran(Observed),
    Failed(datafusion_common::DataFusionError),
    Timeout,
}

fn execute(c: &Case) -> Outcome {
    let plan = match build_plan(c) {
        Ok(p) => p,
        Err(e) => return Outcome::Rejected(e.to_string()),
    };
    let ctx = match task_ctx(c) {
        Ok(x) => x,
        Err(e) => return Outcome::Failed(e),
    };
    let rt = current_thread_rt();
    let res = rt.block_on(async { tokio::time::timeout(std::time::Duration::from_secs(60), datafusion_physical_plan::collect(plan.clone(), ctx)).await });
    match res {
        Err(_) => Outcome::Timeout,
        Ok(Err(e)) => Outcome::Failed(e),
        Ok(Ok(batches)) => {
            let m = plan.metrics();
            let array_map = m.as_ref().and_then(|m| m.sum_by_name("array_map_created_count")).map(|v| v.as_usize() > 0).unwrap_or(false);
            let spills = m.as_ref().and_then(|m| m.spill_count()).unwrap_or(0);
            let out_partitions = plan.output_partitioning().partition_count();
            Outcome::Ran(Observed { rows: batches_to_rows(&batches), array_map, spills, out_partitions })
        }
    }
}

// ------------------------------------------------------------------------------------------
// monitor

#[derive(Default)]
struct Matrix(Mutex<BTreeMap<String, BTreeMap<String, BTreeMap<String, u64>>>>);

impl Matrix {
    fn add(&self, op: &str, jt: &str, mode: &str) {
        *self.0.lock().unwrap().entry(op.into()).or_default().entry(jt.into()).or_default().entry(mode.into()).or_insert(0) += 1;
    }
}

fn is_submultiset(small: &[Row], big: &[Row]) -> bool {
    let mut used = vec![false; big.len()];
    'o: for s in small {
        for (i, b) in big.iter().enumerate() {
            if !used[i] && dfv::value::row_close(s, b) {
                used[i] = true;
                continue 'o;
            }
        }
        return false;
    }
    true
}

fn witness(c: &Case, observed: Option<&[Row]>, expected: &[Row], note: &str) -> Json {
    json!({"case": c.to_json(), "observed": observed.map(rows_to_json), "expected": rows_to_json(expected), "note": note,
           "replay": "c05 C05 --replay <this file>"})
}

/// A classified (keyed) deviation: the first occurrences per signature are reported as violations
/// with full witnesses, the rest only counted (the report keeps at most 5 witnesses per signature).
fn classified(rep: &Report, sig: &str, detail: Json) {
    rep.count(&format!("deviation_occurrences/{sig}"), 1);
    if rep.get_count(&format!("deviation_occurrences/{sig}")) <= 5 {
        rep.violation(sig, detail);
    }
}

fn one_case(rep: &Report, mx: &Matrix, c: &Case, systematic: bool, selftest: bool) {
    let fp = c.fingerprint();
    let expected = oracle(c);
    let supported = expected_support(c);
    let jt = format!("{:?}", c.jt);
    let out = match vcommon::par::guard(|| execute(c)) {
        Err(p) => {
            rep.case(fp, true);
            UNCLASSIFIED.fetch_add(1, std::sync::atomic::Ordering::Relaxed);
            rep.violation(&format!("engine-panic/{}", c.mode_label(false, false)), witness(c, None, &expected, &format!("panic: {p}")));
            return;
        }
        Ok(o) => o,
    };
    let obs = match out {
        Outcome::Rejected(msg) => {
            rep.case(fp, false);
            rep.skip(&format!("rejected-at-construction/{}/{jt}", c.mode_label(false, false)));
            rep.seen("rejected", &format!("{}/{jt}", c.mode_label(false, false)));
            if supported {
                rep.count("support_table_mismatch", 1);
                rep.extra("support_table_mismatch_sample", json!({"case": c.to_json(), "error": msg}));
            }
            return;
        }
        Outcome::Timeout => {
            rep.case(fp, false);
            rep.inconclusive("a join exceeded the 60 s wall-clock guard");
            return;
        }
        Outcome::Failed(e) => {
            rep.case(fp, false);
            match classify(&e) {
                ErrClass::ResourcesExhausted => rep.skip(&format!("resources-exhausted/{}", c.op.name())),
                ErrClass::NotImplemented => {
                    rep.skip(&format!("not-implemented-at-execution/{}/{jt}", c.mode_label(false, false)));
                    if supported {
                        rep.count("support_table_mismatch", 1);
                    }
                }
                // the operator declines the requested configuration when it plans its streams
                // (e.g. a symmetric hash join asked to prune on an order its filter does not mention)
                ErrClass::Plan => rep.skip(&format!("declined-at-execution/{}/{}", c.mode_label(false, false), c.filter.name())),
                _ => rep.violation(
                    &format!("engine-error/{}/{jt}", c.mode_label(false, false)),
                    witness(c, None, &expected, &format!("error: {}", e.to_string().chars().take(400).collect::<String>())),
                ),
            }
            return;
        }
        Outcome::Ran(o) => o,
    };
    if !supported {
        rep.count("accepted_beyond_support_table", 1);
        rep.seen("accepted_beyond_support_table", &format!("{}/{jt}", c.mode_label(false, false)));
    }
    let mut rows = obs.rows;
    if selftest && !rows.is_empty() {
        // corrupt the OBSERVED side: lose one row
        rows.pop();
    }
    let label = c.mode_label(obs.array_map, obs.spills > 0);
    let mode = format!("{}{}", if c.neq_null { "null=null" } else { "null<>null" }, if c.filter != FilterKind::None { "+filter" } else { "" });
    rep.case(fp, !(c.left.is_empty() && c.right.is_empty()));
    rep.count(if systematic { "systematic_compared" } else { "random_compared" }, 1);
    mx.add(&label, &jt, &mode);
    rep.seen("operator_modes", &label);
    rep.count(&format!("rows_expected/{}", if expected.is_empty() { "0" } else if expected.len() < 10 { "1-9" } else if expected.len() < 100 { "10-99" } else { "100+" }), 1);
    if obs.spills > 0 {
        rep.count(&format!("spilled_cases/{}", c.op.name()), 1);
    }
    if obs.array_map {
        rep.count("array_map_cases", 1);
    }
    let ok = match c.fetch {
        Some(k) => fetch_ok(&rows, &expected, k, obs.out_partitions),
        None => multiset_eq(&rows, &expected),
    };
    if ok {
        if rep.want_sample() && expected.len() > 3 && c.filter != FilterKind::None {
            rep.sample(json!({"operator": label, "join_type": jt, "mode": mode, "left_rows": c.left.len(), "right_rows": c.right.len(), "result_rows": expected.len(),
                "layout": format!("lparts={} rparts={} lbatch={} rbatch={} batch_size={}", c.lparts, c.rparts, c.lbatch, c.rbatch, c.batch_size)}));
        }
        return;
    }
    let note = format!("engine {} rows vs nested-loop definition {} rows", rows.len(), expected.len());
    // a deviation whose root cause is keyed precisely gets its own signature
    if c.op == OpKind::Hash && c.null_aware && c.jt == JoinType::LeftAnti && c.filter != FilterKind::None {
        let mut g = null_aware_global_model(c);
        if let Some(p) = &c.proj {
            g = g.into_iter().map(|row| p.iter().map(|i| row[*i].clone()).collect()).collect();
        }
        let agrees = match c.fetch {
            Some(k) => fetch_ok(&rows, &g, k, obs.out_partitions),
            None => multiset_eq(&rows, &g),
        };
        if agrees {
            classified(rep, "null-aware-anti-join/filter-ignored-for-null-handling", witness(c, Some(&rows), &expected, &format!("{note}; the engine's answer equals the model in which NULL handling looks at the whole probe side instead of the rows passing the filter")));
            return;
        }
    }
    if c.op == OpKind::Nlj && obs.spills > 0 && c.fetch.is_none() {
        if let Some((sig, why)) = nlj_spill_model(c, &rows) {
            classified(rep, sig, witness(c, Some(&rows), &expected, &format!("{note}; {why}")));
            return;
        }
    }
    if c.op == OpKind::Shj && c.neq_null {
        // localisation: the same case without the rows that carry a NULL key
        let has_null = |r: &Row| (0..c.nkeys).any(|k| r[k].is_null());
        let strip = Case { left: c.left.iter().filter(|r| !has_null(r)).cloned().collect(), right: c.right.iter().filter(|r| !has_null(r)).cloned().collect(), ..c.clone() };
        if strip.left.len() + strip.right.len() < c.left.len() + c.right.len() {
            if let Ok(Outcome::Ran(o)) = vcommon::par::guard(|| execute(&strip)) {
                if multiset_eq(&o.rows, &oracle(&strip)) {
                    classified(rep, "symmetric-hash-join/null-equals-null-key-not-matched", witness(c, Some(&rows), &expected, &format!("{note}; the same case without the NULL-key rows agrees with the definition")));
                    return;
                }
            }
        }
    }
    UNCLASSIFIED.fetch_add(1, std::sync::atomic::Ordering::Relaxed);
    rep.violation(&format!("multiset-mismatch/{label}/{jt}"), witness(c, Some(&rows), &expected, &note));
}

static UNCLASSIFIED: std::sync::atomic::AtomicU64 = std::sync::atomic::AtomicU64::new(0);
static STOP: std::sync::atomic::AtomicBool = std::sync::atomic::AtomicBool::new(false);

/// Models of the two deviations of the nested loop join's memory-limited (spill) fallback; a
/// mismatch is keyed to one of them only when the model reproduces the engine's answer exactly.
fn nlj_spill_model(c: &Case, observed: &[Row]) -> Option<(&'static str, &'static str)> {
    let project = |rows: Vec<Row>| -> Vec<Row> {
        match &c.proj {
            Some(p) => rows.into_iter().map(|row| p.iter().map(|i| row[*i].clone()).collect()).collect(),
            None => rows,
        }
    };
    let plain = Case { proj: None, ..c.clone() };
    // (1) the final pass that emits right-side rows from the global bitmap is skipped
    if matches!(c.jt, JoinType::Right | JoinType::Full | JoinType::RightSemi | JoinType::RightAnti | JoinType::RightMark) {
        let without_right_final: Vec<Row> = match c.jt {
            JoinType::Right => oracle(&Case { jt: JoinType::Inner, ..plain.clone() }),
            JoinType::Full => oracle(&Case { jt: JoinType::Left, ..plain.clone() }),
            _ => vec![],
        };
        if multiset_eq(observed, &project(without_right_final)) {
            return Some((
                "nested-loop-spill-fallback/right-side-final-emission-skipped",
                "the engine's answer is the expected result without the rows that the final global-right-bitmap pass emits",
            ));
        }
    }
    // (2) every right partition emits the left-side final rows from its own matches only
    if matches!(c.jt, JoinType::Left | JoinType::LeftSemi | JoinType::LeftAnti | JoinType::LeftMark) && c.rparts > 1 {
        let mut per_partition = vec![];
        for p in partition_rows(c, &c.right, false) {
            let part = Case { right: p.into_iter().cloned().collect(), ..plain.clone() };
            per_partition.extend(oracle(&part));
        }
        if multiset_eq(observed, &project(per_partition)) {
            return Some((
                "nested-loop-spill-fallback/left-side-final-emission-per-right-partition",
                "the engine's answer is the union of the joins of the left input with each right partition separately",
            ));
        }
    }
    None
}

// ------------------------------------------------------------------------------------------
// generators

fn kv(ty: KeyTy, i: Option<i64>) -> Value {
    match (ty, i) {
        (_, None) => Value::Null,
        (KeyTy::Utf8, Some(i)) => Value::Str(format!("k{i}")),
        (_, Some(i)) => Value::Int(i),
    }
}

fn mk_rows(kt1: KeyTy, kt2: KeyTy, id0: i64, spec: &[(Option<i64>, Option<i64>, Option<i64>)]) -> Vec<Row> {
    spec.iter().enumerate().map(|(i, (a, b, v))| vec![kv(kt1, *a), kv(kt2, *b), v.map(Value::Int).unwrap_or(Value::Null), Value::Int(id0 + i as i64)]).collect()
}

struct Shape {
    name: &'static str,
    kt1: KeyTy,
    kt2: KeyTy,
    left: Vec<Row>,
    right: Vec<Row>,
}

/// the 8 fixed adversarial shapes of the systematic part
fn shapes() -> Vec<Shape> {
    let s = Some;
    let mut out = vec![];
    let (i, u) = (KeyTy::I32, KeyTy::Utf8);
    out.push(Shape { name: "both-empty", kt1: i, kt2: u, left: vec![], right: vec![] });
    out.push(Shape {
        name: "left-empty",
        kt1: i,
        kt2: u,
        left: vec![],
        right: mk_rows(i, u, 1000, &[(s(1), s(1), s(1)), (None, s(1), s(4)), (s(2), None, None), (s(1), s(1), s(7))]),
    });
    out.push(Shape {
        name: "right-empty",
        kt1: i,
        kt2: u,
        left: mk_rows(i, u, 0, &[(s(1), s(1), s(3)), (None, None, s(0)), (s(2), s(2), None), (s(2), s(2), s(9)), (None, s(1), s(5))]),
        right: vec![],
    });
    out.push(Shape {
        name: "all-null-keys",
        kt1: i,
        kt2: u,
        left: mk_rows(i, u, 0, &[(None, None, s(1)), (None, None, s(2)), (None, None, None), (None, None, s(6))]),
        right: mk_rows(i, u, 1000, &[(None, None, s(3)), (None, None, s(0)), (None, None, s(5))]),
    });
    // one hot key on both sides (6 x 5 matches) + NULLs + a stray key each
    let mut l = vec![];
    let mut r = vec![];
    for k in 0..6 {
        l.push((s(7), s(1), s(k)));
    }
    l.extend([(None, s(1), s(2)), (s(8), s(1), s(4)), (s(7), None, s(9))]);
    for k in 0..5 {
        r.push((s(7), s(1), s(2 * k)));
    }
    r.extend([(None, s(1), s(3)), (s(9), s(1), None), (None, None, s(1))]);
    out.push(Shape { name: "skew-one-hot-key", kt1: i, kt2: u, left: mk_rows(i, u, 0, &l), right: mk_rows(i, u, 1000, &r) });
    // dense unique small ints with partial overlap (array-map territory), Int64 keys
    let l: Vec<_> = (0..12).map(|k| (s(k), s(k % 3), s((k * 5) % 7))).collect();
    let r: Vec<_> = (6..20).rev().map(|k| (s(k), s(k % 3), s((k * 3) % 8))).collect();
    out.push(Shape { name: "dense-unique-overlap", kt1: KeyTy::I64, kt2: KeyTy::I32, left: mk_rows(KeyTy::I64, KeyTy::I32, 0, &l), right: mk_rows(KeyTy::I64, KeyTy::I32, 1000, &r) });
    // Utf8 first key: duplicates, NULLs, disjoint tails
    let l = [(s(1), s(1), s(1)), (s(1), s(2), s(5)), (s(2), s(1), None), (None, s(1), s(3)), (s(3), s(3), s(8)), (s(3), s(3), s(2)), (s(4), None, s(4)), (None, None, s(6)), (s(10), s(1), s(0))];
    let r = [(s(1), s(1), s(2)), (s(1), s(1), s(9)), (s(3), s(3), s(3)), (None, s(1), s(4)), (s(3), None, s(7)), (s(5), s(5), s(5)), (s(2), s(1), s(0)), (None, None, None)];
    out.push(Shape { name: "utf8-dups-nulls", kt1: u, kt2: i, left: mk_rows(u, i, 0, &l), right: mk_rows(u, i, 1000, &r) });
    // 30 x 30 rows, few distinct keys, composite key partly NULL, many batch boundaries inside runs
    let l: Vec<_> = (0..30).map(|k| (if k % 7 == 3 { None } else { s(k % 4) }, if k % 5 == 4 { None } else { s(k % 2) }, if k % 11 == 10 { None } else { s(k % 9) })).collect();
    let r: Vec<_> = (0..30).map(|k| (if k % 6 == 5 { None } else { s((k / 2) % 5) }, if k % 8 == 7 { None } else { s(k % 2) }, if k % 13 == 12 { None } else { s((k * 2) % 10) })).collect();
    out.push(Shape { name: "30x30-composite-partial-nulls", kt1: i, kt2: u, left: mk_rows(i, u, 0, &l), right: mk_rows(i, u, 1000, &r) });
    out
}

/// the operator variants of the systematic cross product
#[derive(Clone, Copy, Debug)]
enum Variant {
    HashCollect(u8),
    HashPart(u8),
    HashNullAware,
    Smj,
    Nlj,
    NljMem,
    ShjPart,
    ShjSingle,
    Cross,
    Pwmj,
}

const VARIANTS: [Variant; 12] = [
    Variant::HashCollect(0),
    Variant::HashCollect(1),
    Variant::HashPart(0),
    Variant::HashPart(1),
    Variant::HashNullAware,
    Variant::Smj,
    Variant::Nlj,
    Variant::NljMem,
    Variant::ShjPart,
    Variant::ShjSingle,
    Variant::Cross,
    Variant::Pwmj,
];

const BATCHES: [usize; 4] = [1, 2, 5, 0];
const BATCH_SIZES: [usize; 4] = [1, 2, 3, 8192];

fn base_case(sh: &Shape, v: Variant, jt: JoinType, neq_null: bool, filter: FilterKind, r: &mut Rng) -> Case {
    let mut c = Case {
        kt1: sh.kt1,
        kt2: sh.kt2,
        left: sh.left.clone(),
        right: sh.right.clone(),
        shape: sh.name.to_string(),
        op: OpKind::Hash,
        jt,
        nkeys: 1 + r.usize(2),
        neq_null,
        filter,
        partitioned: false,
        nparts: 1 + r.usize(3),
        perfect: 2,
        null_aware: false,
        via_repartition: false,
        sort_opts: vec![(r.bool(), r.bool()), (r.bool(), r.bool())],
        mem_limit: None,
        enforce_bs: false,
        shj_sorted: false,
        pw_op: r.usize(4) as u8,
        lparts: 1 + r.usize(3),
        rparts: 1 + r.usize(3),
        lbatch: *r.pick(&BATCHES),
        rbatch: *r.pick(&BATCHES),
        batch_size: *r.pick(&BATCH_SIZES),
        proj: None,
        fetch: None,
        test_source: r.chance(1, 4),
    };
    match v {
        Variant::HashCollect(p) => {
            c.perfect = p;
            if p == 1 {
                c.nkeys = 1;
            }
        }
        Variant::HashPart(p) => {
            c.partitioned = true;
            c.perfect = p;
            c.via_repartition = r.chance(1, 3);
            if p == 1 {
                c.nkeys = 1;
            }
        }
        Variant::HashNullAware => {
            c.null_aware = true;
            c.nkeys = 1;
            c.neq_null = false;
            c.perfect = r.usize(3) as u8;
        }
        Variant::Smj => {
            c.op = OpKind::Smj;
            c.partitioned = r.bool();
        }
        Variant::Nlj => c.op = OpKind::Nlj,
        Variant::NljMem => {
            c.op = OpKind::Nlj;
            c.mem_limit = Some(*r.pick(&[600usize, 1200, 2500, 5000]));
        }
        Variant::ShjPart => {
            c.op = OpKind::Shj;
            c.partitioned = true;
            c.via_repartition = r.chance(1, 3);
            c.enforce_bs = r.bool();
        }
        Variant::ShjSingle => {
            c.op = OpKind::Shj;
            c.enforce_bs = r.bool();
            // pruning needs a filter over the sorted columns of both sides that interval arithmetic can analyse
            c.shj_sorted = c.filter == FilterKind::Lt;
        }
        Variant::Cross => {
            c.op = OpKind::Cross;
            c.filter = FilterKind::None;
        }
        Variant::Pwmj => {
            c.op = OpKind::Pwmj;
            c.filter = FilterKind::None;
        }
    }
    c
}

fn random_shape(r: &mut Rng) -> Shape {
    let tys = [KeyTy::I32, KeyTy::I64, KeyTy::Utf8];
    let (kt1, kt2) = (*r.pick(&tys), *r.pick(&tys));
    let domain = *r.pick(&[1i64, 2, 3, 5, 8, 40]);
    let null_pct = *r.pick(&[0u64, 0, 10, 30, 60]);
    let skew = r.chance(1, 3);
    let side = |r: &mut Rng, id0: i64| -> Vec<Row> {
        let n = match r.usize(8) {
            0 => 0,
            1 => 1,
            2 => 30,
            _ => r.usize(31),
        };
        let spec: Vec<_> = (0..n)
            .map(|_| {
                let key = |r: &mut Rng| {
                    if r.chance(null_pct, 100) {
                        None
                    } else if skew && r.chance(2, 3) {
                        Some(0)
                    } else {
                        Some(r.range(0, domain - 1) - if r.chance(1, 10) { 3 } else { 0 })
                    }
                };
                (key(r), key(r), if r.chance(1, 8) { None } else { Some(r.range(-2, 9)) })
            })
            .collect();
        mk_rows(kt1, kt2, id0, &spec)
    };
    let left = side(r, 0);
    let right = side(r, 1000);
    Shape { name: "random", kt1, kt2, left, right }
}

fn random_case(r: &mut Rng) -> Case {
    let sh = random_shape(r);
    let v = VARIANTS[r.weighted(&[4, 4, 4, 3, 3, 6, 5, 3, 4, 4, 1, 3])];
    let mut jt = *r.pick(&JOIN_TYPES);
    if matches!(v, Variant::HashNullAware) {
        jt = if r.chance(2, 3) { JoinType::LeftAnti } else { JoinType::RightAnti };
    }
    if matches!(v, Variant::Cross) {
        jt = JoinType::Inner;
    }
    let filter = if r.bool() { FilterKind::None } else { *r.pick(&FILTERS) };
    let mut c = base_case(&sh, v, jt, r.bool(), filter, r);
    if matches!(v, Variant::HashNullAware) && jt == JoinType::RightAnti {
        c.filter = FilterKind::None;
    }
    if c.op == OpKind::Smj && r.chance(1, 5) {
        // bounded pool: buffered equal-key runs may have to spill
        c.mem_limit = Some(*r.pick(&[400usize, 1000, 2500, 6000]));
    }
    // projection / fetch variants where the operator offers them
    let width = match jt {
        JoinType::Inner | JoinType::Left | JoinType::Right | JoinType::Full => 2 * W,
        JoinType::LeftMark | JoinType::RightMark => W + 1,
        _ => W,
    };
    if matches!(c.op, OpKind::Hash | OpKind::Nlj | OpKind::Smj) && r.chance(1, 5) {
        // a sub-sequence of distinct output columns in random order (what projection push-down embeds)
        let mut cols: Vec<usize> = (0..width).collect();
        r.shuffle(&mut cols);
        cols.truncate(1 + r.usize(width));
        c.proj = Some(cols);
    }
    if c.op == OpKind::Hash && r.chance(1, 8) {
        c.fetch = Some(1 + r.usize(12));
    }
    c
}

// ------------------------------------------------------------------------------------------

fn run(args: &Args) -> i32 {
    let rep = Report::new("C05", "exploration", args);
    rep.set_rule("case = (two generated inputs of 0-30 rows with NULL / duplicate / skewed keys, join operator + mode, join type, NULL-equality, residual filter, partition/batch layout, batch_size); distinct = hash of the fully materialised case; non-trivial = the operator ran and was compared and at least one input is non-empty");
    rep.assume("the ~60-line nested-loop oracle (3VL filter, semi/anti/mark, x NOT IN for null-aware anti) is the join definition");
    rep.assume("inputs handed to an operator satisfy its documented requirements (sorted for merge joins, co-partitioned for partitioned modes, single build partition for collect-left/nested-loop/cross/piecewise); null-aware hash joins only in CollectLeft mode (the planner's documented precondition)");
    if let Some(p) = &args.replay {
        return replay(p);
    }
    let selftest = args.opt_u64("selftest", 0) == 1;
    let memcheck = args.stage == "memcheck";
    let mx = Matrix::default();
    let shapes = shapes();

    // systematic part: operator variant x join type x NULL-equality x filter presence x 8 shapes
    let mut sys: Vec<Case> = vec![];
    for (si, sh) in shapes.iter().enumerate() {
        for (vi, v) in VARIANTS.iter().enumerate() {
            for (ji, jt) in JOIN_TYPES.iter().enumerate() {
                for neq in [false, true] {
                    for with_filter in [false, true] {
                        if matches!(v, Variant::Cross) && (*jt != JoinType::Inner || neq || with_filter) {
                            continue; // one cross join per shape: it has neither keys nor filter
                        }
                        if matches!(v, Variant::Pwmj) && (neq || with_filter) {
                            continue; // range predicate only: no equality keys, no residual filter
                        }
                        if matches!(v, Variant::HashNullAware) && (neq || !matches!(jt, JoinType::LeftAnti | JoinType::RightAnti | JoinType::Inner)) {
                            continue; // Inner kept as a representative of the rejected combinations
                        }
                        let idx = [si as u64, vi as u64, ji as u64, neq as u64, with_filter as u64];
                        let mut r = Rng::derive(0xC05, &idx);
                        let filter = if with_filter { FILTERS[(si + vi + ji) % FILTERS.len()] } else { FilterKind::None };
                        sys.push(base_case(sh, *v, *jt, neq, filter, &mut r));
                    }
                }
            }
        }
    }
    if memcheck {
        // reduced workload, single-threaded: every 12th systematic case (~300)
        sys = sys.into_iter().step_by(12).collect();
    }
    let workers = if memcheck { 1 } else { args.workers };
    vcommon::par::run(workers, sys.iter(), |c| one_case(&rep, &mx, c, true, selftest));

    if !memcheck {
        // coverage obligations of the systematic part (seed independent)
        let m = mx.0.lock().unwrap();
        for op in [
            "HashJoinExec:CollectLeft", "HashJoinExec:CollectLeft+array_map", "HashJoinExec:Partitioned", "HashJoinExec:Partitioned+array_map",
            "HashJoinExec:CollectLeft+null_aware", "SortMergeJoinExec", "NestedLoopJoinExec", "NestedLoopJoinExec+spill",
            "SymmetricHashJoinExec:Partitioned", "SymmetricHashJoinExec:SinglePartition", "SymmetricHashJoinExec:SinglePartition+sorted", "CrossJoinExec", "PiecewiseMergeJoinExec",
        ] {
            let n: u64 = m.get(op).map(|j| j.values().map(|x| x.values().sum::<u64>()).sum()).unwrap_or(0);
            rep.obligation(&format!("operator-mode:{op}"), n > 0, "every operator mode must be compared at least once in the systematic part");
        }
        for op in ["HashJoinExec:CollectLeft", "HashJoinExec:Partitioned", "SortMergeJoinExec", "NestedLoopJoinExec", "SymmetricHashJoinExec:Partitioned"] {
            let n = m.get(op).map(|j| j.len()).unwrap_or(0);
            rep.obligation(&format!("all-join-types:{op}"), n == 10, "all 10 join types compared for the general-purpose operators");
        }
        drop(m);
        rep.obligation("support-table", rep.get_count("support_table_mismatch") == 0, "an operator rejected a join type the fixed expected-support table lists as supported");
    }

    let n_rand = if memcheck { 0 } else { args.bound("random", 9000, 400_000) };
    vcommon::par::run(workers, 0..n_rand, |i| {
        // sticky stop: too many unexplained violations, or the soft wall-clock budget of the random tail ran out
        if STOP.load(std::sync::atomic::Ordering::Relaxed) {
            return;
        }
        if UNCLASSIFIED.load(std::sync::atomic::Ordering::Relaxed) > 40 || (i % 64 == 0 && !rep.within_budget(args.tier.pick(70.0, 1100.0))) {
            STOP.store(true, std::sync::atomic::Ordering::Relaxed);
            return;
        }
        let mut r = Rng::derive(args.seed, &[5, 1, i]);
        let c = random_case(&mut r);
        one_case(&rep, &mx, &c, false, selftest);
    });
    rep.extra("coverage_matrix", json!(*mx.0.lock().unwrap()));
    rep.finish()
}

fn replay(p: &std::path::Path) -> i32 {
    let Ok(text) = std::fs::read_to_string(p) else {
        println!("cannot read {}", p.display());
        return 2;
    };
    let Ok(j) = serde_json::from_str::<Json>(&text) else { return 2 };
    let cj = j.get("witness").and_then(|w| w.get("case")).or_else(|| j.get("case")).unwrap_or(&j);
    let Some(c) = Case::from_json(cj) else {
        println!("not a C05 witness");
        return 2;
    };
    let expected = oracle(&c);
    println!("case: {}", c.to_json());
    println!("expected ({} rows): {}", expected.len(), rows_to_json(&expected));
    match vcommon::par::guard(|| execute(&c)) {
        Ok(Outcome::Ran(o)) => {
            println!("observed ({} rows, array_map={}, spills={}): {}", o.rows.len(), o.array_map, o.spills, rows_to_json(&o.rows));
            let ok = match c.fetch {
                Some(k) => fetch_ok(&o.rows, &expected, k, o.out_partitions),
                None => multiset_eq(&o.rows, &expected),
            };
            if ok {
                println!("REPLAY: engine agrees with the nested-loop definition");
                0
            } else {
                println!("VIOLATION property=C05 replay={} (replayed: still differs)", p.display());
                1
            }
        }
        Ok(Outcome::Rejected(e)) => {
            println!("rejected at construction: {e}");
            2
        }
        Ok(Outcome::Failed(e)) => {
            println!("engine error: {e}");
            1
        }
        Ok(Outcome::Timeout) => 2,
        Err(p) => {
            println!("engine panic: {p}");
            1
        }
    }
}

fn main() {
    let args = Args::parse();
    vcommon::par::quiet_panics();
    std::process::exit(run(&args));
}
