//! C10 case generation: inputs (partitions of batches of rows with a unique id), scheme,
//! memory budget, drop pattern, schedule parameters.

use arrow::array::{ArrayRef, Float64Array, Int32Array, Int64Array, StringArray};
use arrow::datatypes::{DataType, Field, Schema, SchemaRef};
use arrow::record_batch::RecordBatch;
use std::cmp::Ordering;
use std::sync::Arc;
use vcommon::{json, Json, Rng};

/// One input row. `id` is unique over the whole case.
#[derive(Clone, Debug, PartialEq)]
pub struct RowK {
    pub id: i64,
    pub k1: Option<i64>,
    pub k2: Option<String>,
    pub k3: Option<f64>,
    pub k4: Option<i32>,
    pub s: Option<i64>,
    pub pad: String,
}

/// A key value (for range split points and the independent comparator).
#[derive(Clone, Debug, PartialEq)]
pub enum KV {
    Null,
    I(i64),
    S(String),
    F(f64),
}

impl KV {
    pub fn to_json(&self) -> Json {
        match self {
            KV::Null => Json::Null,
            KV::I(i) => json!(i),
            KV::S(s) => json!(s),
            KV::F(f) => json!(f),
        }
    }
}

/// key columns: 0 = k1 (Int64), 1 = k2 (Utf8), 2 = k3 (Float64), 3 = k4 (Int32)
pub const KEY_NAMES: [&str; 4] = ["k1", "k2", "k3", "k4"];
/// index of key column `k` in the batch schema
pub fn key_col(k: usize) -> usize {
    1 + k
}

impl RowK {
    pub fn key(&self, k: usize) -> KV {
        match k {
            0 => self.k1.map(KV::I).unwrap_or(KV::Null),
            1 => self.k2.clone().map(KV::S).unwrap_or(KV::Null),
            2 => self.k3.map(KV::F).unwrap_or(KV::Null),
            _ => self.k4.map(|x| KV::I(x as i64)).unwrap_or(KV::Null),
        }
    }
    pub fn to_json(&self) -> Json {
        json!([self.id, self.k1, self.k2, self.k3, self.k4, self.s, self.pad.len()])
    }
}

#[derive(Clone, Debug)]
pub struct RangeKey {
    pub col: usize,
    pub desc: bool,
    pub nulls_first: bool,
}

#[derive(Clone, Debug)]
pub enum Scheme {
    Hash(Vec<usize>),
    RoundRobin,
    Range { keys: Vec<RangeKey>, splits: Vec<Vec<KV>> },
}

impl Scheme {
    pub fn label(&self) -> String {
        match self {
            Scheme::Hash(k) => format!("hash{}", k.len()),
            Scheme::RoundRobin => "round-robin".into(),
            Scheme::Range { keys, .. } => format!("range{}", keys.len()),
        }
    }
    pub fn to_json(&self) -> Json {
        match self {
            Scheme::Hash(k) => json!({"hash": k.iter().map(|c| KEY_NAMES[*c]).collect::<Vec<_>>()}),
            Scheme::RoundRobin => json!("round-robin"),
            Scheme::Range { keys, splits } => json!({
                "range_keys": keys.iter().map(|k| json!({"col": KEY_NAMES[k.col], "desc": k.desc, "nulls_first": k.nulls_first})).collect::<Vec<_>>(),
                "split_points": splits.iter().map(|s| s.iter().map(|v| v.to_json()).collect::<Vec<_>>()).collect::<Vec<_>>(),
            }),
        }
    }
}

#[derive(Clone, Debug)]
pub enum PoolCfg {
    Unbounded,
    Greedy(usize),
    Fair(usize),
    /// deny every `every`-th request of the exchange's own (spillable) consumers; 1 = every batch spills
    Scripted { every: u32 },
}

impl PoolCfg {
    pub fn label(&self) -> String {
        match self {
            PoolCfg::Unbounded => "unbounded".into(),
            PoolCfg::Greedy(n) => format!("greedy:{n}"),
            PoolCfg::Fair(n) => format!("fair-spill:{n}"),
            PoolCfg::Scripted { every } => format!("scripted-deny-every:{every}"),
        }
    }
}

#[derive(Clone, Copy, Debug, PartialEq)]
pub enum DropAt {
    ReadAll,
    /// drop the output stream after this many batches (0 = executed, never polled)
    After(usize),
}

#[derive(Clone, Debug)]
pub struct Case {
    pub stage: &'static str,
    pub index: u64,
    pub scheme: Scheme,
    pub n_out: usize,
    /// partitions → batches → rows
    pub inputs: Vec<Vec<Vec<RowK>>>,
    /// Some((desc, nulls_first)): every input partition is sorted on `s` like this, and says so
    pub sorted: Option<(bool, bool)>,
    pub preserve: bool,
    pub batch_size: usize,
    pub pool: PoolCfg,
    pub max_spill_file: Option<usize>,
    pub drops: Vec<DropAt>,
    pub lazy_execute: bool,
    pub sched_seed: u64,
    /// 0 = virtual-time current_thread runtime; otherwise worker threads of a multi-thread runtime
    pub mt_workers: usize,
}

pub fn schema() -> SchemaRef {
    Arc::new(Schema::new(vec![
        Field::new("id", DataType::Int64, false),
        Field::new("k1", DataType::Int64, true),
        Field::new("k2", DataType::Utf8, true),
        Field::new("k3", DataType::Float64, true),
        Field::new("k4", DataType::Int32, true),
        Field::new("s", DataType::Int64, true),
        Field::new("pad", DataType::Utf8, false),
    ]))
}

pub fn to_batch(schema: &SchemaRef, rows: &[RowK]) -> RecordBatch {
    let cols: Vec<ArrayRef> = vec![
        Arc::new(Int64Array::from_iter_values(rows.iter().map(|r| r.id))),
        Arc::new(Int64Array::from_iter(rows.iter().map(|r| r.k1))),
        Arc::new(StringArray::from_iter(rows.iter().map(|r| r.k2.clone()))),
        Arc::new(Float64Array::from_iter(rows.iter().map(|r| r.k3))),
        Arc::new(Int32Array::from_iter(rows.iter().map(|r| r.k4))),
        Arc::new(Int64Array::from_iter(rows.iter().map(|r| r.s))),
        Arc::new(StringArray::from_iter_values(rows.iter().map(|r| r.pad.clone()))),
    ];
    RecordBatch::try_new(schema.clone(), cols).expect("harness batch")
}

/// Independent comparator of one key value under (desc, nulls_first).
pub fn cmp_kv(a: &KV, b: &KV, desc: bool, nulls_first: bool) -> Ordering {
    match (a, b) {
        (KV::Null, KV::Null) => Ordering::Equal,
        (KV::Null, _) => {
            if nulls_first {
                Ordering::Less
            } else {
                Ordering::Greater
            }
        }
        (_, KV::Null) => {
            if nulls_first {
                Ordering::Greater
            } else {
                Ordering::Less
            }
        }
        _ => {
            let o = match (a, b) {
                (KV::I(x), KV::I(y)) => x.cmp(y),
                (KV::S(x), KV::S(y)) => x.as_bytes().cmp(y.as_bytes()),
                (KV::F(x), KV::F(y)) => x.partial_cmp(y).unwrap_or(Ordering::Equal),
                _ => Ordering::Equal,
            };
            if desc {
                o.reverse()
            } else {
                o
            }
        }
    }
}

pub fn cmp_tuple(a: &[KV], b: &[KV], keys: &[RangeKey]) -> Ordering {
    for (i, k) in keys.iter().enumerate() {
        let c = cmp_kv(&a[i], &b[i], k.desc, k.nulls_first);
        if c != Ordering::Equal {
            return c;
        }
    }
    Ordering::Equal
}

fn gen_row(rng: &mut Rng, id: i64, nkeys: i64) -> RowK {
    let null = |rng: &mut Rng| rng.chance(1, 8);
    let words = ["", "a", "b", "ab", "zz", "Z", "é", "key-with-a-longer-text"];
    RowK {
        id,
        k1: if null(rng) { None } else { Some(rng.range(-2, nkeys)) },
        k2: if null(rng) { None } else { Some(words[rng.usize(words.len().min(1 + nkeys as usize))].to_string()) },
        k3: if null(rng) { None } else { Some(rng.range(-4, 2 * nkeys) as f64 * 0.5) },
        k4: if null(rng) { None } else { Some(rng.range(0, nkeys.min(3)) as i32) },
        s: if rng.chance(1, 10) { None } else { Some(rng.range(0, 12)) },
        pad: "x".repeat(rng.usize(24)),
    }
}

pub struct GenOpts {
    pub scheme_kind: Option<usize>,
    pub n_out: Option<usize>,
    pub preserve: Option<bool>,
    pub mt: bool,
    pub small: bool,
}

/// scheme kinds: 0..=2 hash over 1..=3 keys, 3 round-robin, 4 range over 1 key, 5 range over 2 keys
pub const SCHEME_KINDS: usize = 6;

pub fn gen_case(rng: &mut Rng, stage: &'static str, index: u64, o: &GenOpts) -> Case {
    let n_in = 1 + rng.usize(5);
    let nkeys = *rng.pick(&[1i64, 3, 6, 20]);
    let max_batches = if o.small { 6 } else { *rng.pick(&[0usize, 1, 3, 8, 20, 40]) };
    let max_rows = *rng.pick(&[1usize, 2, 5, 17, 64]);
    let preserve = o.preserve.unwrap_or_else(|| rng.chance(1, 3));
    let sorted = if preserve || rng.chance(1, 4) { Some((rng.bool(), rng.bool())) } else { None };
    let mut next_id = 0i64;
    let mut inputs = vec![];
    for _ in 0..n_in {
        let nb = rng.usize(max_batches + 1);
        let sizes: Vec<usize> = (0..nb).map(|_| if rng.chance(1, 9) { 0 } else { 1 + rng.usize(max_rows) }).collect();
        let total: usize = sizes.iter().sum();
        let mut rows: Vec<RowK> = (0..total)
            .map(|_| {
                next_id += 1;
                gen_row(rng, next_id, nkeys)
            })
            .collect();
        if let Some((desc, nf)) = sorted {
            let kv = |r: &RowK| r.s.map(KV::I).unwrap_or(KV::Null);
            rows.sort_by(|a, b| cmp_kv(&kv(a), &kv(b), desc, nf));
        } else {
            rng.shuffle(&mut rows);
        }
        let mut it = rows.into_iter();
        inputs.push(sizes.iter().map(|n| it.by_ref().take(*n).collect::<Vec<_>>()).collect::<Vec<_>>());
    }
    let kind = o.scheme_kind.unwrap_or_else(|| rng.usize(SCHEME_KINDS));
    let mut n_out = o.n_out.unwrap_or_else(|| 1 + rng.usize(8));
    let scheme = match kind {
        0..=2 => {
            let mut cols = vec![0usize, 1, 2, 3];
            rng.shuffle(&mut cols);
            cols.truncate(kind + 1);
            Scheme::Hash(cols)
        }
        3 => Scheme::RoundRobin,
        _ => {
            let nk = kind - 3;
            let mut cols = vec![0usize, 1, 2];
            rng.shuffle(&mut cols);
            cols.truncate(nk);
            let keys: Vec<RangeKey> = cols.into_iter().map(|col| RangeKey { col, desc: rng.bool(), nulls_first: rng.bool() }).collect();
            // candidate split tuples: key tuples of actual rows (so equality at a boundary happens),
            // a few with a NULL component, a few synthetic ones outside the data
            let all: Vec<&RowK> = inputs.iter().flatten().flatten().collect();
            let mut cands: Vec<Vec<KV>> = vec![];
            for _ in 0..(3 * n_out + 4) {
                let mut t: Vec<KV> = if !all.is_empty() && rng.chance(3, 4) {
                    let r = all[rng.usize(all.len())];
                    keys.iter().map(|k| r.key(k.col)).collect()
                } else {
                    keys.iter()
                        .map(|k| match k.col {
                            0 => KV::I(rng.range(-5, 25)),
                            1 => KV::S(["", "m", "zzz", "B"][rng.usize(4)].to_string()),
                            _ => KV::F(rng.range(-9, 41) as f64 * 0.25),
                        })
                        .collect()
                };
                if rng.chance(1, 10) {
                    let i = rng.usize(t.len());
                    t[i] = KV::Null;
                }
                cands.push(t);
            }
            cands.sort_by(|a, b| cmp_tuple(a, b, &keys));
            cands.dedup_by(|a, b| cmp_tuple(a, b, &keys) == Ordering::Equal);
            // keep n_out-1 of them (fewer if there are not enough distinct candidates)
            while cands.len() > n_out - 1 {
                let i = rng.usize(cands.len());
                cands.remove(i);
            }
            n_out = cands.len() + 1;
            Scheme::Range { keys, splits: cands }
        }
    };
    let pool = match rng.usize(10) {
        0..=2 => PoolCfg::Unbounded,
        3 => PoolCfg::Greedy(*rng.pick(&[2_000usize, 10_000, 60_000])),
        4 => PoolCfg::Fair(*rng.pick(&[2_000usize, 10_000, 60_000])),
        5 => PoolCfg::Greedy(1),
        6 => PoolCfg::Fair(1),
        7 => PoolCfg::Scripted { every: 1 },
        _ => PoolCfg::Scripted { every: 2 + rng.below(3) as u32 },
    };
    let max_spill_file = match rng.usize(3) {
        0 => None,
        1 => Some(1),
        _ => Some(4096),
    };
    let mut drops = vec![DropAt::ReadAll; n_out];
    if n_out > 1 && rng.chance(2, 5) {
        let nd = 1 + rng.usize((n_out - 1).min(3));
        for _ in 0..nd {
            let j = rng.usize(n_out);
            drops[j] = DropAt::After(*rng.pick(&[0usize, 0, 1, 2, 5]));
        }
        // at least one output stays read
        if drops.iter().all(|d| *d != DropAt::ReadAll) {
            drops[rng.usize(n_out)] = DropAt::ReadAll;
        }
    }
    Case {
        stage,
        index,
        scheme,
        n_out,
        inputs,
        sorted,
        preserve,
        batch_size: *rng.pick(&[1usize, 2, 5, 8192]),
        pool,
        max_spill_file,
        drops,
        lazy_execute: rng.bool(),
        sched_seed: rng.next_u64(),
        mt_workers: if o.mt { 2 + rng.usize(7) } else { 0 },
    }
}

impl Case {
    pub fn all_rows(&self) -> impl Iterator<Item = &RowK> {
        self.inputs.iter().flatten().flatten()
    }
    pub fn n_rows(&self) -> usize {
        self.all_rows().count()
    }
    pub fn has_drop(&self) -> bool {
        self.drops.iter().any(|d| *d != DropAt::ReadAll)
    }
    pub fn drop_label(&self) -> String {
        let mut v: Vec<String> = self
            .drops
            .iter()
            .filter_map(|d| match d {
                DropAt::ReadAll => None,
                DropAt::After(m) => Some(format!("{}", (*m).min(9))),
            })
            .collect();
        v.sort();
        if v.is_empty() { "none".into() } else { format!("{}of{}@{}", v.len(), self.n_out, v.join(",")) }
    }
    /// Full description (inputs included) so that a witness is usable without the generator.
    pub fn to_json(&self) -> Json {
        json!({
            "stage": self.stage, "index": self.index,
            "scheme": self.scheme.to_json(), "outputs": self.n_out,
            "columns": ["id", "k1", "k2", "k3", "k4", "s", "len(pad)"],
            "inputs": self.inputs.iter().map(|p| p.iter().map(|b| b.iter().map(|r| r.to_json()).collect::<Vec<_>>()).collect::<Vec<_>>()).collect::<Vec<_>>(),
            "inputs_sorted_on_s": self.sorted.map(|(d, nf)| json!({"desc": d, "nulls_first": nf})),
            "with_preserve_order": self.preserve,
            "batch_size": self.batch_size,
            "pool": self.pool.label(),
            "max_spill_file_size_bytes": self.max_spill_file,
            "drops": self.drops.iter().map(|d| match d { DropAt::ReadAll => json!("read-to-EOS"), DropAt::After(m) => json!({"drop_after_batches": m}) }).collect::<Vec<_>>(),
            "lazy_execute": self.lazy_execute,
            "schedule": if self.mt_workers == 0 { json!({"virtual_time_seed": self.sched_seed}) } else { json!({"multi_thread_workers": self.mt_workers, "seed": self.sched_seed}) },
        })
    }
}
