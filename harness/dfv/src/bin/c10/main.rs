//! C10 — repartitioning delivers every row exactly once to the right partition.
//!
//! `RepartitionExec::try_new(ChaosSourceExec, Hash | RoundRobinBatch | Range)` (optionally
//! `with_preserve_order()` over sorted inputs) is executed with 1..8 outputs over 1..5 input
//! partitions of 0..40 batches, under memory pools from "fits" to "every batch spills", with
//! early-drop patterns, on (a) a current_thread runtime with a paused clock (virtual-time
//! quiescence detector: the 1 h virtual timeout firing proves the execution is stuck) and (b) a
//! multi-thread runtime with randomized consumer pacing (wall-clock guard ⇒ inconclusive only).
//!
//! `--opt only=<stage>:<index>` re-runs a single case verbosely; `--opt selftest=1|2|3` corrupts
//! the observed outputs (lose / duplicate / move a row) before the oracle and must exit 1.

mod exec;
mod cgen;
mod oracle;

use exec::*;
use cgen::*;
use datafusion::physical_plan::ExecutionPlan;
use std::collections::BTreeSet;
use vcommon::{fp_mix, fp_str, json, Args, Report, Rng};

static SCHEDULES: std::sync::LazyLock<std::sync::Mutex<std::collections::HashSet<u64>>> = std::sync::LazyLock::new(Default::default);

fn corrupt(outs: &mut [OutRes], mode: u64) {
    // pick the first complete output with a non-empty batch
    let Some(j) = outs.iter().position(|o| o.complete && o.batches.iter().any(|b| !b.is_empty())) else { return };
    let bi = outs[j].batches.iter().position(|b| !b.is_empty()).unwrap();
    match mode {
        1 => {
            outs[j].batches[bi].pop();
        }
        2 => {
            let r = outs[j].batches[bi][0].clone();
            outs[j].batches[bi].push(r);
        }
        _ => {
            let r = outs[j].batches[bi].pop().unwrap();
            let k = (j + 1) % outs.len();
            outs[k].batches.push(vec![r]);
        }
    }
}

fn one_case(rep: &Report, case: &Case, selftest: u64, verbose: bool) {
    let cfp = fp_str(&case.to_json().to_string());
    let built = match build(case) {
        Ok(b) => b,
        Err(BuildErr::SplitsRejected(e)) => {
            rep.case(cfp, true);
            rep.violation("range-split-order-disagrees", json!({"case": case.to_json(), "engine_error": e, "note": "split points are strictly ordered under the harness comparator (ASC/DESC + NULL placement as documented) but RangePartitioning::try_new rejects them"}));
            return;
        }
        Err(BuildErr::Other(e)) => {
            rep.case(cfp, false);
            rep.skip(&format!("build-error: {}", e.chars().take(60).collect::<String>()));
            return;
        }
    };
    let routing = match oracle::expected_routing(case, &built) {
        Ok(r) => r,
        Err(e) => {
            rep.case(cfp, false);
            rep.skip(&format!("oracle-error: {}", e.chars().take(60).collect::<String>()));
            return;
        }
    };
    // the range-partition expression must agree with the split-point definition
    if let (Some(re), Some(route)) = (&built.range_expr, &routing) {
        for (p, part) in built.batches.iter().enumerate() {
            for (bi, b) in part.iter().enumerate() {
                match range_expr_ids(re, b) {
                    Ok(ids) => {
                        for (r, row) in case.inputs[p][bi].iter().enumerate() {
                            rep.count("range_expr_rows_checked", 1);
                            if ids[r] as usize != route[&row.id] {
                                rep.violation("range-expr-disagrees-with-split-points", json!({"case": case.to_json(), "row": row.to_json(), "range_expr": ids[r], "by_definition": route[&row.id]}));
                            }
                        }
                    }
                    Err(e) => rep.skip(&format!("range-expr-error: {}", e.chars().take(60).collect::<String>())),
                }
            }
        }
    }
    let effective_preserve = built.plan.preserve_order();
    let outcome = vcommon::par::guard(|| run(case, &built));
    let mut out = match outcome {
        Err(panic) => {
            rep.case(cfp, true);
            rep.violation("harness-or-engine-panic", json!({"case": case.to_json(), "panic": panic}));
            return;
        }
        Ok(Outcome::Stuck) => {
            rep.case(cfp, true);
            rep.violation("stuck", json!({"case": case.to_json(), "note": "virtual-time quiescence: no task runnable and no timer due before the 1 h virtual timeout", "source_streams_finished": built.probe.finished.load(std::sync::atomic::Ordering::SeqCst), "source_batches_emitted": built.probe.emitted.load(std::sync::atomic::Ordering::SeqCst)}));
            return;
        }
        Ok(Outcome::StuckMt(what)) => {
            rep.case(cfp, true);
            rep.count("stuck_multi_thread", 1);
            rep.violation("stuck/multi-thread-quiescent", json!({"case": case.to_json(), "observed": what,
                "note": "the execution cannot make progress any more: no thread of the runtime is runnable, no timer longer than 200 us exists besides the 90 s guard, there is no external event source. Not reproducible on the single-threaded virtual-time schedule; the multi-thread schedule is nondeterministic, so a replay may need several attempts",
                "replay": format!("c10 C10 --seed <seed of this run> --opt only={}:{}", case.stage, case.index)}));
            return;
        }
        Ok(Outcome::WallClock) => {
            rep.case(cfp, false);
            rep.inconclusive(&format!("multi-thread execution {}:{} exceeded the wall-clock guard without being quiescent", case.stage, case.index));
            return;
        }
        Ok(Outcome::Done(o)) => o,
    };
    if selftest > 0 {
        corrupt(&mut out.outs, selftest);
    }
    // errors: a refused reservation is the engine declining (skip); anything else is reported
    if out.outs.iter().any(|o| o.resources_exhausted) {
        rep.case(cfp, false);
        rep.skip("resources-exhausted");
        rep.count(&format!("resources_exhausted/{}", case.pool.label().split(':').next().unwrap_or("")), 1);
        return;
    }
    if let Some((j, e)) = out.outs.iter().enumerate().find_map(|(j, o)| o.error.as_ref().map(|e| (j, e.clone()))) {
        rep.case(cfp, true);
        let kind = if e.contains("Internal error") { "internal" } else if e.contains("panic") { "panic" } else if e.contains("IO error") || e.contains("No space") { "io" } else { "other" };
        if kind == "io" {
            rep.inconclusive(&format!("I/O error in a spill path: {}", e.chars().take(120).collect::<String>()));
        } else {
            rep.violation(&format!("stream-error/{kind}"), json!({"case": case.to_json(), "output": j, "error": e}));
        }
        return;
    }
    let findings = oracle::check(case, &built, &out.outs, &routing);
    let delivered: usize = out.outs.iter().map(|o| o.batches.iter().map(|b| b.len()).sum::<usize>()).sum();
    let nontrivial = delivered > 0;
    // schedule fingerprint: the global arrival order of batches at the outputs
    let mut sfp = 0xC10u64;
    for (j, n) in &out.log {
        sfp = fp_mix(sfp, (*j as u64) << 32 | *n as u64);
    }
    rep.case(fp_mix(cfp, sfp), nontrivial);
    if nontrivial {
        rep.seen("schedule_fingerprints", &format!("{sfp:016x}"));
        SCHEDULES.lock().unwrap().insert(sfp);
        rep.count("schedules_observed", 1);
    }
    let sched = if case.mt_workers == 0 { "vtq" } else { "mt" };
    rep.count(&format!("executions/{sched}"), 1);
    rep.seen("scheme_x_outputs", &format!("{}x{}", case.scheme.label(), case.n_out));
    rep.count(&format!("scheme/{}", case.scheme.label()), 1);
    rep.count(&format!("inputs/{}", case.inputs.len()), 1);
    rep.count(&format!("batch_size/{}", case.batch_size), 1);
    rep.count(&format!("pool/{}", case.pool.label().split(':').next().unwrap_or("")), 1);
    rep.count("rows_delivered", delivered as u64);
    if effective_preserve {
        rep.count("preserve_order_effective", 1);
    }
    if case.sorted.is_some() && built.plan.properties().output_ordering().is_some() {
        rep.count("sortedness_checked", 1);
    }
    if out.spilled_rows > 0 || built.scripted.as_ref().map(|p| p.denied.load(std::sync::atomic::Ordering::Relaxed) > 0).unwrap_or(false) {
        rep.count("cases_with_spill", 1);
        rep.count("spilled_rows", out.spilled_rows as u64);
        rep.count("spill_files", out.spill_files as u64);
        if let Some(p) = &built.scripted {
            rep.count("spilled_batches(scripted-pool denials)", p.denied.load(std::sync::atomic::Ordering::Relaxed));
        }
        if case.max_spill_file == Some(1) && out.spill_files > 1 {
            rep.count("cases_with_spill_file_rotation", 1);
        }
        if effective_preserve {
            rep.count("cases_with_spill+preserve_order", 1);
        }
    }
    if case.has_drop() {
        rep.seen("early_drop_patterns", &case.drop_label());
        rep.count("cases_with_early_drop", 1);
        if out.outs.iter().zip(case.drops.iter()).any(|(o, d)| *d != DropAt::ReadAll && !o.complete) {
            rep.count("cases_with_output_dropped_before_EOS", 1);
        }
    }
    if routing.is_some() {
        rep.count("rows_routing_checked", delivered as u64);
    }
    if verbose {
        println!("case: {}", case.to_json());
        for (j, o) in out.outs.iter().enumerate() {
            println!("output {j}: complete={} batches={:?}", o.complete, o.batches.iter().map(|b| b.iter().map(|r| r.id).collect::<Vec<_>>()).collect::<Vec<_>>());
        }
        println!("spilled_rows={} spill_files={} plan preserve_order={}", out.spilled_rows, out.spill_files, effective_preserve);
    }
    let mut sigs = BTreeSet::new();
    for f in findings {
        // one witness per signature and case
        if !sigs.insert(f.signature.clone()) {
            continue;
        }
        let observed: Vec<_> = out.outs.iter().map(|o| json!({"read_to_EOS": o.complete, "batches": o.batches.iter().map(|b| b.iter().map(|r| r.id).collect::<Vec<_>>()).collect::<Vec<_>>()})).collect();
        rep.violation(&f.signature, json!({"case": case.to_json(), "finding": f.detail, "observed_ids_per_output": observed, "spilled_rows": out.spilled_rows, "replay": format!("c10 C10 --opt only={}:{}", case.stage, case.index)}));
    }
    if rep.want_sample() && nontrivial && out.spilled_rows > 0 {
        rep.sample(json!({"scheme": case.scheme.to_json(), "outputs": case.n_out, "inputs": case.inputs.iter().map(|p| p.len()).collect::<Vec<_>>(), "rows": case.n_rows(), "pool": case.pool.label(), "drops": case.drop_label(), "schedule": sched, "spilled_rows": out.spilled_rows, "arrival_order_prefix": out.log.iter().take(12).collect::<Vec<_>>()}));
    }
}

fn make_case(seed: u64, stage: &'static str, i: u64, tsan: bool) -> Case {
    match stage {
        // systematic: scheme kind × outputs 1..8 × preserve (seed independent)
        "matrix" => {
            let kind = (i % SCHEME_KINDS as u64) as usize;
            let n_out = 1 + ((i / SCHEME_KINDS as u64) % 8) as usize;
            let preserve = (i / (SCHEME_KINDS as u64 * 8)) % 2 == 1;
            let mut rng = Rng::derive(0xC10, &[0, i]);
            gen_case(&mut rng, "matrix", i, &GenOpts { scheme_kind: Some(kind), n_out: Some(n_out), preserve: Some(preserve), mt: false, small: false })
        }
        "vtq" => {
            let mut rng = Rng::derive(seed, &[1, i]);
            gen_case(&mut rng, "vtq", i, &GenOpts { scheme_kind: None, n_out: None, preserve: None, mt: false, small: false })
        }
        "mtfocus" => {
            // many inputs, few outputs, every batch spilled through the shared (multi-producer) spill pool
            let mut rng = Rng::derive(seed, &[3, i]);
            let mut c = gen_case(&mut rng, "mtfocus", i, &GenOpts { scheme_kind: Some((i % 4) as usize), n_out: Some(1 + (i % 2) as usize), preserve: Some(false), mt: true, small: false });
            c.pool = PoolCfg::Scripted { every: 1 };
            c.max_spill_file = None;
            c.drops = vec![DropAt::ReadAll; c.n_out];
            c
        }
        _ => {
            let mut rng = Rng::derive(seed, &[2, i]);
            gen_case(&mut rng, "mt", i, &GenOpts { scheme_kind: None, n_out: None, preserve: None, mt: true, small: tsan })
        }
    }
}

fn run_check(args: &Args) -> i32 {
    let rep = Report::new("C10", "exploration", args);
    rep.set_rule("case = (input partitions of batches with unique ids, scheme hash/round-robin/range, outputs 1..8, preserve_order, batch size, memory pool, spill file size, early-drop pattern, schedule seed) executed through RepartitionExec over ChaosSourceExec; distinct = hash(case description) mixed with the observed arrival order of batches at the outputs (schedule fingerprint); non-trivial = at least one row was delivered");
    rep.assume("datafusion_common::hash_utils::create_hashes + REPARTITION_RANDOM_STATE is the documented row hash; the oracle only adds `% n` (computed with the % operator) and, independently, checks that equal keys share an output");
    rep.assume("the harness comparator for range keys (ASC/DESC, NULLS FIRST/LAST, bytewise strings, numeric order) is the documented ordering of RangePartitioning; split points: values equal to split point i belong to partition i+1");
    rep.assume("a ResourcesExhausted error is the engine declining the memory budget, not a delivery failure (skip)");
    let selftest = args.opt_u64("selftest", 0);
    let tsan = args.stage == "tsan";
    if let Some(only) = args.opt_str("only") {
        let (stage, idx) = only.split_once(':').unwrap_or(("vtq", only));
        let stage: &'static str = match stage {
            "matrix" => "matrix",
            "mt" => "mt",
            "mtfocus" => "mtfocus",
            _ => "vtq",
        };
        let case = make_case(args.seed, stage, idx.parse().unwrap_or(0), tsan);
        one_case(&rep, &case, selftest, true);
        return rep.finish();
    }
    let reduce = if args.stage.is_empty() { 1 } else { 10 };
    let n_matrix = if tsan { 0 } else { (SCHEME_KINDS * 8 * 2) as u64 };
    let n_vtq = if tsan { 0 } else { args.bound("vtq", 700, 40_000) / reduce };
    let n_mt = if tsan { args.bound("mt", 60, 200) } else { args.bound("mt", 260, 3_000) / reduce };
    let mut stage_wall = vcommon::serde_json::Map::new();
    let mut t0 = rep.elapsed_s();
    let mut lap = |name: &str, rep: &Report| {
        let now = rep.elapsed_s();
        stage_wall.insert(name.to_string(), json!(((now - t0) * 10.0).round() / 10.0));
        t0 = now;
    };
    vcommon::par::run(args.workers, 0..n_matrix, |i| one_case(&rep, &make_case(args.seed, "matrix", i, tsan), selftest, false));
    lap("matrix", &rep);
    if !tsan {
        for kind in ["hash1", "hash2", "hash3", "round-robin"] {
            for n in 1..=8 {
                rep.obligation(&format!("matrix:{kind}x{n}"), rep.has_seen("scheme_x_outputs", &format!("{kind}x{n}")), "scheme × outputs cell executed in the systematic part");
            }
        }
        for kind in ["range1", "range2"] {
            let cells = (1..=8).filter(|n| rep.has_seen("scheme_x_outputs", &format!("{kind}x{n}"))).count();
            rep.obligation(&format!("matrix:{kind}"), cells >= 5, "range schemes executed with at least 5 different output counts (the count follows the distinct split points)");
        }
    }
    vcommon::par::run(args.workers, 0..n_vtq, |i| {
        if rep.violation_count() < 60 + rep.get_count("stuck_multi_thread") {
            one_case(&rep, &make_case(args.seed, "vtq", i, tsan), selftest, false)
        }
    });
    lap("vtq", &rep);
    // multi-thread executions use several workers each: run fewer of them side by side
    let mt_par = (args.workers / 4).max(1);
    vcommon::par::run(mt_par, 0..n_mt, |i| {
        if rep.violation_count() < 60 + rep.get_count("stuck_multi_thread") {
            one_case(&rep, &make_case(args.seed, "mt", i, tsan), selftest, false)
        }
    });
    lap("mt", &rep);
    let n_focus = if tsan { 10 } else { args.bound("mtfocus", 40, 400) / reduce };
    vcommon::par::run(mt_par, 0..n_focus, |i| {
        if rep.violation_count() < 60 + rep.get_count("stuck_multi_thread") {
            one_case(&rep, &make_case(args.seed, "mtfocus", i, tsan), selftest, false)
        }
    });
    lap("mtfocus", &rep);
    rep.extra("stage_wall_s", vcommon::Json::Object(stage_wall));
    if !tsan {
        rep.obligation("spill-exercised", rep.get_count("cases_with_spill") >= 20, "batches were spilled and read back in at least 20 executions");
        rep.obligation("spill-with-preserve-order", rep.get_count("cases_with_spill+preserve_order") >= 3, "spilling under an effective preserve_order");
        rep.obligation("early-drop-exercised", rep.get_count("cases_with_output_dropped_before_EOS") >= 20, "an output was really dropped before its end-of-stream in at least 20 executions");
        rep.obligation("preserve-order-effective", rep.get_count("preserve_order_effective") >= 20, "with_preserve_order() took effect (sorted input, > 1 input partition)");
        rep.obligation("distinct-schedules", rep.seen_count("schedule_fingerprints") >= 50, "at least 50 distinct arrival orders observed");
        rep.obligation("multi-thread-schedule", rep.get_count("executions/mt") >= 20, "multi-thread schedule executed");
    } else {
        rep.obligation("multi-thread-schedule", rep.get_count("executions/mt") >= 10, "multi-thread schedule executed under the sanitizer");
    }
    rep.extra("distinct_schedule_fingerprints", json!(SCHEDULES.lock().unwrap().len()));
    rep.finish()
}

fn main() {
    let args = Args::parse();
    vcommon::par::quiet_panics();
    std::process::exit(run_check(&args));
}
