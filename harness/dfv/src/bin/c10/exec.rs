//! C10 execution: build `RepartitionExec` over a `ChaosSourceExec`, run the consumers under a
//! virtual-time (VTQ) or a multi-thread schedule, collect what every output delivered.

use crate::cgen::*;
use arrow::array::{Array, Float64Array, Int32Array, Int64Array, StringArray, UInt64Array};
use arrow::compute::SortOptions;
use arrow::record_batch::RecordBatch;
use datafusion::common::ScalarValue;
use datafusion::error::{DataFusionError, Result};
use datafusion::execution::memory_pool::{FairSpillPool, GreedyMemoryPool, MemoryPool, MemoryReservation, UnboundedMemoryPool};
use datafusion::execution::runtime_env::RuntimeEnvBuilder;
use datafusion::execution::TaskContext;
use datafusion::physical_expr::expressions::Column;
use datafusion::physical_expr::{LexOrdering, Partitioning, PhysicalExpr, PhysicalSortExpr, RangePartitioning, SplitPoint};
use datafusion::physical_plan::repartition::{RangeExpr, RepartitionExec};
use datafusion::physical_plan::ExecutionPlan;
use datafusion::prelude::{SessionConfig, SessionContext};
use dfv::chaos::{ChaosProbe, ChaosScript, ChaosSourceExec};
use futures::StreamExt;
use std::sync::atomic::{AtomicU64, Ordering};
use std::sync::{Arc, Mutex};
use std::time::Duration;
use vcommon::Rng;

/// A pool that refuses every `every`-th request of the exchange's spillable consumers
/// (`RepartitionExec[j]`) and grants everything else — "every batch spills" without starving the
/// order-preserving merge, whose reservation cannot spill.
#[derive(Debug)]
pub struct ScriptedPool {
    every: u32,
    seen: AtomicU64,
    pub denied: AtomicU64,
    used: AtomicU64,
}

impl ScriptedPool {
    pub fn new(every: u32) -> Self {
        ScriptedPool { every: every.max(1), seen: AtomicU64::new(0), denied: AtomicU64::new(0), used: AtomicU64::new(0) }
    }
}

impl std::fmt::Display for ScriptedPool {
    fn fmt(&self, f: &mut std::fmt::Formatter<'_>) -> std::fmt::Result {
        write!(f, "ScriptedPool(every={})", self.every)
    }
}

impl MemoryPool for ScriptedPool {
    fn name(&self) -> &str {
        "ScriptedPool"
    }
    fn grow(&self, _r: &MemoryReservation, additional: usize) {
        self.used.fetch_add(additional as u64, Ordering::Relaxed);
    }
    fn shrink(&self, _r: &MemoryReservation, shrink: usize) {
        self.used.fetch_sub(shrink as u64, Ordering::Relaxed);
    }
    fn try_grow(&self, r: &MemoryReservation, additional: usize) -> Result<()> {
        let name = r.consumer().name();
        if r.consumer().can_spill() && name.starts_with("RepartitionExec[") && !name.contains("Merge") {
            let k = self.seen.fetch_add(1, Ordering::Relaxed) + 1;
            if k % self.every as u64 == 0 {
                self.denied.fetch_add(1, Ordering::Relaxed);
                return Err(DataFusionError::ResourcesExhausted(format!("ScriptedPool denies request {k} of {name}")));
            }
        }
        self.used.fetch_add(additional as u64, Ordering::Relaxed);
        Ok(())
    }
    fn reserved(&self) -> usize {
        self.used.load(Ordering::Relaxed) as usize
    }
}

/// What one output delivered.
#[derive(Debug, Default, Clone)]
pub struct OutRes {
    /// rows in arrival order, grouped by delivered batch
    pub batches: Vec<Vec<RowK>>,
    /// read to end-of-stream
    pub complete: bool,
    pub error: Option<String>,
    pub resources_exhausted: bool,
}

pub struct Built {
    pub plan: Arc<RepartitionExec>,
    pub ctx: Arc<TaskContext>,
    pub probe: Arc<ChaosProbe>,
    pub scripted: Option<Arc<ScriptedPool>>,
    /// the input batches as served (partition → batch)
    pub batches: Vec<Vec<RecordBatch>>,
    pub range_expr: Option<RangeExpr>,
}

fn scalar(v: &KV, col: usize) -> ScalarValue {
    match (v, col) {
        (KV::Null, 0) => ScalarValue::Int64(None),
        (KV::Null, 1) => ScalarValue::Utf8(None),
        (KV::Null, _) => ScalarValue::Float64(None),
        (KV::I(i), _) => ScalarValue::Int64(Some(*i)),
        (KV::S(s), _) => ScalarValue::Utf8(Some(s.clone())),
        (KV::F(f), _) => ScalarValue::Float64(Some(*f)),
    }
}

pub enum BuildErr {
    /// RangePartitioning::try_new rejected split points that are strictly ordered for the harness comparator
    SplitsRejected(String),
    Other(String),
}

pub fn build(case: &Case) -> std::result::Result<Built, BuildErr> {
    let schema = schema();
    let batches: Vec<Vec<RecordBatch>> = case.inputs.iter().map(|p| p.iter().map(|b| to_batch(&schema, b)).collect()).collect();
    let probe = ChaosProbe::new();
    let script = if case.mt_workers == 0 { ChaosScript::virtual_ms(case.sched_seed) } else { ChaosScript::real_us(case.sched_seed) };
    let mut src = ChaosSourceExec::new(schema.clone(), batches.clone(), script, probe.clone());
    if let Some((desc, nulls_first)) = case.sorted {
        let s_idx = schema.index_of("s").unwrap();
        let ord = LexOrdering::new([PhysicalSortExpr::new(Arc::new(Column::new("s", s_idx)), SortOptions { descending: desc, nulls_first })]).unwrap();
        src = src.with_ordering(ord);
    }
    let col = |k: usize| -> Arc<dyn PhysicalExpr> { Arc::new(Column::new(KEY_NAMES[k], key_col(k))) };
    let mut range_expr = None;
    let partitioning = match &case.scheme {
        Scheme::Hash(keys) => Partitioning::Hash(keys.iter().map(|k| col(*k)).collect(), case.n_out),
        Scheme::RoundRobin => Partitioning::RoundRobinBatch(case.n_out),
        Scheme::Range { keys, splits } => {
            let ord = LexOrdering::new(keys.iter().map(|k| PhysicalSortExpr::new(col(k.col), SortOptions { descending: k.desc, nulls_first: k.nulls_first })))
                .ok_or_else(|| BuildErr::Other("empty range ordering".into()))?;
            if ord.len() != keys.len() {
                return Err(BuildErr::Other("range ordering collapsed".into()));
            }
            let sp: Vec<SplitPoint> = splits.iter().map(|t| SplitPoint::new(t.iter().zip(keys.iter()).map(|(v, k)| scalar(v, k.col)).collect())).collect();
            let rp = RangePartitioning::try_new(ord, sp).map_err(|e| BuildErr::SplitsRejected(e.to_string()))?;
            range_expr = Some(RangeExpr::try_new(keys.iter().map(|k| col(k.col)).collect(), &rp).map_err(|e| BuildErr::Other(e.to_string()))?);
            Partitioning::Range(rp)
        }
    };
    let mut exec = RepartitionExec::try_new(Arc::new(src), partitioning).map_err(|e| BuildErr::Other(e.to_string()))?;
    if case.preserve {
        exec = exec.with_preserve_order();
    }
    let mut cfg = SessionConfig::new().with_batch_size(case.batch_size);
    if let Some(n) = case.max_spill_file {
        cfg.options_mut().set("datafusion.execution.max_spill_file_size_bytes", &n.to_string()).map_err(|e| BuildErr::Other(e.to_string()))?;
    }
    let mut scripted = None;
    let pool: Arc<dyn MemoryPool> = match &case.pool {
        PoolCfg::Unbounded => Arc::new(UnboundedMemoryPool::default()),
        PoolCfg::Greedy(n) => Arc::new(GreedyMemoryPool::new(*n)),
        PoolCfg::Fair(n) => Arc::new(FairSpillPool::new(*n)),
        PoolCfg::Scripted { every } => {
            let p = Arc::new(ScriptedPool::new(*every));
            scripted = Some(p.clone());
            p
        }
    };
    let rt = RuntimeEnvBuilder::new().with_memory_pool(pool).build_arc().map_err(|e| BuildErr::Other(e.to_string()))?;
    let ctx = SessionContext::new_with_config_rt(cfg, rt).task_ctx();
    Ok(Built { plan: Arc::new(exec), ctx, probe, scripted, batches, range_expr })
}

pub fn batch_rows(b: &RecordBatch) -> Vec<RowK> {
    let i64c = |i: usize| b.column(i).as_any().downcast_ref::<Int64Array>().expect("int64 column").clone();
    let id = i64c(0);
    let k1 = i64c(1);
    let k2 = b.column(2).as_any().downcast_ref::<StringArray>().expect("utf8").clone();
    let k3 = b.column(3).as_any().downcast_ref::<Float64Array>().expect("f64").clone();
    let k4 = b.column(4).as_any().downcast_ref::<Int32Array>().expect("i32").clone();
    let s = i64c(5);
    let pad = b.column(6).as_any().downcast_ref::<StringArray>().expect("utf8").clone();
    (0..b.num_rows())
        .map(|r| RowK {
            id: id.value(r),
            k1: k1.is_valid(r).then(|| k1.value(r)),
            k2: k2.is_valid(r).then(|| k2.value(r).to_string()),
            k3: k3.is_valid(r).then(|| k3.value(r)),
            k4: k4.is_valid(r).then(|| k4.value(r)),
            s: s.is_valid(r).then(|| s.value(r)),
            pad: pad.value(r).to_string(),
        })
        .collect()
}

/// Partition ids the engine's `RangeExpr` assigns to the rows of `b`.
pub fn range_expr_ids(e: &RangeExpr, b: &RecordBatch) -> std::result::Result<Vec<u64>, String> {
    let v = e.evaluate(b).map_err(|x| x.to_string())?;
    let a = v.into_array(b.num_rows()).map_err(|x| x.to_string())?;
    let a = a.as_any().downcast_ref::<UInt64Array>().ok_or("RangeExpr did not return UInt64")?.clone();
    Ok((0..a.len()).map(|i| a.value(i)).collect())
}

pub struct RunOut {
    pub outs: Vec<OutRes>,
    /// arrival log: (output, rows in the delivered batch)
    pub log: Vec<(u8, u32)>,
    pub spilled_rows: usize,
    pub spill_files: usize,
}

async fn pause(rng: &mut Rng, virtual_time: bool) {
    match rng.usize(if virtual_time { 5 } else { 8 }) {
        0 => tokio::task::yield_now().await,
        1 => {
            let d = if virtual_time { Duration::from_millis(1 + rng.below(60)) } else { Duration::from_micros(1 + rng.below(200)) };
            tokio::time::sleep(d).await
        }
        2 if !virtual_time => {
            // burn a little CPU without yielding
            let n = rng.below(3000);
            let mut x = 0u64;
            for i in 0..n {
                x = x.wrapping_mul(31).wrapping_add(i);
            }
            std::hint::black_box(x);
        }
        _ => {}
    }
}

/// Run all consumers of the case to completion (or to their drop point).
pub async fn drive(case: &Case, built: &Built) -> RunOut {
    let virtual_time = case.mt_workers == 0;
    let log: Arc<Mutex<Vec<(u8, u32)>>> = Arc::new(Mutex::new(vec![]));
    let mut handles = vec![];
    // eager mode: all partitions are executed before any is polled
    let mut eager: Vec<Option<Result<datafusion::execution::SendableRecordBatchStream>>> = vec![];
    for j in 0..case.n_out {
        eager.push(if case.lazy_execute { None } else { Some(built.plan.execute(j, built.ctx.clone())) });
    }
    for (j, pre) in eager.into_iter().enumerate() {
        let plan = built.plan.clone();
        let ctx = built.ctx.clone();
        let log = log.clone();
        let drop_at = case.drops[j];
        let mut rng = Rng::derive(case.sched_seed, &[0xC0, j as u64]);
        handles.push(tokio::spawn(async move {
            let mut res = OutRes::default();
            pause(&mut rng, virtual_time).await;
            let stream = match pre {
                Some(s) => s,
                None => plan.execute(j, ctx),
            };
            let mut stream = match stream {
                Ok(s) => s,
                Err(e) => {
                    res.resources_exhausted = matches!(e.find_root(), DataFusionError::ResourcesExhausted(_));
                    res.error = Some(format!("execute: {e}"));
                    return res;
                }
            };
            loop {
                if let DropAt::After(m) = drop_at {
                    if res.batches.len() >= m {
                        break;
                    }
                }
                pause(&mut rng, virtual_time).await;
                match stream.next().await {
                    Some(Ok(b)) => {
                        log.lock().unwrap().push((j as u8, b.num_rows() as u32));
                        res.batches.push(batch_rows(&b));
                    }
                    Some(Err(e)) => {
                        res.resources_exhausted = matches!(e.find_root(), DataFusionError::ResourcesExhausted(_));
                        res.error = Some(e.to_string().chars().take(400).collect());
                        break;
                    }
                    None => {
                        res.complete = true;
                        break;
                    }
                }
            }
            drop(stream);
            res
        }));
    }
    let mut outs = vec![];
    for h in handles {
        match h.await {
            Ok(r) => outs.push(r),
            Err(e) => outs.push(OutRes { error: Some(format!("consumer task failed: {e}")), ..Default::default() }),
        }
    }
    let m = built.plan.metrics();
    let spilled_rows = m.as_ref().and_then(|m| m.spilled_rows()).unwrap_or(0);
    let spill_files = m.as_ref().and_then(|m| m.spill_count()).unwrap_or(0);
    let log = log.lock().unwrap().clone();
    RunOut { outs, log, spilled_rows, spill_files }
}

pub enum Outcome {
    Done(RunOut),
    /// virtual-time quiescence: nothing runnable and no timer before the 1 h virtual timeout
    Stuck,
    /// multi-thread quiescence: every thread of the runtime asleep and never scheduled during the
    /// observation window, no source poll either (description of what was observed)
    StuckMt(String),
    /// wall-clock guard of the multi-thread schedule
    WallClock,
}

pub const VTQ_TIMEOUT: Duration = Duration::from_secs(3600);
pub const MT_WALL: Duration = Duration::from_secs(90);
/// the runtime must stay quiescent for this many consecutive samples (0.5 s apart)
const MT_QUIET_SAMPLES: usize = 8;

fn tid() -> i32 {
    unsafe { libc::syscall(libc::SYS_gettid) as i32 }
}

/// (state, run_time_ns + number of timeslices) of one thread of this process
fn thread_sample(tid: i32) -> Option<(char, u64)> {
    let stat = std::fs::read_to_string(format!("/proc/self/task/{tid}/stat")).ok()?;
    let state = stat[stat.rfind(')')? + 2..].chars().next()?;
    let ss = std::fs::read_to_string(format!("/proc/self/task/{tid}/schedstat")).ok()?;
    let f: Vec<u64> = ss.split_whitespace().filter_map(|x| x.parse().ok()).collect();
    Some((state, f.first().copied()? + f.get(2).copied()?))
}

/// Quiescence detector for the multi-thread runtime. The runtime has no external event source:
/// its only timers are the microsecond sleeps of sources / consumers and the wall-clock guard,
/// and file I/O runs on its own blocking threads. If *every* thread of the runtime (workers,
/// blocking threads, the thread inside `block_on`) is asleep (state S; a thread that is runnable
/// but not scheduled because the machine is loaded is in state R) and none of them was scheduled at all
/// during the whole window, nothing can wake the execution any more: it is logically stuck,
/// independently of machine load.
fn watch_quiescence(tids: Arc<Mutex<Vec<i32>>>, probe: Arc<ChaosProbe>, done: Arc<std::sync::atomic::AtomicBool>, notify: Arc<tokio::sync::Notify>, verdict: Arc<Mutex<Option<String>>>) {
    let mut last: Option<(Vec<(i32, u64)>, u64)> = None;
    let mut quiet = 0usize;
    while !done.load(Ordering::SeqCst) {
        std::thread::sleep(Duration::from_millis(500));
        let ids = tids.lock().unwrap().clone();
        let mut all_asleep = true;
        let mut cur = vec![];
        for t in &ids {
            match thread_sample(*t) {
                Some((st, n)) => {
                    if st != 'S' {
                        all_asleep = false;
                    }
                    cur.push((*t, n));
                }
                None => all_asleep = false, // thread vanished or /proc unreadable: no verdict from this sample
            }
        }
        let polls = probe.polls.load(Ordering::SeqCst);
        let same = matches!(&last, Some((prev, p)) if *prev == cur && *p == polls);
        quiet = if all_asleep && same { quiet + 1 } else { 0 };
        last = Some((cur, polls));
        if quiet >= MT_QUIET_SAMPLES {
            *verdict.lock().unwrap() = Some(format!(
                "all {} threads of the runtime asleep (state S) and not scheduled once during {:.1} s; source polls stayed at {}; source streams finished {}/{}",
                ids.len(),
                MT_QUIET_SAMPLES as f64 * 0.5,
                polls,
                probe.finished.load(Ordering::SeqCst),
                probe.opened.load(Ordering::SeqCst)
            ));
            notify.notify_one();
            return;
        }
    }
}

pub fn run(case: &Case, built: &Built) -> Outcome {
    if case.mt_workers == 0 {
        let rt = tokio::runtime::Builder::new_current_thread().enable_all().start_paused(true).build().expect("runtime");
        let r = rt.block_on(async { tokio::time::timeout(VTQ_TIMEOUT, drive(case, built)).await });
        match r {
            Ok(o) => Outcome::Done(o),
            Err(_) => Outcome::Stuck,
        }
    } else {
        let tids: Arc<Mutex<Vec<i32>>> = Arc::new(Mutex::new(vec![tid()]));
        let (t1, t2) = (tids.clone(), tids.clone());
        let rt = tokio::runtime::Builder::new_multi_thread()
            .worker_threads(case.mt_workers)
            .on_thread_start(move || t1.lock().unwrap().push(tid()))
            .on_thread_stop(move || {
                let me = tid();
                t2.lock().unwrap().retain(|x| *x != me)
            })
            .enable_all()
            .build()
            .expect("runtime");
        let done = Arc::new(std::sync::atomic::AtomicBool::new(false));
        let notify = Arc::new(tokio::sync::Notify::new());
        let verdict: Arc<Mutex<Option<String>>> = Arc::new(Mutex::new(None));
        let monitor = {
            let (tids, probe, done, notify, verdict) = (tids.clone(), built.probe.clone(), done.clone(), notify.clone(), verdict.clone());
            std::thread::spawn(move || watch_quiescence(tids, probe, done, notify, verdict))
        };
        let r = rt.block_on(async {
            tokio::select! {
                o = drive(case, built) => Some(Outcome::Done(o)),
                _ = notify.notified() => None,
                _ = tokio::time::sleep(MT_WALL) => Some(Outcome::WallClock),
            }
        });
        done.store(true, Ordering::SeqCst);
        let _ = monitor.join();
        rt.shutdown_background();
        match r {
            Some(o) => o,
            None => Outcome::StuckMt(verdict.lock().unwrap().clone().unwrap_or_default()),
        }
    }
}
