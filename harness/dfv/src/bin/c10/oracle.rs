//! C10 oracle: exactly-once on ids, routing (hash: independent `create_hashes % n`; range: linear
//! scan over the split points with an independent comparator), completeness of the outputs that
//! were read to end-of-stream, sortedness of outputs whose plan claims an ordering.

use crate::exec::{Built, OutRes};
use crate::cgen::*;
use datafusion::common::hash_utils::create_hashes;
use datafusion::physical_plan::repartition::REPARTITION_RANDOM_STATE;
use datafusion::physical_plan::ExecutionPlan;
use std::cmp::Ordering;
use std::collections::{BTreeMap, HashMap};
use vcommon::{json, Json};

/// Expected output of every id, when the scheme determines it (hash, range).
pub fn expected_routing(case: &Case, built: &Built) -> Result<Option<HashMap<i64, usize>>, String> {
    match &case.scheme {
        Scheme::RoundRobin => Ok(None),
        Scheme::Hash(keys) => {
            let mut m = HashMap::new();
            for (p, part) in built.batches.iter().enumerate() {
                for (bi, b) in part.iter().enumerate() {
                    if b.num_rows() == 0 {
                        continue;
                    }
                    let arrays: Vec<_> = keys.iter().map(|k| b.column(key_col(*k)).clone()).collect();
                    let mut h = vec![0u64; b.num_rows()];
                    create_hashes(&arrays, REPARTITION_RANDOM_STATE.random_state(), &mut h).map_err(|e| e.to_string())?;
                    for (r, row) in case.inputs[p][bi].iter().enumerate() {
                        m.insert(row.id, (h[r] % case.n_out as u64) as usize);
                    }
                }
            }
            Ok(Some(m))
        }
        Scheme::Range { keys, splits } => {
            let mut m = HashMap::new();
            for row in case.all_rows() {
                let t: Vec<KV> = keys.iter().map(|k| row.key(k.col)).collect();
                // linear scan: the partition is the number of split points that are <= the key
                let mut part = 0;
                for sp in splits {
                    if cmp_tuple(&t, sp, keys) != Ordering::Less {
                        part += 1;
                    } else {
                        break;
                    }
                }
                m.insert(row.id, part);
            }
            Ok(Some(m))
        }
    }
}

fn key_repr(r: &RowK, keys: &[usize]) -> String {
    keys.iter()
        .map(|k| match r.key(*k) {
            KV::Null => "N".to_string(),
            KV::I(i) => format!("i{i}"),
            KV::S(s) => format!("s{}:{s}", s.len()),
            KV::F(f) => format!("f{:x}", f.to_bits()),
        })
        .collect::<Vec<_>>()
        .join("|")
}

pub struct Finding {
    pub signature: String,
    pub detail: Json,
}

fn finding(sig: &str, detail: Json) -> Finding {
    Finding { signature: sig.to_string(), detail }
}

/// All deviations of the observed outputs from the property.
pub fn check(case: &Case, built: &Built, outs: &[OutRes], routing: &Option<HashMap<i64, usize>>) -> Vec<Finding> {
    let mut f = vec![];
    let by_id: HashMap<i64, &RowK> = case.all_rows().map(|r| (r.id, r)).collect();
    let label = case.scheme.label();

    // 1. every delivered row is an input row, intact, delivered once
    let mut where_seen: HashMap<i64, usize> = HashMap::new();
    for (j, o) in outs.iter().enumerate() {
        for r in o.batches.iter().flatten() {
            match by_id.get(&r.id) {
                None => f.push(finding("phantom-row", json!({"output": j, "row": r.to_json()}))),
                Some(orig) => {
                    if *orig != r {
                        f.push(finding("corrupted-row", json!({"output": j, "delivered": r.to_json(), "input": orig.to_json()})));
                    }
                }
            }
            if let Some(prev) = where_seen.insert(r.id, j) {
                f.push(finding("duplicate-row", json!({"id": r.id, "outputs": [prev, j]})));
            }
        }
    }

    // 2. routing
    if let Some(route) = routing {
        for (id, j) in &where_seen {
            if let Some(e) = route.get(id) {
                if e != j {
                    f.push(finding(&format!("misrouted-row/{label}"), json!({"id": id, "row": by_id[id].to_json(), "delivered_to": j, "expected_output": e})));
                }
            }
        }
        // completeness of every output that was read to end-of-stream
        for (j, o) in outs.iter().enumerate() {
            if !o.complete {
                continue;
            }
            let mut missing: Vec<i64> = route.iter().filter(|(id, e)| **e == j && !where_seen.contains_key(*id)).map(|(id, _)| *id).collect();
            missing.sort();
            if !missing.is_empty() {
                let sig = if case.has_drop() { "lost-row-after-early-drop" } else { "lost-row" };
                f.push(finding(sig, json!({"output": j, "missing_ids": missing.iter().take(20).collect::<Vec<_>>(), "missing": missing.len()})));
            }
        }
    } else if !case.has_drop() && outs.iter().all(|o| o.complete) {
        let mut missing: Vec<i64> = by_id.keys().filter(|id| !where_seen.contains_key(*id)).copied().collect();
        missing.sort();
        if !missing.is_empty() {
            f.push(finding("lost-row", json!({"missing_ids": missing.iter().take(20).collect::<Vec<_>>(), "missing": missing.len()})));
        }
    }

    // 3. hash: equal keys never end up in two outputs (independent of create_hashes)
    if let Scheme::Hash(keys) = &case.scheme {
        let mut seen: BTreeMap<String, (usize, i64)> = BTreeMap::new();
        for (id, j) in &where_seen {
            if let Some(r) = by_id.get(id) {
                let k = key_repr(r, keys);
                match seen.get(&k) {
                    Some((j0, id0)) if j0 != j => {
                        f.push(finding("equal-keys-in-two-outputs", json!({"ids": [id0, id], "outputs": [j0, j], "key": k})));
                    }
                    None => {
                        seen.insert(k, (*j, *id));
                    }
                    _ => {}
                }
            }
        }
    }

    // 4. round-robin: with enough input every output receives something
    if matches!(case.scheme, Scheme::RoundRobin) && !case.has_drop() && outs.iter().all(|o| o.complete) {
        let enough = case.inputs.iter().any(|p| p.iter().filter(|b| !b.is_empty()).count() >= case.n_out);
        if enough {
            for (j, o) in outs.iter().enumerate() {
                if o.batches.iter().all(|b| b.is_empty()) {
                    f.push(finding("round-robin-starved-output", json!({"output": j})));
                }
            }
        }
    }

    // 5. an output whose plan claims an ordering must be sorted on it (ordering is on `s`)
    if let (Some((desc, nf)), true) = (case.sorted, built.plan.properties().output_ordering().is_some()) {
        for (j, o) in outs.iter().enumerate() {
            let rows: Vec<&RowK> = o.batches.iter().flatten().collect();
            for w in rows.windows(2) {
                let kv = |r: &RowK| r.s.map(KV::I).unwrap_or(KV::Null);
                if cmp_kv(&kv(w[0]), &kv(w[1]), desc, nf) == Ordering::Greater {
                    f.push(finding("unsorted-output", json!({"output": j, "row": w[0].to_json(), "followed_by": w[1].to_json()})));
                    break;
                }
            }
        }
    }
    f
}
