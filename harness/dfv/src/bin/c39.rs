//! C39 — data-modifying statements on memory tables follow SQL semantics.
//!
//! A history of INSERT / UPDATE / DELETE / SELECT statements is run through `SessionContext::sql`
//! against two multi-partition `MemTable`s with NULLs and, in lock step, against a sequential table
//! model (vector of rows, three-valued WHERE, simultaneous assignment). After every statement the
//! reported `count` and the contents of both tables (as multisets) are compared.

use dfv::ast::{lit_sql, BinOp, Expr, From, Grouping, Query, Renderer, Select};
use dfv::canon::multiset_eq;
use dfv::engine::*;
use dfv::refint::{cast_value, Db, Interp, RefErr, Table};
use dfv::value::*;
use vcommon::{fp_mix, fp_str, json, Args, Json, Report, Rng};

const COLS: [(&str, Ty); 6] = [("id", Ty::Int), ("a", Ty::Int), ("b", Ty::Int), ("f", Ty::Float), ("s", Ty::Str), ("k", Ty::Bool)];
const ID: usize = 0;
const A: usize = 1;
const B: usize = 2;
const F: usize = 3;
const S: usize = 4;
const K: usize = 5;
const TABS: [&str; 2] = ["t", "u"];
const MAX_ROWS: usize = 48;

fn cols() -> Vec<(String, Ty)> {
    COLS.iter().map(|(n, t)| (n.to_string(), *t)).collect()
}

// ------------------------------------------------------------------------------------------
// statements
// ------------------------------------------------------------------------------------------

#[derive(Clone, Copy, Debug, PartialEq)]
enum WhereKind {
    None,
    Normal,
    /// a condition the optimizer can fold to a constant FALSE / NULL
    Foldable,
    /// IN / EXISTS over the other table
    Subquery,
}

#[derive(Clone, Debug)]
enum Stmt {
    InsertValues { tab: usize, cols: Option<Vec<usize>>, rows: Vec<Vec<Value>> },
    InsertSelect { tab: usize, src: usize, star: bool, exprs: Vec<Expr>, where_: Option<Expr> },
    Update { tab: usize, alias: Option<String>, sets: Vec<(usize, Expr)>, where_: Option<Expr>, wk: WhereKind },
    Delete { tab: usize, where_: Option<Expr>, wk: WhereKind },
    Read { tab: usize, where_: Option<Expr> },
}

impl Stmt {
    fn kind(&self) -> &'static str {
        match self {
            Stmt::InsertValues { .. } => "insert-values",
            Stmt::InsertSelect { .. } => "insert-select",
            Stmt::Update { .. } => "update",
            Stmt::Delete { .. } => "delete",
            Stmt::Read { .. } => "select",
        }
    }
    fn tab(&self) -> usize {
        match self {
            Stmt::InsertValues { tab, .. } | Stmt::InsertSelect { tab, .. } | Stmt::Update { tab, .. } | Stmt::Delete { tab, .. } | Stmt::Read { tab, .. } => *tab,
        }
    }
    fn sql(&self) -> String {
        let r = Renderer::default();
        let w = |w: &Option<Expr>| w.as_ref().map(|e| format!(" WHERE {}", r.expr(e))).unwrap_or_default();
        match self {
            Stmt::InsertValues { tab, cols, rows } => {
                let tys: Vec<Ty> = match cols {
                    Some(cs) => cs.iter().map(|c| COLS[*c].1).collect(),
                    None => COLS.iter().map(|c| c.1).collect(),
                };
                let collist = cols.as_ref().map(|cs| format!(" ({})", cs.iter().map(|c| COLS[*c].0).collect::<Vec<_>>().join(", "))).unwrap_or_default();
                let vals = rows
                    .iter()
                    .map(|row| format!("({})", row.iter().zip(tys.iter()).map(|(v, ty)| if v.is_null() { "NULL".to_string() } else { lit_sql(v, *ty) }).collect::<Vec<_>>().join(", ")))
                    .collect::<Vec<_>>()
                    .join(", ");
                format!("INSERT INTO {}{collist} VALUES {vals}", TABS[*tab])
            }
            Stmt::InsertSelect { tab, src, star, exprs, where_ } => {
                let items = if *star { "*".to_string() } else { exprs.iter().enumerate().map(|(i, e)| format!("{} AS c{i}", r.expr(e))).collect::<Vec<_>>().join(", ") };
                format!("INSERT INTO {} SELECT {items} FROM {}{}", TABS[*tab], TABS[*src], w(where_))
            }
            Stmt::Update { tab, alias, sets, where_, .. } => {
                let al = alias.as_ref().map(|a| format!(" AS {a}")).unwrap_or_default();
                let sets = sets.iter().map(|(c, e)| format!("{} = {}", COLS[*c].0, r.expr(e))).collect::<Vec<_>>().join(", ");
                format!("UPDATE {}{al} SET {sets}{}", TABS[*tab], w(where_))
            }
            Stmt::Delete { tab, where_, .. } => format!("DELETE FROM {}{}", TABS[*tab], w(where_)),
            Stmt::Read { tab, where_ } => format!("SELECT * FROM {}{}", TABS[*tab], w(where_)),
        }
    }
}

// ------------------------------------------------------------------------------------------
// typed expression generator (dfv::ast::Expr over one relation)
// ------------------------------------------------------------------------------------------

struct Gen<'a> {
    rng: &'a mut Rng,
    rel: String,
    other: String,
    /// allow NULL literals / division (assignments and select items); WHERE conditions stay free of
    /// constant sub-expressions so that they are not folded by the optimizer by accident
    null_lits: bool,
}

fn col(rel: &str, c: usize) -> Expr {
    Expr::Col { rel: rel.to_string(), name: COLS[c].0.to_string() }
}
fn ilit(i: i64) -> Expr {
    Expr::Lit(Value::Int(i), Ty::Int)
}
fn bin(a: Expr, op: BinOp, b: Expr) -> Expr {
    Expr::Bin(Box::new(a), op, Box::new(b))
}

const FLOATS: [f64; 6] = [0.0, 0.5, 1.5, -2.0, 4.25, 3.0];
const STRS: [&str; 6] = ["", "a", "ab", "B", "xyz", "a%"];
const PATS: [&str; 5] = ["a%", "%b", "_", "%", "x_z"];
const CMPS: [BinOp; 6] = [BinOp::Eq, BinOp::Ne, BinOp::Lt, BinOp::Le, BinOp::Gt, BinOp::Ge];

impl<'a> Gen<'a> {
    fn icol(&mut self) -> Expr {
        let c = *self.rng.pick(&[A, A, B, B, ID]);
        col(&self.rel, c)
    }
    fn int(&mut self, d: usize) -> Expr {
        if d == 0 {
            return match self.rng.below(10) {
                0..=6 => self.icol(),
                7 if self.null_lits => Expr::Lit(Value::Null, Ty::Int),
                _ => ilit(self.rng.range(-2, 9)),
            };
        }
        match self.rng.below(12) {
            0..=2 => {
                let op = *self.rng.pick(&[BinOp::Add, BinOp::Sub, BinOp::Mul]);
                let (a, b) = (self.int(d - 1), self.int(d - 1));
                bin(a, op, b)
            }
            3 => {
                let a = self.icol();
                bin(a, BinOp::Add, ilit(1))
            }
            4 => Expr::Neg(Box::new(self.icol())),
            5 => {
                let w = self.boolean(d - 1);
                let (x, y) = (self.int(d - 1), self.int(d - 1));
                let else_ = if self.rng.bool() { Some(Box::new(y)) } else { None };
                Expr::Case { operand: None, whens: vec![(w, x)], else_ }
            }
            6 => Expr::Coalesce(vec![self.icol(), self.int(d - 1)]),
            7 => Expr::NullIf(Box::new(self.icol()), Box::new(self.int(d - 1))),
            8 if self.null_lits && self.rng.chance(1, 3) => {
                let op = *self.rng.pick(&[BinOp::Div, BinOp::Mod]);
                let (a, b) = (self.icol(), self.icol());
                bin(a, op, b)
            }
            9 => Expr::Func("abs", vec![self.int(d - 1)]),
            10 => Expr::Func("length", vec![col(&self.rel, S)]),
            _ => self.int(0),
        }
    }
    fn float(&mut self, d: usize) -> Expr {
        let flit = |r: &mut Rng| Expr::Lit(Value::Float(*r.pick(&FLOATS)), Ty::Float);
        if d == 0 {
            return match self.rng.below(6) {
                0..=3 => col(&self.rel, F),
                4 if self.null_lits => Expr::Lit(Value::Null, Ty::Float),
                _ => flit(self.rng),
            };
        }
        match self.rng.below(5) {
            0 => bin(col(&self.rel, F), BinOp::Add, flit(self.rng)),
            1 => Expr::Cast(Box::new(self.int(d - 1)), Ty::Float),
            2 => bin(col(&self.rel, F), BinOp::Mul, Expr::Lit(Value::Float(2.0), Ty::Float)),
            3 => Expr::Coalesce(vec![col(&self.rel, F), flit(self.rng)]),
            _ => self.float(0),
        }
    }
    fn string(&mut self, d: usize) -> Expr {
        let slit = |r: &mut Rng| Expr::Lit(Value::Str(r.pick(&STRS).to_string()), Ty::Str);
        if d == 0 {
            return match self.rng.below(6) {
                0..=3 => col(&self.rel, S),
                4 if self.null_lits => Expr::Lit(Value::Null, Ty::Str),
                _ => slit(self.rng),
            };
        }
        match self.rng.below(5) {
            0 => bin(col(&self.rel, S), BinOp::Concat, slit(self.rng)),
            1 => Expr::Func(if self.rng.bool() { "upper" } else { "lower" }, vec![col(&self.rel, S)]),
            2 => Expr::Coalesce(vec![col(&self.rel, S), slit(self.rng)]),
            3 => {
                let w = self.boolean(d - 1);
                Expr::Case { operand: None, whens: vec![(w, slit(self.rng))], else_: Some(Box::new(col(&self.rel, S))) }
            }
            _ => self.string(0),
        }
    }
    /// a predicate with at least one column reference in every leaf
    fn boolean(&mut self, d: usize) -> Expr {
        if d == 0 {
            return match self.rng.below(12) {
                0..=3 => {
                    let op = *self.rng.pick(&CMPS);
                    let a = self.icol();
                    let b = if self.rng.bool() { self.icol() } else { ilit(self.rng.range(-1, 7)) };
                    bin(a, op, b)
                }
                4 => {
                    let c = *self.rng.pick(&[A, B, F, S, K]);
                    Expr::IsNull(Box::new(col(&self.rel, c)), self.rng.bool())
                }
                5 => col(&self.rel, K),
                6 => {
                    let pat = Expr::Lit(Value::Str(self.rng.pick(&PATS).to_string()), Ty::Str);
                    Expr::Like { e: Box::new(col(&self.rel, S)), pat: Box::new(pat), negated: self.rng.chance(1, 4), ci: false }
                }
                7 => {
                    let op = *self.rng.pick(&CMPS);
                    let lit = Expr::Lit(Value::Str(self.rng.pick(&STRS).to_string()), Ty::Str);
                    bin(col(&self.rel, S), op, lit)
                }
                8 => {
                    let op = *self.rng.pick(&CMPS);
                    let rhs = if self.rng.bool() { Expr::Lit(Value::Float(*self.rng.pick(&FLOATS)), Ty::Float) } else { self.icol() };
                    bin(col(&self.rel, F), op, rhs)
                }
                9 => {
                    let mut list: Vec<Expr> = (0..1 + self.rng.usize(3)).map(|_| ilit(self.rng.range(0, 6))).collect();
                    if self.rng.chance(1, 3) {
                        list.push(Expr::Lit(Value::Null, Ty::Int));
                    }
                    Expr::InList { e: Box::new(self.icol()), list, negated: self.rng.chance(1, 3) }
                }
                10 => {
                    let lo = self.rng.range(0, 4);
                    Expr::Between { e: Box::new(self.icol()), lo: Box::new(ilit(lo)), hi: Box::new(ilit(lo + self.rng.range(0, 3))), negated: self.rng.chance(1, 4) }
                }
                _ => {
                    let op = if self.rng.bool() { BinOp::IsDistinct } else { BinOp::IsNotDistinct };
                    let (a, b) = (self.icol(), self.icol());
                    bin(a, op, b)
                }
            };
        }
        match self.rng.below(8) {
            0 | 1 => {
                let (a, b) = (self.boolean(d - 1), self.boolean(d - 1));
                bin(a, BinOp::And, b)
            }
            2 | 3 => {
                let (a, b) = (self.boolean(d - 1), self.boolean(d - 1));
                bin(a, BinOp::Or, b)
            }
            4 => Expr::Not(Box::new(self.boolean(d - 1))),
            5 => {
                let op = *self.rng.pick(&CMPS);
                let nl = std::mem::replace(&mut self.null_lits, false);
                let (a, b) = (self.int(d), self.icol());
                self.null_lits = nl;
                bin(a, op, b)
            }
            _ => self.boolean(0),
        }
    }
    fn foldable(&mut self) -> Expr {
        match self.rng.below(6) {
            0 => Expr::Lit(Value::Bool(false), Ty::Bool),
            1 => Expr::Lit(Value::Null, Ty::Bool),
            2 => bin(col(&self.rel, A), BinOp::Eq, Expr::Lit(Value::Null, Ty::Int)),
            3 => bin(ilit(1), BinOp::Eq, ilit(0)),
            4 => Expr::IsNull(Box::new(col(&self.rel, ID)), false),
            _ => bin(self.boolean(0), BinOp::And, Expr::Lit(Value::Bool(false), Ty::Bool)),
        }
    }
    fn subquery(&mut self) -> Expr {
        let o = self.other.clone();
        let sel = |items: Vec<(Expr, String)>, where_: Option<Expr>| {
            Box::new(Query::simple(Select { distinct: false, items, from: Some(From::Table { name: o.clone(), alias: o.clone() }), where_, group_by: vec![], grouping: Grouping::Plain, sets: vec![], having: None }))
        };
        match self.rng.below(3) {
            0 => Expr::InSubquery { e: Box::new(col(&self.rel, A)), q: sel(vec![(col(&o, A), "c0".into())], None), negated: false },
            1 => Expr::InSubquery { e: Box::new(col(&self.rel, B)), q: sel(vec![(col(&o, A), "c0".into())], None), negated: true },
            _ => Expr::Exists { q: sel(vec![(col(&o, ID), "c0".into())], Some(bin(col(&o, ID), BinOp::Eq, col(&self.rel, ID)))), negated: self.rng.chance(1, 3) },
        }
    }
    fn typed(&mut self, ty: Ty, d: usize) -> Expr {
        match ty {
            Ty::Int => self.int(d),
            Ty::Float => {
                if self.rng.chance(1, 4) {
                    self.int(d) // int expression assigned to a DOUBLE column: implicit cast
                } else {
                    self.float(d)
                }
            }
            Ty::Str => self.string(d),
            Ty::Bool => {
                if self.null_lits && self.rng.chance(1, 5) {
                    Expr::Lit(if self.rng.bool() { Value::Null } else { Value::Bool(self.rng.bool()) }, Ty::Bool)
                } else {
                    self.boolean(d)
                }
            }
        }
    }
    fn where_(&mut self, allow_special: bool) -> (Option<Expr>, WhereKind) {
        let nl = std::mem::replace(&mut self.null_lits, false);
        let r = match self.rng.below(100) {
            0..=14 => (None, WhereKind::None),
            15..=17 if allow_special => (Some(self.foldable()), WhereKind::Foldable),
            18..=19 if allow_special => (Some(self.subquery()), WhereKind::Subquery),
            _ => {
                let d = self.rng.usize(3);
                (Some(self.boolean(d)), WhereKind::Normal)
            }
        };
        self.null_lits = nl;
        r
    }
}

fn random_value(rng: &mut Rng, c: usize, next_id: &mut i64) -> Value {
    if c == ID {
        *next_id += 1;
        return Value::Int(*next_id);
    }
    if rng.chance(1, 4) {
        return Value::Null;
    }
    match COLS[c].1 {
        Ty::Int => Value::Int(rng.range(0, 6)),
        Ty::Float => Value::Float(*rng.pick(&FLOATS)),
        Ty::Str => Value::Str(rng.pick(&STRS).to_string()),
        Ty::Bool => Value::Bool(rng.bool()),
    }
}

// ------------------------------------------------------------------------------------------
// the sequential table model
// ------------------------------------------------------------------------------------------

#[derive(Clone, Debug)]
struct MRow {
    vals: Row,
    /// (partition, batch) of rows that are still where the initial layout put them
    origin: Option<(usize, usize)>,
}

struct Model {
    tabs: Vec<Vec<MRow>>,
}

impl Model {
    fn rows(&self, t: usize) -> Vec<Row> {
        self.tabs[t].iter().map(|r| r.vals.clone()).collect()
    }
    fn table(&self, t: usize, name: &str) -> Table {
        Table { name: name.to_string(), cols: cols(), rows: self.rows(t) }
    }
}

/// Evaluate `exprs` for one row of table `tab` (visible under `rel`); `other` is fully visible for subqueries.
fn eval_row(tab: usize, rel: &str, row: &Row, other: &Table, exprs: &[Expr]) -> Result<Vec<Value>, RefErr> {
    if exprs.is_empty() {
        return Ok(vec![]);
    }
    let db = Db { tables: vec![Table { name: TABS[tab].to_string(), cols: cols(), rows: vec![row.clone()] }, other.clone()] };
    let sel = Select {
        distinct: false,
        items: exprs.iter().enumerate().map(|(i, e)| (e.clone(), format!("c{i}"))).collect(),
        from: Some(From::Table { name: TABS[tab].to_string(), alias: rel.to_string() }),
        where_: None,
        group_by: vec![],
        grouping: Grouping::Plain,
        sets: vec![],
        having: None,
    };
    let rel = Interp::new(&db).run(&Query::simple(sel))?;
    rel.rows.into_iter().next().ok_or_else(|| RefErr::Unsupported("reference produced no row".into()))
}

#[derive(Default, Clone, Copy)]
struct Truth {
    t: u64,
    f: u64,
    n: u64,
}

struct Applied {
    /// reported count (DML) — None for reads
    count: Option<u64>,
    /// new contents of the target table (DML) or the result rows (read)
    rows: Vec<MRow>,
    truth: Truth,
    partitions_touched: usize,
    emptied_batch: bool,
    null_result: bool,
}

fn where_truth(tab: usize, rel: &str, row: &Row, other: &Table, w: &Option<Expr>, tr: &mut Truth) -> Result<bool, RefErr> {
    match w {
        None => Ok(true),
        Some(e) => {
            let v = eval_row(tab, rel, row, other, std::slice::from_ref(e))?;
            match v[0] {
                Value::Bool(true) => {
                    tr.t += 1;
                    Ok(true)
                }
                Value::Bool(false) => {
                    tr.f += 1;
                    Ok(false)
                }
                Value::Null => {
                    tr.n += 1;
                    Ok(false)
                }
                _ => Err(RefErr::Unsupported("non-boolean WHERE".into())),
            }
        }
    }
}

fn apply(model: &Model, st: &Stmt) -> Result<Applied, RefErr> {
    let tab = st.tab();
    let other_idx = 1 - tab;
    let other = model.table(other_idx, TABS[other_idx]);
    let cur = &model.tabs[tab];
    let mut out = Applied { count: None, rows: vec![], truth: Truth::default(), partitions_touched: 0, emptied_batch: false, null_result: false };
    let mut touched: Vec<(usize, usize)> = vec![];
    match st {
        Stmt::InsertValues { cols: cs, rows, .. } => {
            out.rows = cur.clone();
            for r in rows {
                let mut vals = vec![Value::Null; COLS.len()];
                match cs {
                    Some(cs) => {
                        for (c, v) in cs.iter().zip(r.iter()) {
                            vals[*c] = cast_value(v, COLS[*c].1)?;
                        }
                    }
                    None => {
                        for (c, v) in r.iter().enumerate() {
                            vals[c] = cast_value(v, COLS[c].1)?;
                        }
                    }
                }
                out.rows.push(MRow { vals, origin: None });
            }
            out.count = Some(rows.len() as u64);
        }
        Stmt::InsertSelect { src, star, exprs, where_, .. } => {
            // the source is read in full before anything is appended
            let src_rows = &model.tabs[*src];
            let src_other = model.table(1 - *src, TABS[1 - *src]);
            let mut new = vec![];
            for r in src_rows {
                if !where_truth(*src, TABS[*src], &r.vals, &src_other, where_, &mut out.truth)? {
                    continue;
                }
                let vals = if *star { r.vals.clone() } else { eval_row(*src, TABS[*src], &r.vals, &src_other, exprs)? };
                let mut cast = vec![];
                for (c, v) in vals.iter().enumerate() {
                    cast.push(cast_value(v, COLS[c].1)?);
                }
                new.push(MRow { vals: cast, origin: None });
            }
            out.count = Some(new.len() as u64);
            out.rows = cur.clone();
            out.rows.extend(new);
        }
        Stmt::Update { alias, sets, where_, .. } => {
            let rel = alias.clone().unwrap_or_else(|| TABS[tab].to_string());
            let exprs: Vec<Expr> = sets.iter().map(|(_, e)| e.clone()).collect();
            let mut n = 0;
            for r in cur {
                if !where_truth(tab, &rel, &r.vals, &other, where_, &mut out.truth)? {
                    out.rows.push(r.clone());
                    continue;
                }
                n += 1;
                // simultaneous assignment: every right-hand side sees the pre-update row
                let new = eval_row(tab, &rel, &r.vals, &other, &exprs)?;
                let mut vals = r.vals.clone();
                for ((c, _), v) in sets.iter().zip(new.iter()) {
                    let v = cast_value(v, COLS[*c].1)?;
                    if v.is_null() && !vals[*c].is_null() {
                        out.null_result = true;
                    }
                    vals[*c] = v;
                }
                if let Some(o) = r.origin {
                    touched.push(o);
                }
                out.rows.push(MRow { vals, origin: r.origin });
            }
            out.count = Some(n);
        }
        Stmt::Delete { where_, .. } => {
            let mut n = 0;
            for r in cur {
                if where_truth(tab, TABS[tab], &r.vals, &other, where_, &mut out.truth)? {
                    n += 1;
                    if let Some(o) = r.origin {
                        touched.push(o);
                    }
                } else {
                    out.rows.push(r.clone());
                }
            }
            out.count = Some(n);
            touched.sort();
            touched.dedup();
            out.emptied_batch = touched.iter().any(|o| !out.rows.iter().any(|r| r.origin == Some(*o)));
        }
        Stmt::Read { where_, .. } => {
            for r in cur {
                if where_truth(tab, TABS[tab], &r.vals, &other, where_, &mut out.truth)? {
                    out.rows.push(r.clone());
                }
            }
        }
    }
    let mut parts: Vec<usize> = touched.iter().map(|o| o.0).collect();
    parts.sort();
    parts.dedup();
    out.partitions_touched = parts.len();
    Ok(out)
}

// ------------------------------------------------------------------------------------------
// statement generation
// ------------------------------------------------------------------------------------------

/// `force`: a statement template (systematic part) or None (weighted random choice)
fn gen_stmt(rng: &mut Rng, model: &Model, next_id: &mut i64, force: Option<u64>) -> Stmt {
    let tab = if rng.chance(3, 4) { 0 } else { 1 };
    let n_rows = model.tabs[tab].len();
    let big = n_rows >= MAX_ROWS;
    let pick = match force {
        Some(f) => f,
        None => {
            let w = [6u32, 4, 3, 3, 3, 2, 2, 1, if big { 0 } else { 2 }, if big { 0 } else { 2 }, 2, if big { 0 } else { 2 }, 4, 1, 1, 3, 1];
            rng.weighted(&w) as u64
        }
    };
    let name = TABS[tab].to_string();
    let other = TABS[1 - tab].to_string();
    let mut g = Gen { rng, rel: name.clone(), other, null_lits: true };
    match pick {
        // --- UPDATE ---
        0 => {
            // random assignments to 1..3 distinct non-key columns
            let mut cs = vec![A, B, F, S, K];
            g.rng.shuffle(&mut cs);
            cs.truncate(1 + g.rng.usize(3));
            let d = g.rng.usize(3);
            let sets = cs.into_iter().map(|c| (c, g.typed(COLS[c].1, d))).collect();
            let (where_, wk) = g.where_(true);
            Stmt::Update { tab, alias: None, sets, where_, wk }
        }
        1 => {
            // the swap: SET a = b, b = a + 1
            let sets = vec![(A, col(&name, B)), (B, bin(col(&name, A), BinOp::Add, ilit(1)))];
            let (where_, wk) = g.where_(false);
            Stmt::Update { tab, alias: None, sets, where_, wk }
        }
        2 => {
            // self reference, no WHERE / bool column as the WHERE
            let sets = vec![(A, bin(col(&name, A), BinOp::Add, ilit(1))), (S, bin(col(&name, S), BinOp::Concat, Expr::Lit(Value::Str("x".into()), Ty::Str)))];
            let where_ = if g.rng.bool() { None } else { Some(col(&name, K)) };
            let wk = if where_.is_some() { WhereKind::Normal } else { WhereKind::None };
            Stmt::Update { tab, alias: None, sets, where_, wk }
        }
        3 => {
            // NULL results + constant (scalar) assignment next to an array-valued one
            let sets = vec![(A, Expr::NullIf(Box::new(col(&name, A)), Box::new(col(&name, B)))), (B, ilit(5)), (F, Expr::Lit(Value::Null, Ty::Float))];
            let (where_, wk) = g.where_(false);
            Stmt::Update { tab, alias: None, sets, where_, wk }
        }
        4 => {
            // three-way rotation through an alias
            g.rel = "x".into();
            let sets = vec![(A, col("x", B)), (B, col("x", ID)), (F, Expr::Cast(Box::new(col("x", A)), Ty::Float))];
            let (where_, wk) = g.where_(false);
            Stmt::Update { tab, alias: Some("x".into()), sets, where_, wk }
        }
        // --- DELETE ---
        5 | 12 => {
            let (where_, wk) = g.where_(true);
            Stmt::Delete { tab, where_, wk }
        }
        6 => {
            // a key range: wipes whole batches of the contiguous initial layout
            let hi = g.rng.range(0, *next_id);
            let lo = g.rng.range(0, hi);
            let w = bin(bin(col(&name, ID), BinOp::Ge, ilit(lo)), BinOp::And, bin(col(&name, ID), BinOp::Le, ilit(hi)));
            Stmt::Delete { tab, where_: Some(w), wk: WhereKind::Normal }
        }
        7 => Stmt::Delete { tab, where_: None, wk: WhereKind::None },
        // --- INSERT ---
        8 => Stmt::InsertSelect { tab, src: tab, star: true, exprs: vec![], where_: g.where_(false).0 },
        9 => {
            // from the same table with swapped / shifted columns
            let exprs = vec![
                bin(col(&name, ID), BinOp::Add, ilit(100)),
                col(&name, B),
                bin(col(&name, A), BinOp::Add, ilit(1)),
                g.float(1),
                g.string(1),
                Expr::Not(Box::new(col(&name, K))),
            ];
            Stmt::InsertSelect { tab, src: tab, star: false, exprs, where_: g.where_(false).0 }
        }
        10 => {
            // from the other table
            let src = 1 - tab;
            g.rel = TABS[src].to_string();
            g.other = name.clone();
            let star = g.rng.bool();
            let d = g.rng.usize(2);
            let exprs = if star { vec![] } else { (0..COLS.len()).map(|c| if c == ID { bin(col(TABS[src], ID), BinOp::Add, ilit(200)) } else { g.typed(COLS[c].1, d) }).collect() };
            Stmt::InsertSelect { tab, src, star, exprs, where_: g.where_(false).0 }
        }
        11 => {
            // VALUES with a column subset in a permuted order (missing columns become NULL)
            let mut cs = vec![A, B, F, S, K];
            g.rng.shuffle(&mut cs);
            cs.truncate(g.rng.usize(4));
            cs.insert(g.rng.usize(cs.len() + 1), ID);
            let rows = (0..1 + g.rng.usize(3)).map(|_| cs.iter().map(|c| random_value(g.rng, *c, next_id)).collect()).collect();
            Stmt::InsertValues { tab, cols: Some(cs), rows }
        }
        13 => {
            let rows = (0..1 + g.rng.usize(4)).map(|_| (0..COLS.len()).map(|c| random_value(g.rng, c, next_id)).collect()).collect();
            Stmt::InsertValues { tab, cols: None, rows }
        }
        14 => {
            // forced foldable / subquery WHERE (systematic part only hits these deliberately)
            let (w, wk) = if g.rng.bool() { (g.foldable(), WhereKind::Foldable) } else { (g.subquery(), WhereKind::Subquery) };
            if g.rng.bool() {
                Stmt::Delete { tab, where_: Some(w), wk }
            } else {
                Stmt::Update { tab, alias: None, sets: vec![(A, ilit(7)), (B, col(&name, A))], where_: Some(w), wk }
            }
        }
        15 => Stmt::Read { tab, where_: g.where_(false).0 },
        // two IN lists over one nullable column joined by OR (the optimizer merges them); rows with a NULL matter
        _ => {
            let l = |neg: bool, xs: [i64; 2]| Expr::InList { e: Box::new(col(&name, A)), list: xs.iter().map(|x| ilit(*x)).collect(), negated: neg };
            let w = bin(l(true, [2, 0]), BinOp::Or, l(true, [6, 3]));
            match g.rng.below(3) {
                0 => Stmt::Read { tab, where_: Some(w) },
                1 => Stmt::Delete { tab, where_: Some(w), wk: WhereKind::Normal },
                _ => Stmt::Update { tab, alias: None, sets: vec![(B, ilit(1))], where_: Some(w), wk: WhereKind::Normal },
            }
        }
    }
}
const N_TEMPLATES: u64 = 17;

// ------------------------------------------------------------------------------------------
// one history
// ------------------------------------------------------------------------------------------

fn bucket(n: u64) -> &'static str {
    match n {
        0 => "0",
        1 => "1",
        2 => "2",
        3..=5 => "3-5",
        6..=12 => "6-12",
        _ => "13+",
    }
}

fn mrows_json(rows: &[MRow]) -> Json {
    rows_to_json(&rows.iter().map(|r| r.vals.clone()).collect::<Vec<_>>())
}

struct Hist {
    db0: Json,
    layout: Json,
    sqls: Vec<String>,
}

impl Hist {
    fn witness(&self, what: &str, extra: Json) -> Json {
        json!({"what": what, "tables": self.db0, "layout": self.layout, "session": "target_partitions=3 batch_size=3", "statements": self.sqls, "failing_statement": self.sqls.last(), "detail": extra})
    }
}

async fn read_table(ctx: &datafusion::prelude::SessionContext, t: usize) -> Result<Vec<Row>, datafusion::error::DataFusionError> {
    Ok(run_sql(ctx, &format!("SELECT * FROM {}", TABS[t])).await?.rows)
}

/// Localisation of a mismatch: does a plain `SELECT * FROM tab WHERE w` over the same (pre-statement) rows,
/// in a fresh session, already select other rows than the three-valued model? Then the deviation is in
/// expression simplification / evaluation, not in the DML path. Returns the signature suffix.
async fn plain_select_disagrees(model: &Model, tab: usize, alias: &Option<String>, w: &Expr) -> Option<&'static str> {
    let db = Db { tables: (0..TABS.len()).map(|t| model.table(t, TABS[t])).collect() };
    let layout: DbLayout = db.tables.iter().map(|t| vec![vec![(0..t.rows.len()).collect()]]).collect();
    let ctx = default_ctx(3, 3);
    register_db_layout(&ctx, &db, &layout).ok()?;
    let al = alias.as_ref().map(|a| format!(" AS {a}")).unwrap_or_default();
    let rel = alias.clone().unwrap_or_else(|| TABS[tab].to_string());
    let out = run_sql(&ctx, &format!("SELECT * FROM {}{al} WHERE {}", TABS[tab], Renderer::default().expr(w))).await.ok()?;
    let other = model.table(1 - tab, TABS[1 - tab]);
    let mut exp = vec![];
    let mut tr = Truth::default();
    for r in &model.tabs[tab] {
        if where_truth(tab, &rel, &r.vals, &other, &Some(w.clone()), &mut tr).ok()? {
            exp.push(r.vals.clone());
        }
    }
    if multiset_eq(&out.rows, &exp) {
        return None;
    }
    let mut in_lists = 0;
    dfv::refint::walk_expr(w, &mut |x| {
        if matches!(x, Expr::InList { .. }) {
            in_lists += 1;
        }
    });
    Some(if in_lists >= 2 { "in-list-merge" } else { "other" })
}

/// A deviation with a keyed root cause: every occurrence is counted, two witnesses per signature are kept
/// (the report keeps at most 25 witnesses in total; they must not crowd out an unclassified violation).
fn classified(rep: &Report, sig: &str, witness: Json) {
    rep.count(&format!("occurrences/{sig}"), 1);
    if rep.get_count(&format!("occurrences/{sig}")) <= 2 {
        rep.violation(sig, witness);
    }
}

fn history(rep: &Report, rng: &mut Rng, systematic: Option<u64>, selftest: u64) {
    // ---- initial tables + layout
    let mut next_id = 0i64;
    let mut db = Db::default();
    for name in TABS {
        let n = if rng.chance(1, 8) { 0 } else { rng.usize(11) };
        let rows = (0..n).map(|_| (0..COLS.len()).map(|c| random_value(rng, c, &mut next_id)).collect()).collect();
        db.tables.push(Table { name: name.to_string(), cols: cols(), rows });
    }
    let nparts = 1 + rng.usize(4);
    let layout = random_db_layout(&db, nparts, 1 + rng.usize(4), rng);
    let mut model = Model { tabs: vec![] };
    for (t, l) in db.tables.iter().zip(layout.iter()) {
        let mut rows: Vec<MRow> = t.rows.iter().map(|r| MRow { vals: r.clone(), origin: None }).collect();
        for (p, part) in l.iter().enumerate() {
            for (b, batch) in part.iter().enumerate() {
                for i in batch {
                    rows[*i].origin = Some((p, b));
                }
            }
        }
        model.tabs.push(rows);
    }
    let mut h = Hist { db0: db_to_json(&db), layout: json!(layout), sqls: vec![] };
    let n_stmts = 4 + rng.usize(9); // 4..=12
    let mut fp = fp_str(&h.db0.to_string());
    let mut nontrivial = false;

    let rt = current_thread_rt();
    let res = vcommon::par::guard(|| {
        rt.block_on(async {
            let ctx = default_ctx(3, 3);
            if let Err(e) = register_db_layout(&ctx, &db, &layout) {
                rep.skip(&format!("harness-register-failed: {e}"));
                return;
            }
            for step in 0..n_stmts {
                let force = match systematic {
                    Some(i) if step == 0 => Some(i % N_TEMPLATES),
                    Some(i) if step == 1 => Some((i / N_TEMPLATES) % N_TEMPLATES),
                    _ => None,
                };
                let st = gen_stmt(rng, &model, &mut next_id, force);
                let sql = st.sql();
                fp = fp_mix(fp, fp_str(&sql));
                h.sqls.push(sql.clone());
                let kind = st.kind();
                let tab = st.tab();
                let expected = apply(&model, &st);

                // ---- engine: plan ...
                let df = match ctx.sql(&sql).await {
                    Ok(df) => df,
                    Err(e) => {
                        rep.skip(&format!("plan-reject/{kind}/{:?}", classify(&e)));
                        if rep.get_count("plan_reject_samples") < 8 {
                            rep.count("plan_reject_samples", 1);
                            rep.extra(&format!("plan_reject_sample_{}", rep.get_count("plan_reject_samples")), json!({"sql": sql, "error": e.to_string().chars().take(240).collect::<String>()}));
                        }
                        h.sqls.pop();
                        continue;
                    }
                };
                // ---- ... and collect, exactly once
                let batches = match df.collect().await {
                    Ok(b) => b,
                    Err(e) => {
                        let cls = classify(&e);
                        rep.count(&format!("exec-error/{kind}/{cls:?}"), 1);
                        if expected.is_ok() {
                            rep.count(&format!("exec-error-where-model-succeeds/{kind}/{cls:?}"), 1);
                            if rep.get_count("exec_error_samples") < 8 {
                                rep.count("exec_error_samples", 1);
                                rep.extra(&format!("exec_error_sample_{}", rep.get_count("exec_error_samples")), json!({"sql": sql, "error": e.to_string().chars().take(240).collect::<String>()}));
                            }
                        }
                        // an atomically rejected statement leaves the history usable; otherwise the contents are unspecified
                        match read_table(&ctx, tab).await {
                            Ok(rows) if multiset_eq(&rows, &model.rows(tab)) => {
                                rep.skip(&format!("statement-failed-atomically/{kind}"));
                                h.sqls.pop();
                                continue;
                            }
                            _ => {
                                rep.skip(&format!("history-cut-after-execution-error/{kind}"));
                                return;
                            }
                        }
                    }
                };
                let exp = match expected {
                    Ok(x) => x,
                    Err(e) => {
                        rep.skip(&format!("history-cut-model-declines/{kind}/{}", match e { RefErr::DivZero => "div-zero".to_string(), RefErr::ScalarCard => "scalar-card".into(), RefErr::Unsupported(w) => w.split(':').next().unwrap_or("").to_string() }));
                        return;
                    }
                };
                rep.count(&format!("stmt/{kind}"), 1);
                rep.count("where-rows/true", exp.truth.t);
                rep.count("where-rows/false", exp.truth.f);
                rep.count("where-rows/null", exp.truth.n);

                // ---- (i) the reported count
                let out_rows = batches_to_rows(&batches);
                if let Some(ec) = exp.count {
                    let observed = match out_rows.as_slice() {
                        [r] if r.len() == 1 => match &r[0] {
                            Value::Int(i) => Some(*i as u64 + if selftest == 1 && kind == "update" { 1 } else { 0 }),
                            _ => None,
                        },
                        _ => None,
                    };
                    rep.count(&format!("affected/{kind}/{}", bucket(ec)), 1);
                    if ec > 0 {
                        nontrivial = true;
                    }
                    // (ii) contents of both tables
                    let (mut obs_t, obs_o) = match (read_table(&ctx, tab).await, read_table(&ctx, 1 - tab).await) {
                        (Ok(a), Ok(b)) => (a, b),
                        (a, b) => {
                            rep.violation("table-unreadable-after-dml", h.witness("SELECT * failed after the statement", json!({"error": format!("{:?} / {:?}", a.err().map(|e| e.to_string()), b.err().map(|e| e.to_string()))})));
                            return;
                        }
                    };
                    if selftest == 2 && kind == "delete" && !obs_t.is_empty() {
                        obs_t.pop();
                    }
                    let exp_rows: Vec<Row> = exp.rows.iter().map(|r| r.vals.clone()).collect();
                    let count_ok = observed == Some(ec);
                    let rows_ok = multiset_eq(&obs_t, &exp_rows);
                    let other_ok = multiset_eq(&obs_o, &model.rows(1 - tab));
                    if !other_ok {
                        rep.violation(&format!("other-table-changed/{kind}"), h.witness("a table that is not the statement's target changed", json!({"table": TABS[1 - tab], "observed": rows_to_json(&obs_o), "expected": rows_to_json(&model.rows(1 - tab))})));
                        return;
                    }
                    if !(count_ok && rows_ok) {
                        let detail = json!({"table": TABS[tab], "rows_before": mrows_json(&model.tabs[tab]), "expected_count": ec, "observed_count_output": rows_to_json(&out_rows), "expected_rows": rows_to_json(&exp_rows), "observed_rows": rows_to_json(&obs_t),
                            "where_truth_per_model": {"true": exp.truth.t, "false": exp.truth.f, "null": exp.truth.n}});
                        let w_info = match &st {
                            Stmt::Delete { where_: Some(w), .. } => Some((tab, None, w)),
                            Stmt::Update { where_: Some(w), alias, .. } => Some((tab, alias.clone(), w)),
                            Stmt::InsertSelect { where_: Some(w), src, .. } => Some((*src, None, w)),
                            _ => None,
                        };
                        if let Some((t, al, w)) = w_info {
                            if let Some(why) = plain_select_disagrees(&model, t, &al, w).await {
                                classified(rep, &format!("where-evaluated-differently-by-plain-select/{why}"), h.witness("a plain SELECT with the same WHERE over the same rows already disagrees with three-valued logic (expression simplification / evaluation, not the DML path)", detail));
                                model.tabs[tab] = obs_t.into_iter().map(|vals| MRow { vals, origin: None }).collect();
                                continue;
                            }
                        }
                        // keyed root cause: the WHERE clause did not reach the table (every row treated as matching)
                        let lost = match &st {
                            Stmt::Delete { where_: Some(_), wk, .. } => {
                                let alt = apply(&model, &Stmt::Delete { tab, where_: None, wk: WhereKind::None }).ok();
                                alt.filter(|a| a.count == observed && multiset_eq(&obs_t, &a.rows.iter().map(|r| r.vals.clone()).collect::<Vec<_>>())).map(|_| *wk)
                            }
                            Stmt::Update { where_: Some(_), wk, sets, alias, .. } => {
                                let alts = [sets.clone(), vec![]];
                                alts.iter()
                                    .filter_map(|s| apply(&model, &Stmt::Update { tab, alias: alias.clone(), sets: s.clone(), where_: None, wk: WhereKind::None }).ok())
                                    .find(|a| a.count == observed && multiset_eq(&obs_t, &a.rows.iter().map(|r| r.vals.clone()).collect::<Vec<_>>()))
                                    .map(|_| *wk)
                            }
                            _ => None,
                        };
                        if let Some(wk) = lost {
                            let why = match wk {
                                WhereKind::Subquery => "subquery",
                                _ => "folded-by-optimizer",
                            };
                            classified(rep, &format!("where-clause-lost/{kind}/{why}"), h.witness(&format!("the engine behaved as if the statement had no WHERE clause: every row was counted/affected (generator category of the condition: {wk:?})"), detail));
                            // re-synchronise on the engine's state so that the rest of the history still tests something
                            model.tabs[tab] = obs_t.into_iter().map(|vals| MRow { vals, origin: None }).collect();
                            continue;
                        }
                        let sig = if !count_ok && rows_ok { "count-mismatch" } else if count_ok { "contents-mismatch" } else { "count-and-contents-mismatch" };
                        rep.count("unclassified-violations", 1);
                        rep.violation(&format!("{sig}/{kind}"), h.witness("reported count / table contents differ from the sequential model", detail));
                        return;
                    }
                    // ---- evidence about what was exercised
                    match &st {
                        Stmt::Update { sets, alias, where_, .. } => {
                            if sets.len() >= 2 && ec > 0 {
                                let assigned: Vec<usize> = sets.iter().map(|s| s.0).collect();
                                let mut cross = false;
                                for (i, (c, e)) in sets.iter().enumerate() {
                                    dfv::refint::walk_expr(e, &mut |x| {
                                        if let Expr::Col { name, .. } = x {
                                            if assigned.iter().enumerate().any(|(j, a)| j != i && COLS[*a].0 == name && *a != *c) {
                                                cross = true;
                                            }
                                        }
                                    });
                                }
                                if cross {
                                    rep.count("update/assignment-reads-another-assigned-column", 1);
                                }
                            }
                            if ec > 0 && sets.iter().any(|(_, e)| matches!(e, Expr::Lit(..))) {
                                rep.count("update/scalar-assignment", 1);
                            }
                            if ec > 0 && alias.is_some() {
                                rep.count("update/through-alias", 1);
                            }
                            if exp.null_result {
                                rep.count("update/null-result", 1);
                            }
                            if where_.is_some() && exp.truth.n > 0 && exp.truth.t > 0 {
                                rep.count("update/where-null-and-true-rows", 1);
                            }
                        }
                        Stmt::Delete { .. } => {
                            if exp.emptied_batch {
                                rep.count("delete/emptied-a-batch", 1);
                            }
                            if exp.rows.is_empty() && ec > 0 {
                                rep.count("delete/emptied-the-table", 1);
                            }
                            if exp.truth.n > 0 {
                                rep.count("delete/where-null-rows-kept", 1);
                            }
                        }
                        Stmt::InsertSelect { src, .. } if *src == tab && ec > 0 => rep.count("insert/select-from-same-table", 1),
                        Stmt::InsertValues { cols: Some(_), .. } => rep.count("insert/column-subset", 1),
                        _ => {}
                    }
                    if model.tabs[tab].is_empty() && ec > 0 {
                        rep.count("insert/into-empty-table", 1);
                    }
                    if exp.partitions_touched >= 2 {
                        rep.count("affected-rows-in-2+-partitions", 1);
                    }
                    model.tabs[tab] = exp.rows;
                } else {
                    // a read
                    let exp_rows: Vec<Row> = exp.rows.iter().map(|r| r.vals.clone()).collect();
                    if !multiset_eq(&out_rows, &exp_rows) {
                        if let Stmt::Read { where_: Some(w), .. } = &st {
                            if let Some(why) = plain_select_disagrees(&model, tab, &None, w).await {
                                classified(rep, &format!("where-evaluated-differently-by-plain-select/{why}"), h.witness("SELECT * .. WHERE selects other rows than three-valued logic (also in a fresh single-partition session)", json!({"expected_rows": rows_to_json(&exp_rows), "observed_rows": rows_to_json(&out_rows)})));
                                continue;
                            }
                        }
                        rep.count("unclassified-violations", 1);
                        rep.violation("read-mismatch/select", h.witness("SELECT * .. WHERE differs from the model's rows", json!({"expected_rows": rows_to_json(&exp_rows), "observed_rows": rows_to_json(&out_rows)})));
                        return;
                    }
                }
            }
        })
    });
    if let Err(p) = res {
        rep.violation("engine-panic", h.witness("panic while running the history", json!({"panic": p})));
    }
    rep.case(fp, nontrivial);
    rep.count("statements-per-history-total", h.sqls.len() as u64);
    if rep.want_sample() && nontrivial && h.sqls.len() >= 6 {
        rep.sample(json!({"statements": h.sqls, "tables": h.db0}));
    }
}

fn run(args: &Args) -> i32 {
    let rep = Report::new("C39", "exploration", args);
    rep.set_rule("case = history of 4-12 INSERT VALUES / INSERT SELECT / UPDATE / DELETE / SELECT statements over two 6-column MemTables (0-10 rows, NULLs, 1-4 partitions, batches of 1-4 rows, explicit empty batches) run through SessionContext::sql and through a sequential row-vector model (3VL WHERE, simultaneous assignment, reference expression evaluator); after every statement the reported count and both tables (multisets) are compared; distinct = hash(tables + SQL texts); non-trivial = at least one compared DML affected >= 1 row");
    rep.assume("the reference expression evaluator (dfv::refint) encodes SQL 3VL and the engine's integer/float conventions; values stay far from overflow");
    rep.assume("each statement is planned and collected exactly once (MemTable applies DELETE/UPDATE while the physical plan is created); after an execution error the history continues only if the target table still equals the model");
    let selftest = args.opt_u64("selftest", 0);
    let n_sys = args.bound("systematic", N_TEMPLATES * N_TEMPLATES * 2, N_TEMPLATES * N_TEMPLATES * 4);
    let n_rand = args.bound("histories", 4_000, 600_000);
    vcommon::par::run(args.workers, 0..n_sys, |i| {
        let mut rng = Rng::derive(0xC39, &[0, i]);
        history(&rep, &mut rng, Some(i), selftest);
    });
    for k in ["insert-values", "insert-select", "update", "delete", "select"] {
        rep.obligation(&format!("kind:{k}"), rep.get_count(&format!("stmt/{k}")) > 0, "statement kind compared at least once in the systematic part");
    }
    for k in [
        "update/assignment-reads-another-assigned-column",
        "update/scalar-assignment",
        "update/through-alias",
        "update/null-result",
        "update/where-null-and-true-rows",
        "delete/emptied-a-batch",
        "delete/emptied-the-table",
        "delete/where-null-rows-kept",
        "insert/select-from-same-table",
        "insert/column-subset",
        "insert/into-empty-table",
        "affected-rows-in-2+-partitions",
    ] {
        rep.obligation(k, rep.get_count(k) > 0, "situation observed (and compared) at least once in the systematic part");
    }
    vcommon::par::run(args.workers, 0..n_rand, |i| {
        if rep.get_count("unclassified-violations") > 40 {
            return;
        }
        let mut rng = Rng::derive(args.seed, &[39, 1, i]);
        history(&rep, &mut rng, None, selftest);
    });
    let stmts: u64 = ["insert-values", "insert-select", "update", "delete", "select"].iter().map(|k| rep.get_count(&format!("stmt/{k}"))).sum();
    rep.obligation("compared-statements", stmts >= (n_sys + n_rand) * 3, "on average at least 3 statements per history must be compared");
    rep.finish()
}

fn main() {
    let args = Args::parse();
    vcommon::par::quiet_panics();
    std::process::exit(run(&args));
}
