//! C08 — sorting, merging and TopK return correctly ordered results.
//!
//! Sort operators are built DIRECTLY (`SortExec` ± fetch ± preserve_partitioning,
//! `SortPreservingMergeExec`, `PartialSortExec`, `SortExec(fetch)`+merge = TopK with its shared
//! dynamic filter) and through SQL `ORDER BY [LIMIT]` (MemTable and Parquet sources). The oracle
//! never sorts with the engine: it checks (1) permutation by unique ids + unchanged row content,
//! (2) adjacent order under an independent comparator, (3) fetch-k against the first k sort-key
//! tuples of a reference order (ties free), (4) merges contain every input row.

use arrow::array::{ArrayRef, Float32Array, Float64Array, Int32Array, Int64Array, StringArray, StringViewArray};
use arrow::compute::SortOptions;
use arrow::datatypes::{DataType, Field, Schema, SchemaRef};
use arrow::record_batch::RecordBatch;
use datafusion::datasource::MemTable;
use datafusion::execution::TaskContext;
use datafusion::execution::memory_pool::{FairSpillPool, GreedyMemoryPool, MemoryPool};
use datafusion::execution::runtime_env::{RuntimeEnv, RuntimeEnvBuilder};
use datafusion::prelude::{ParquetReadOptions, SessionConfig, SessionContext};
use datafusion_datasource::memory::MemorySourceConfig;
use datafusion_datasource::source::DataSourceExec;
use datafusion_physical_expr::expressions::Column;
use datafusion_physical_expr::{LexOrdering, PhysicalSortExpr};
use datafusion_physical_plan::coalesce_partitions::CoalescePartitionsExec;
use datafusion_physical_plan::sorts::partial_sort::PartialSortExec;
use datafusion_physical_plan::sorts::sort::SortExec;
use datafusion_physical_plan::sorts::sort_preserving_merge::SortPreservingMergeExec;
use datafusion_physical_plan::{ExecutionPlan, collect_partitioned, displayable};
use dfv::engine::{ErrClass, batches_to_rows, classify, current_thread_rt};
use dfv::value::{Row, Ty, Value, rows_to_json};
use std::cmp::Ordering;
use std::collections::{BTreeMap, HashMap};
use std::sync::atomic::{AtomicU64, Ordering as AO};
use std::sync::{Arc, Mutex};
use vcommon::{Args, Json, Report, Rng, fp_str, json};

// ------------------------------------------------------------------------------------------
// case description

#[derive(Clone, Copy, Debug, PartialEq, Eq)]
enum KTy {
    I32,
    I64,
    F64,
    F32,
    Utf8,
    Utf8View,
    Dict,
}

const KTYS: [KTy; 7] = [KTy::I32, KTy::I64, KTy::F64, KTy::F32, KTy::Utf8, KTy::Utf8View, KTy::Dict];

impl KTy {
    fn name(self) -> &'static str {
        match self {
            KTy::I32 => "Int32",
            KTy::I64 => "Int64",
            KTy::F64 => "Float64",
            KTy::F32 => "Float32",
            KTy::Utf8 => "Utf8",
            KTy::Utf8View => "Utf8View",
            KTy::Dict => "Dictionary(Int32,Utf8)",
        }
    }
    fn parse(s: &str) -> KTy {
        KTYS.iter().copied().find(|k| k.name() == s).unwrap_or(KTy::I32)
    }
    fn arrow(self) -> DataType {
        match self {
            KTy::I32 => DataType::Int32,
            KTy::I64 => DataType::Int64,
            KTy::F64 => DataType::Float64,
            KTy::F32 => DataType::Float32,
            KTy::Utf8 => DataType::Utf8,
            KTy::Utf8View => DataType::Utf8View,
            KTy::Dict => DataType::Dictionary(Box::new(DataType::Int32), Box::new(DataType::Utf8)),
        }
    }
    fn value_ty(self) -> Ty {
        match self {
            KTy::I32 | KTy::I64 => Ty::Int,
            KTy::F64 | KTy::F32 => Ty::Float,
            _ => Ty::Str,
        }
    }
}

#[derive(Clone, Copy, Debug, PartialEq, Eq)]
enum Op {
    /// SortExec over ONE (coalesced) partition
    Sort,
    /// SortExec(preserve_partitioning) — every partition sorted on its own (no fetch)
    SortPerPartition,
    /// SortExec(preserve_partitioning, fetch) + SortPreservingMergeExec(fetch): the TopK plan shape
    TopKMerge,
    /// SortPreservingMergeExec over partitions pre-sorted by the harness
    Merge,
    /// PartialSortExec over an input sorted on the first `prefix` keys
    PartialSort,
    /// SQL ORDER BY [LIMIT] over a MemTable
    Sql,
    /// SQL ORDER BY LIMIT over Parquet files with filter pushdown (dynamic filter reaches the source)
    SqlParquet,
}

const OPS: [Op; 7] = [Op::Sort, Op::SortPerPartition, Op::TopKMerge, Op::Merge, Op::PartialSort, Op::Sql, Op::SqlParquet];

impl Op {
    fn name(self) -> &'static str {
        match self {
            Op::Sort => "SortExec",
            Op::SortPerPartition => "SortExec:preserve_partitioning",
            Op::TopKMerge => "SortExec:preserve_partitioning+fetch>SortPreservingMergeExec",
            Op::Merge => "SortPreservingMergeExec",
            Op::PartialSort => "PartialSortExec",
            Op::Sql => "SQL:MemTable",
            Op::SqlParquet => "SQL:Parquet+pushdown",
        }
    }
    fn parse(s: &str) -> Op {
        OPS.iter().copied().find(|o| o.name() == s).unwrap_or(Op::Sort)
    }
}

#[derive(Clone, Copy, Debug, PartialEq, Eq)]
struct SortKey {
    col: usize,
    desc: bool,
    nulls_first: bool,
}

/// Row layout: key columns c0..c{n-1}, payload `p` (Utf8), `id` (Int64, unique, NOT NULL).
#[derive(Clone, Debug)]
struct Case {
    ktys: Vec<KTy>,
    rows: Vec<Row>,
    keys: Vec<SortKey>,
    op: Op,
    fetch: Option<usize>,
    /// PartialSort: number of leading sort keys the input is already sorted on
    prefix: usize,
    parts: usize,
    /// rows per source batch; 0 = one batch per partition
    in_batch: usize,
    batch_size: usize,
    target_partitions: usize,
    /// memory pool: ("fair" | "greedy", bytes)
    pool: Option<(bool, usize)>,
    spill_reservation: Option<usize>,
    in_place_threshold: Option<usize>,
    /// SQL: `enable_topk_dynamic_filter_pushdown = false` (only used to localise a deviation)
    no_topk_filter: bool,
}

impl Case {
    fn ncols(&self) -> usize {
        self.ktys.len() + 2
    }
    fn id_col(&self) -> usize {
        self.ktys.len() + 1
    }
    fn col_name(&self, c: usize) -> String {
        if c < self.ktys.len() {
            format!("c{c}")
        } else if c == self.ktys.len() {
            "p".into()
        } else {
            "id".into()
        }
    }
    fn schema(&self) -> SchemaRef {
        let mut f: Vec<Field> = self.ktys.iter().enumerate().map(|(i, t)| Field::new(format!("c{i}"), t.arrow(), true)).collect();
        f.push(Field::new("p", DataType::Utf8, false));
        f.push(Field::new("id", DataType::Int64, false));
        Arc::new(Schema::new(f))
    }
    fn to_json(&self) -> Json {
        json!({
            "key_types": self.ktys.iter().map(|k| k.name()).collect::<Vec<_>>(),
            "rows": rows_to_json(&self.rows),
            "sort_keys": self.keys.iter().map(|k| json!({"col": k.col, "desc": k.desc, "nulls_first": k.nulls_first})).collect::<Vec<_>>(),
            "op": self.op.name(), "fetch": self.fetch, "prefix": self.prefix, "parts": self.parts, "in_batch": self.in_batch,
            "batch_size": self.batch_size, "target_partitions": self.target_partitions,
            "pool": self.pool.map(|(fair, n)| json!([if fair { "fair" } else { "greedy" }, n])),
            "sort_spill_reservation_bytes": self.spill_reservation, "sort_in_place_threshold_bytes": self.in_place_threshold,
            "no_topk_filter": self.no_topk_filter,
        })
    }
    fn from_json(j: &Json) -> Option<Case> {
        let ktys: Vec<KTy> = j.get("key_types")?.as_array()?.iter().map(|s| KTy::parse(s.as_str().unwrap_or(""))).collect();
        let mut rows = vec![];
        for r in j.get("rows")?.as_array()? {
            let r = r.as_array()?;
            let mut row: Row = vec![];
            for (i, v) in r.iter().enumerate() {
                let ty = if i < ktys.len() { ktys[i].value_ty() } else if i == ktys.len() { Ty::Str } else { Ty::Int };
                row.push(Value::from_json(v, ty));
            }
            rows.push(row);
        }
        let u = |k: &str| j.get(k).and_then(|x| x.as_u64()).map(|x| x as usize);
        Some(Case {
            ktys,
            rows,
            keys: j
                .get("sort_keys")?
                .as_array()?
                .iter()
                .map(|k| SortKey { col: k["col"].as_u64().unwrap_or(0) as usize, desc: k["desc"].as_bool().unwrap_or(false), nulls_first: k["nulls_first"].as_bool().unwrap_or(false) })
                .collect(),
            op: Op::parse(j.get("op")?.as_str()?),
            fetch: u("fetch"),
            prefix: u("prefix").unwrap_or(1),
            parts: u("parts").unwrap_or(1).max(1),
            in_batch: u("in_batch").unwrap_or(0),
            batch_size: u("batch_size").unwrap_or(8192).max(1),
            target_partitions: u("target_partitions").unwrap_or(1).max(1),
            pool: j.get("pool").and_then(|p| p.as_array()).map(|p| (p[0].as_str() == Some("fair"), p[1].as_u64().unwrap_or(0) as usize)),
            spill_reservation: u("sort_spill_reservation_bytes"),
            in_place_threshold: u("sort_in_place_threshold_bytes"),
            no_topk_filter: j.get("no_topk_filter").and_then(|x| x.as_bool()).unwrap_or(false),
        })
    }
    fn fingerprint(&self) -> u64 {
        fp_str(&self.to_json().to_string())
    }
    fn order_by_sql(&self) -> String {
        self.keys.iter().map(|k| format!("c{} {} NULLS {}", k.col, if k.desc { "DESC" } else { "ASC" }, if k.nulls_first { "FIRST" } else { "LAST" })).collect::<Vec<_>>().join(", ")
    }
    fn sql(&self) -> String {
        format!("SELECT * FROM t ORDER BY {}{}", self.order_by_sql(), self.fetch.map(|k| format!(" LIMIT {k}")).unwrap_or_default())
    }
}

// ------------------------------------------------------------------------------------------
// ORACLE: independent comparator implementing the documented total order

/// floats: -inf < .. < -0.0 < +0.0 < .. < +inf < NaN  (written out; no `total_cmp`)
fn float_cmp(a: f64, b: f64) -> Ordering {
    match (a.is_nan(), b.is_nan()) {
        (true, true) => Ordering::Equal,
        (true, false) => Ordering::Greater,
        (false, true) => Ordering::Less,
        _ => {
            if a < b {
                Ordering::Less
            } else if a > b {
                Ordering::Greater
            } else {
                // numerically equal: only the zeros differ in sign
                match (a.is_sign_negative(), b.is_sign_negative()) {
                    (true, false) => Ordering::Less,
                    (false, true) => Ordering::Greater,
                    _ => Ordering::Equal,
                }
            }
        }
    }
}

fn key_cmp(a: &Value, b: &Value, k: &SortKey) -> Ordering {
    key_cmp_z(a, b, k, false)
}

/// `zeros_tie`: treat -0.0 and +0.0 as a tie (NOT the documented order; only used to key a deviation)
fn key_cmp_z(a: &Value, b: &Value, k: &SortKey, zeros_tie: bool) -> Ordering {
    match (a, b) {
        (Value::Null, Value::Null) => Ordering::Equal,
        (Value::Null, _) => if k.nulls_first { Ordering::Less } else { Ordering::Greater },
        (_, Value::Null) => if k.nulls_first { Ordering::Greater } else { Ordering::Less },
        _ => {
            let o = match (a, b) {
                (Value::Int(x), Value::Int(y)) => x.cmp(y),
                (Value::Float(x), Value::Float(y)) if zeros_tie && *x == 0.0 && *y == 0.0 => Ordering::Equal,
                (Value::Float(x), Value::Float(y)) => float_cmp(*x, *y),
                (Value::Str(x), Value::Str(y)) => x.as_bytes().cmp(y.as_bytes()),
                _ => Ordering::Equal,
            };
            if k.desc { o.reverse() } else { o }
        }
    }
}

fn row_cmp(a: &Row, b: &Row, keys: &[SortKey]) -> Ordering {
    for k in keys {
        let o = key_cmp(&a[k.col], &b[k.col], k);
        if o != Ordering::Equal {
            return o;
        }
    }
    Ordering::Equal
}

fn key_tuple(r: &Row, keys: &[SortKey]) -> Json {
    Json::Array(keys.iter().map(|k| r[k.col].to_json()).collect())
}

/// The four checks. `input` = rows the operator was given, `out` = what it produced.
/// Err((signature-kind, explanation)).
fn check(c: &Case, input: &[&Row], out: &[Row], fetch: Option<usize>) -> Result<(), (&'static str, String)> {
    let idc = c.id_col();
    let by_id: HashMap<i64, &Row> = input.iter().filter_map(|r| if let Value::Int(i) = r[idc] { Some((i, *r)) } else { None }).collect();
    // (1)/(4) permutation: ids unique, known, row content untouched
    let mut seen: HashMap<i64, usize> = HashMap::new();
    for (pos, r) in out.iter().enumerate() {
        if r.len() != c.ncols() {
            return Err(("column-count", format!("output row {pos} has {} columns, input has {}", r.len(), c.ncols())));
        }
        let Value::Int(id) = r[idc] else { return Err(("row-altered", format!("output row {pos} has a NULL/non-integer id"))) };
        if let Some(prev) = seen.insert(id, pos) {
            return Err(("duplicated-row", format!("id {id} appears at output positions {prev} and {pos}")));
        }
        match by_id.get(&id) {
            None => return Err(("invented-row", format!("output row {pos} carries id {id} which is not in the input"))),
            Some(src) => {
                if *src != r {
                    return Err(("row-altered", format!("row id {id}: input {:?} vs output {:?}", src, r)));
                }
            }
        }
    }
    let want = fetch.map(|k| k.min(input.len())).unwrap_or(input.len());
    if out.len() != want {
        return Err((if fetch.is_some() { "wrong-fetch-count" } else { "lost-rows" }, format!("{} output rows, expected {want} (input {} rows, fetch {:?})", out.len(), input.len(), fetch)));
    }
    // (2) adjacent rows ordered
    for (i, w) in out.windows(2).enumerate() {
        if row_cmp(&w[0], &w[1], &c.keys) == Ordering::Greater {
            return Err(("not-sorted", format!("positions {i},{}: keys {} before {}", i + 1, key_tuple(&w[0], &c.keys), key_tuple(&w[1], &c.keys))));
        }
    }
    // (3) fetch: sort-key tuples equal the first k of the reference order (ties free)
    if fetch.is_some() {
        let mut reference: Vec<&Row> = input.to_vec();
        reference.sort_by(|a, b| row_cmp(a, b, &c.keys));
        for (i, r) in out.iter().enumerate() {
            if row_cmp(r, reference[i], &c.keys) != Ordering::Equal {
                // keyed deviation: the output is a valid top k as soon as the two zeros count as a tie
                let coarse = |a: &Row, b: &Row| c.keys.iter().map(|k| key_cmp_z(&a[k.col], &b[k.col], k, true)).find(|o| *o != Ordering::Equal).unwrap_or(Ordering::Equal);
                if out.iter().zip(reference.iter()).all(|(o, r)| coarse(o, r) == Ordering::Equal) {
                    return Err(("topk-boundary-ignores-zero-sign", format!("position {i}: keys {} but the reference order has {}; valid only if -0.0 and +0.0 tie", key_tuple(r, &c.keys), key_tuple(reference[i], &c.keys))));
                }
                return Err(("wrong-topk", format!("position {i}: keys {} but the reference order has {}", key_tuple(r, &c.keys), key_tuple(reference[i], &c.keys))));
            }
        }
    }
    Ok(())
}

// ------------------------------------------------------------------------------------------
// engine side

fn key_array(rows: &[&Row], c: usize, ty: KTy) -> ArrayRef {
    let s = |r: &&Row| if let Value::Str(s) = &r[c] { Some(s.clone()) } else { None };
    let f = |r: &&Row| if let Value::Float(f) = &r[c] { Some(*f) } else { None };
    let i = |r: &&Row| if let Value::Int(i) = &r[c] { Some(*i) } else { None };
    match ty {
        KTy::I32 => Arc::new(Int32Array::from_iter(rows.iter().map(|r| i(r).map(|x| x as i32)))),
        KTy::I64 => Arc::new(Int64Array::from_iter(rows.iter().map(i))),
        KTy::F64 => Arc::new(Float64Array::from_iter(rows.iter().map(f))),
        KTy::F32 => Arc::new(Float32Array::from_iter(rows.iter().map(|r| f(r).map(|x| x as f32)))),
        KTy::Utf8 => Arc::new(StringArray::from_iter(rows.iter().map(s))),
        KTy::Utf8View => Arc::new(StringViewArray::from_iter(rows.iter().map(s))),
        KTy::Dict => {
            let plain: ArrayRef = Arc::new(StringArray::from_iter(rows.iter().map(s)));
            arrow::compute::cast(&plain, &KTy::Dict.arrow()).expect("dictionary cast")
        }
    }
}

fn to_batch(c: &Case, schema: &SchemaRef, rows: &[&Row]) -> RecordBatch {
    let mut cols: Vec<ArrayRef> = c.ktys.iter().enumerate().map(|(i, t)| key_array(rows, i, *t)).collect();
    let n = c.ktys.len();
    cols.push(Arc::new(StringArray::from_iter_values(rows.iter().map(|r| if let Value::Str(s) = &r[n] { s.as_str() } else { "" }))));
    cols.push(Arc::new(Int64Array::from_iter_values(rows.iter().map(|r| if let Value::Int(i) = &r[n + 1] { *i } else { -1 }))));
    RecordBatch::try_new(schema.clone(), cols).expect("harness batch")
}

/// input partitions (row refs); merge / partial-sort inputs get the order the operator relies on
fn partitions(c: &Case) -> Vec<Vec<&Row>> {
    let n = c.parts.max(1);
    let mut parts: Vec<Vec<&Row>> = vec![vec![]; n];
    for (i, r) in c.rows.iter().enumerate() {
        // interleaved assignment so that every partition sees the whole key range
        parts[i % n].push(r);
    }
    match c.op {
        Op::Merge => parts.iter_mut().for_each(|p| p.sort_by(|a, b| row_cmp(a, b, &c.keys))),
        Op::PartialSort => {
            let pre = &c.keys[..c.prefix.min(c.keys.len())];
            parts.iter_mut().for_each(|p| p.sort_by(|a, b| row_cmp(a, b, pre)));
        }
        _ => {}
    }
    parts
}

fn batches(c: &Case, parts: &[Vec<&Row>]) -> Vec<Vec<RecordBatch>> {
    let schema = c.schema();
    parts
        .iter()
        .enumerate()
        .map(|(pi, p)| {
            if p.is_empty() {
                return if pi % 2 == 0 { vec![] } else { vec![to_batch(c, &schema, &[])] };
            }
            let sz = if c.in_batch == 0 { p.len() } else { c.in_batch };
            p.chunks(sz).map(|ch| to_batch(c, &schema, ch)).collect()
        })
        .collect()
}

fn lex(c: &Case, keys: &[SortKey]) -> Option<LexOrdering> {
    LexOrdering::new(keys.iter().map(|k| PhysicalSortExpr::new(Arc::new(Column::new(&c.col_name(k.col), k.col)), SortOptions::new(k.desc, k.nulls_first))))
}

fn session_config(c: &Case) -> SessionConfig {
    let mut cfg = SessionConfig::new().with_batch_size(c.batch_size).with_target_partitions(c.target_partitions).with_information_schema(false);
    if let Some(r) = c.spill_reservation {
        cfg = cfg.with_sort_spill_reservation_bytes(r);
    }
    if let Some(t) = c.in_place_threshold {
        cfg = cfg.with_sort_in_place_threshold_bytes(t);
    }
    if c.no_topk_filter {
        cfg.options_mut().optimizer.enable_topk_dynamic_filter_pushdown = false;
    }
    cfg
}

fn runtime(c: &Case) -> datafusion_common::Result<Arc<RuntimeEnv>> {
    match c.pool {
        None => RuntimeEnvBuilder::new().build_arc(),
        Some((fair, n)) => {
            let pool: Arc<dyn MemoryPool> = if fair { Arc::new(FairSpillPool::new(n)) } else { Arc::new(GreedyMemoryPool::new(n)) };
            RuntimeEnvBuilder::new().with_memory_pool(pool).build_arc()
        }
    }
}

fn sum_spills(plan: &Arc<dyn ExecutionPlan>) -> (usize, usize) {
    let (mut n, mut rows) = plan.metrics().map(|m| (m.spill_count().unwrap_or(0), m.spilled_rows().unwrap_or(0))).unwrap_or((0, 0));
    for ch in plan.children() {
        let (a, b) = sum_spills(ch);
        n += a;
        rows += b;
    }
    (n, rows)
}

struct Observed {
    /// output rows per output partition
    parts: Vec<Vec<Row>>,
    spill_count: usize,
    spilled_rows: usize,
    /// the plan text shows a DynamicFilter inside the data source
    dynamic_filter_at_source: bool,
    plan: String,
}

async fn run_physical(c: &Case) -> datafusion_common::Result<Observed> {
    let parts = partitions(c);
    let bs = batches(c, &parts);
    let schema = c.schema();
    let full = lex(c, &c.keys).ok_or_else(|| datafusion_common::DataFusionError::Plan("empty ordering".into()))?;
    let mut src = MemorySourceConfig::try_new(&bs, schema.clone(), None)?;
    match c.op {
        Op::Merge => src = src.try_with_sort_information(vec![full.clone()])?,
        Op::PartialSort => {
            if let Some(pre) = lex(c, &c.keys[..c.prefix.min(c.keys.len())]) {
                src = src.try_with_sort_information(vec![pre])?;
            }
        }
        _ => {}
    }
    let src: Arc<dyn ExecutionPlan> = DataSourceExec::from_data_source(src);
    let plan: Arc<dyn ExecutionPlan> = match c.op {
        Op::Sort => {
            let input: Arc<dyn ExecutionPlan> = if bs.len() > 1 { Arc::new(CoalescePartitionsExec::new(src)) } else { src };
            Arc::new(SortExec::new(full, input).with_fetch(c.fetch))
        }
        Op::SortPerPartition => Arc::new(SortExec::new(full, src).with_preserve_partitioning(true).with_fetch(c.fetch)),
        Op::TopKMerge => {
            let s = Arc::new(SortExec::new(full.clone(), src).with_preserve_partitioning(true).with_fetch(c.fetch));
            Arc::new(SortPreservingMergeExec::new(full, s).with_fetch(c.fetch))
        }
        Op::Merge => Arc::new(SortPreservingMergeExec::new(full, src).with_fetch(c.fetch)),
        Op::PartialSort => {
            let p = PartialSortExec::new(full.clone(), src, c.prefix.min(c.keys.len()).max(1)).with_fetch(c.fetch);
            if bs.len() > 1 {
                // every input partition is sorted on the prefix: partial sort per partition, then merge
                Arc::new(SortPreservingMergeExec::new(full, Arc::new(p.with_preserve_partitioning(true))).with_fetch(c.fetch))
            } else {
                Arc::new(p)
            }
        }
        Op::Sql | Op::SqlParquet => unreachable!(),
    };
    let ctx = Arc::new(TaskContext::default().with_session_config(session_config(c)).with_runtime(runtime(c)?));
    let out = collect_partitioned(plan.clone(), ctx).await?;
    let (spill_count, spilled_rows) = sum_spills(&plan);
    Ok(Observed { parts: out.iter().map(|b| batches_to_rows(b)).collect(), spill_count, spilled_rows, dynamic_filter_at_source: false, plan: String::new() })
}

async fn run_sql(c: &Case, dir: Option<&std::path::Path>) -> datafusion_common::Result<Observed> {
    let mut cfg = session_config(c);
    if c.op == Op::SqlParquet {
        cfg.options_mut().execution.parquet.pushdown_filters = true;
    }
    let ctx = SessionContext::new_with_config_rt(cfg, runtime(c)?);
    let parts = partitions(c);
    let bs = batches(c, &parts);
    match (c.op, dir) {
        (Op::SqlParquet, Some(dir)) => {
            for (i, p) in bs.iter().enumerate() {
                let f = std::fs::File::create(dir.join(format!("part-{i}.parquet"))).map_err(|e| datafusion_common::DataFusionError::External(Box::new(e)))?;
                let props = parquet::file::properties::WriterProperties::builder().set_max_row_group_row_count(Some(7)).build();
                let mut w = parquet::arrow::ArrowWriter::try_new(f, c.schema(), Some(props))?;
                for b in p {
                    w.write(b)?;
                }
                w.close()?;
            }
            ctx.register_parquet("t", dir.to_string_lossy().as_ref(), ParquetReadOptions::default()).await?;
        }
        _ => {
            ctx.register_table("t", Arc::new(MemTable::try_new(c.schema(), bs)?))?;
        }
    }
    // explicit column list: the Parquet reader may hand back a different physical string type
    let cols = (0..c.ncols()).map(|i| c.col_name(i)).collect::<Vec<_>>().join(", ");
    let sql = c.sql().replace("SELECT *", &format!("SELECT {cols}"));
    let df = ctx.sql(&sql).await?;
    let plan = df.create_physical_plan().await?;
    let out = datafusion_physical_plan::collect(plan.clone(), ctx.task_ctx()).await?;
    let text = displayable(plan.as_ref()).indent(false).to_string();
    let (spill_count, spilled_rows) = sum_spills(&plan);
    let dynamic_filter_at_source = text.lines().any(|l| l.contains("DataSourceExec") && l.contains("DynamicFilter"));
    Ok(Observed { parts: vec![batches_to_rows(&out)], spill_count, spilled_rows, dynamic_filter_at_source, plan: text })
}

enum Outcome {
    Ran(Observed),
    Failed(datafusion_common::DataFusionError),
    Timeout,
}

fn execute(c: &Case) -> Outcome {
    let rt = current_thread_rt();
    let tmp = if c.op == Op::SqlParquet { tempfile::tempdir().ok() } else { None };
    let res = rt.block_on(async {
        let fut = async {
            match c.op {
                Op::Sql | Op::SqlParquet => run_sql(c, tmp.as_ref().map(|t| t.path())).await,
                _ => run_physical(c).await,
            }
        };
        tokio::time::timeout(std::time::Duration::from_secs(120), fut).await
    });
    match res {
        Err(_) => Outcome::Timeout,
        Ok(Err(e)) => Outcome::Failed(e),
        Ok(Ok(o)) => Outcome::Ran(o),
    }
}

// ------------------------------------------------------------------------------------------
// monitor

#[derive(Default)]
struct Matrix(Mutex<BTreeMap<String, BTreeMap<String, u64>>>);

impl Matrix {
    fn add(&self, a: &str, b: &str) {
        *self.0.lock().unwrap().entry(a.into()).or_default().entry(b.into()).or_insert(0) += 1;
    }
}

static UNCLASSIFIED: AtomicU64 = AtomicU64::new(0);
static STOP: std::sync::atomic::AtomicBool = std::sync::atomic::AtomicBool::new(false);

fn witness(c: &Case, o: Option<&Observed>, note: &str) -> Json {
    json!({"case": c.to_json(), "sql": if matches!(c.op, Op::Sql | Op::SqlParquet) { json!(c.sql()) } else { Json::Null },
        "observed_partitions": o.map(|o| o.parts.iter().map(|p| rows_to_json(p)).collect::<Vec<_>>()),
        "plan": o.map(|o| o.plan.clone()), "note": note, "replay": "c08 C08 --replay <this file>"})
}

/// all checks of one executed case; Err((signature, note))
fn verdict(c: &Case, o: &Observed) -> Result<(), (String, String)> {
    let parts = partitions(c);
    let all: Vec<&Row> = c.rows.iter().collect();
    // the keyed TopK deviation carries no operator suffix: one root cause, one signature
    let tag = |(k, why): (&'static str, String), scope: &str| (if k == "topk-boundary-ignores-zero-sign" { k.to_string() } else { format!("{k}/{}", c.op.name()) }, format!("{scope}{why}"));
    match c.op {
        Op::SortPerPartition => {
            if o.parts.len() != parts.len() {
                return Err((format!("partition-count/{}", c.op.name()), format!("{} output partitions for {} input partitions", o.parts.len(), parts.len())));
            }
            for (i, (inp, out)) in parts.iter().zip(&o.parts).enumerate() {
                match c.fetch {
                    // every partition on its own is a sorted permutation of its input partition
                    None => check(c, inp, out, None).map_err(|e| tag(e, &format!("partition {i}: ")))?,
                    // with a fetch the partitions share one TopK threshold: a partition may legitimately omit rows
                    // that cannot be in the global top k, so only soundness is demanded per partition
                    Some(k) => {
                        check(c, inp, out, Some(out.len())).or_else(|e| if e.0 == "wrong-topk" || e.0 == "topk-boundary-ignores-zero-sign" { Ok(()) } else { Err(e) }).map_err(|e| tag(e, &format!("partition {i}: ")))?;
                        if out.len() > k {
                            return Err((format!("wrong-fetch-count/{}", c.op.name()), format!("partition {i} emitted {} rows for fetch {k}", out.len())));
                        }
                    }
                }
            }
            // ... and together they must still contain a valid global top k
            if let Some(k) = c.fetch {
                let mut merged: Vec<Row> = o.parts.iter().flatten().cloned().collect();
                merged.sort_by(|a, b| row_cmp(a, b, &c.keys));
                merged.truncate(k);
                check(c, &all, &merged, Some(k)).map_err(|e| tag(e, "union of the partitions' outputs, re-sorted and cut to k: "))?;
            }
            Ok(())
        }
        _ => {
            if o.parts.len() != 1 {
                return Err((format!("partition-count/{}", c.op.name()), format!("{} output partitions, expected 1", o.parts.len())));
            }
            check(c, &all, &o.parts[0], c.fetch).map_err(|e| tag(e, ""))
        }
    }
}

/// A classified (keyed) deviation: the first occurrences per signature are reported as violations
/// with full witnesses, the rest only counted (the report keeps at most 5 witnesses per signature).
fn classified(rep: &Report, sig: &str, detail: Json) {
    rep.count(&format!("deviation_occurrences/{sig}"), 1);
    if rep.get_count(&format!("deviation_occurrences/{sig}")) <= 5 {
        rep.violation(sig, detail);
    }
}

fn one_case(rep: &Report, mx: &Matrix, c: &Case, stage: &str, selftest: bool) {
    let fp = c.fingerprint();
    let out = match vcommon::par::guard(|| execute(c)) {
        Err(p) => {
            rep.case(fp, true);
            UNCLASSIFIED.fetch_add(1, AO::Relaxed);
            rep.violation(&format!("engine-panic/{}", c.op.name()), witness(c, None, &format!("panic: {p}")));
            return;
        }
        Ok(o) => o,
    };
    let mut obs = match out {
        Outcome::Timeout => {
            rep.case(fp, false);
            rep.inconclusive("a sort exceeded the 120 s wall-clock guard");
            return;
        }
        Outcome::Failed(e) => {
            rep.case(fp, false);
            match classify(&e) {
                ErrClass::ResourcesExhausted => rep.skip(&format!("resources-exhausted/{}", c.op.name())),
                ErrClass::NotImplemented => rep.skip(&format!("not-implemented/{}", c.op.name())),
                _ => {
                    UNCLASSIFIED.fetch_add(1, AO::Relaxed);
                    rep.violation(&format!("engine-error/{}", c.op.name()), witness(c, None, &format!("error: {}", e.to_string().chars().take(400).collect::<String>())));
                }
            }
            return;
        }
        Outcome::Ran(o) => o,
    };
    if selftest {
        // corrupt the OBSERVED output: swap the first adjacent pair with different keys, else drop a row
        let p = obs.parts.iter_mut().max_by_key(|p| p.len()).unwrap();
        match (0..p.len().saturating_sub(1)).find(|i| row_cmp(&p[*i], &p[*i + 1], &c.keys) != Ordering::Equal) {
            Some(i) => p.swap(i, i + 1),
            None => {
                p.pop();
            }
        }
    }
    rep.case(fp, c.rows.len() >= 2);
    rep.count(&format!("compared/{stage}"), 1);
    let fetch_label = match c.fetch {
        None => "no-fetch",
        Some(0) => "fetch=0",
        Some(k) if k >= c.rows.len() => "fetch>=n",
        Some(_) => "fetch<n",
    };
    mx.add(c.op.name(), fetch_label);
    for k in &c.keys {
        mx.add(&format!("key:{}", c.ktys[k.col].name()), &format!("{}/{}", if k.desc { "desc" } else { "asc" }, if k.nulls_first { "nulls_first" } else { "nulls_last" }));
    }
    rep.count(&format!("sort_keys={}", c.keys.len()), 1);
    rep.count(&format!("batch_size={}", c.batch_size), 1);
    if c.fetch.is_some() && c.op != Op::Merge {
        rep.count("topk_cases", 1);
    }
    if obs.dynamic_filter_at_source {
        rep.count("dynamic_filter_at_source_cases", 1);
    }
    if c.pool.is_some() {
        // only a run whose metrics report a spill counts as a spill case
        let bucket = match obs.spill_count {
            0 => "0",
            1 => "1",
            2..=3 => "2-3",
            4..=9 => "4-9",
            _ => "10+",
        };
        rep.count(&format!("spill_count_hist/{bucket}"), 1);
        if obs.spill_count > 0 {
            rep.count(&format!("spilled_runs/{stage}"), 1);
            rep.count("spilled_rows_total", obs.spilled_rows as u64);
            mx.add(c.op.name(), "spilled");
        }
    }
    match verdict(c, &obs) {
        Ok(()) => {
            if rep.want_sample() && c.rows.len() > 5 && (c.keys.len() > 1 || obs.spill_count > 0) {
                rep.sample(json!({"op": c.op.name(), "order_by": c.order_by_sql(), "key_types": c.ktys.iter().map(|k| k.name()).collect::<Vec<_>>(), "rows": c.rows.len(), "fetch": c.fetch,
                    "parts": c.parts, "batch_size": c.batch_size, "spill_count": obs.spill_count, "spilled_rows": obs.spilled_rows}));
            }
        }
        Err((sig, note)) => {
            if let Some((known, why)) = parquet_nan_model(c, &sig) {
                classified(rep, known, witness(c, Some(&obs), &format!("{sig}: {note}; {why}")));
                return;
            }
            if sig == "topk-boundary-ignores-zero-sign" {
                classified(rep, &sig, witness(c, Some(&obs), &format!("{}: {note}", c.op.name())));
                return;
            }
            if sig.starts_with("wrong-topk/") && zero_sign_localised(c) {
                classified(rep, "topk-boundary-ignores-zero-sign", witness(c, Some(&obs), &format!("{sig}: {note}; the same case passes all checks once every -0.0 is replaced by a tiny negative number (identical order)")));
                return;
            }
            UNCLASSIFIED.fetch_add(1, AO::Relaxed);
            rep.violation(&sig, witness(c, Some(&obs), &note));
        }
    }
}

/// Localisation of the TopK zero-sign deviation for multi-key orders: replace every -0.0 of the
/// float sort keys by a negative number of smaller magnitude than any other generated value. That
/// keeps the documented order of all rows unchanged; if the transformed case passes, the original
/// failure is due to the handling of the zero sign alone.
fn zero_sign_localised(c: &Case) -> bool {
    let is_neg_zero = |v: &Value| matches!(v, Value::Float(f) if *f == 0.0 && f.is_sign_negative());
    let float_keys: Vec<usize> = c.keys.iter().map(|k| k.col).filter(|col| matches!(c.ktys[*col], KTy::F64 | KTy::F32)).collect();
    if c.fetch.is_none() || !float_keys.iter().any(|col| c.rows.iter().any(|r| is_neg_zero(&r[*col]))) {
        return false;
    }
    let tiny = (-1e-40f64 as f32) as f64; // representable in both float widths
    let mut v = c.clone();
    for r in v.rows.iter_mut() {
        for col in &float_keys {
            if is_neg_zero(&r[*col]) {
                r[*col] = Value::Float(tiny);
            }
        }
    }
    matches!(vcommon::par::guard(|| execute(&v)), Ok(Outcome::Ran(o)) if verdict(&v, &o).is_ok())
}

/// Localisation of the two deviations that come from Parquet float statistics ignoring NaN while
/// the engine orders NaN above every number. Keyed only when (a) the data has a NaN in a float
/// column, (b) the same case over a MemTable passes all checks, and (c) the specific mechanism is
/// confirmed (constant-column shape / agreement once the TopK dynamic filter is off).
fn parquet_nan_model(c: &Case, sig: &str) -> Option<(&'static str, &'static str)> {
    if c.op != Op::SqlParquet {
        return None;
    }
    let is_nan = |v: &Value| matches!(v, Value::Float(f) if f.is_nan());
    let float_cols: Vec<usize> = (0..c.ktys.len()).filter(|i| matches!(c.ktys[*i], KTy::F64 | KTy::F32)).collect();
    if !float_cols.iter().any(|col| c.rows.iter().any(|r| is_nan(&r[*col]))) {
        return None;
    }
    let passes = |variant: &Case| matches!(vcommon::par::guard(|| execute(variant)), Ok(Outcome::Ran(o)) if verdict(variant, &o).is_ok());
    if !passes(&Case { op: Op::Sql, ..c.clone() }) {
        return None;
    }
    // a file whose float column is NULL-free and has exactly one distinct non-NaN value next to a NaN:
    // its min/max statistics (which skip NaN) are equal and the scan substitutes that constant
    let constant_shape = partitions(c).iter().any(|p| {
        float_cols.iter().any(|col| {
            let vals: Vec<&Value> = p.iter().map(|r| &r[*col]).collect();
            let nums: Vec<f64> = vals.iter().filter_map(|v| if let Value::Float(f) = v { Some(*f) } else { None }).filter(|f| !f.is_nan()).collect();
            !vals.iter().any(|v| v.is_null()) && vals.iter().any(|v| is_nan(v)) && !nums.is_empty() && nums.iter().all(|f| *f == nums[0])
        })
    });
    if !sig.starts_with("row-altered/") && passes(&Case { no_topk_filter: true, ..c.clone() }) {
        return Some(("parquet-float-nan-statistics/topk-dynamic-filter-prunes-nan-rows", "passes over a MemTable and over Parquet once enable_topk_dynamic_filter_pushdown=false: NaN-blind max statistics let the dynamic filter prune row groups / pages that hold NaN"));
    }
    if constant_shape {
        return Some(("parquet-float-nan-statistics/constant-column-substituted", "a file's float column holds NaN plus one distinct number, its NaN-blind min = max statistics make the scan replace the column by that constant; the same query over a MemTable passes"));
    }
    None
}

// ------------------------------------------------------------------------------------------
// generators

const NAN: f64 = f64::NAN;

fn float_pool() -> Vec<f64> {
    vec![NAN, f64::INFINITY, f64::NEG_INFINITY, -0.0, 0.0, 1.5, -1.5, 2.0, -2.0, 0.125, -0.125, 1e30, -1e30, 1e-30, 3.0]
}

fn string_pool() -> Vec<&'static str> {
    vec![
        "", "a", "A", "aa", "ab", "b", "é", "z", "a\u{1}", "ab ", "B", "0", "10", "9",
        // longer than the 12 inlined bytes of a string view, sharing the 4-byte prefix and more
        "prefix_prefix_aaaa", "prefix_prefix_aaab", "prefix_prefix_", "prefix_prefix_aaaa0", "prefix_prefiy", "prefix_pref", "prefix_prefix", "zzzzzzzzzzzzzzzzzzzzzzzz",
    ]
}

fn int_pool(ty: KTy) -> Vec<i64> {
    let (lo, hi) = if ty == KTy::I32 { (i32::MIN as i64, i32::MAX as i64) } else { (i64::MIN, i64::MAX) };
    vec![lo, hi, lo + 1, hi - 1, 0, -1, 1, 2, 3, 7, -7, 100]
}

fn gen_value(ty: KTy, r: &mut Rng, null_pct: u64, distinct: usize) -> Value {
    if r.chance(null_pct, 100) {
        return Value::Null;
    }
    match ty {
        KTy::I32 | KTy::I64 => {
            let p = int_pool(ty);
            Value::Int(p[r.usize(distinct.min(p.len()))])
        }
        KTy::F64 | KTy::F32 => {
            let p = float_pool();
            let f = p[r.usize(distinct.min(p.len()))];
            // Float32 columns only carry values that survive the f32 round trip
            Value::Float(if ty == KTy::F32 { (f as f32) as f64 } else { f })
        }
        _ => {
            let p = string_pool();
            Value::Str(p[r.usize(distinct.min(p.len()))].to_string())
        }
    }
}

fn gen_rows(ktys: &[KTy], n: usize, r: &mut Rng, null_pct: u64, distinct: usize, payload: usize) -> Vec<Row> {
    let mut ids: Vec<i64> = (0..n as i64).collect();
    r.shuffle(&mut ids);
    (0..n)
        .map(|i| {
            let mut row: Row = ktys.iter().map(|t| gen_value(*t, r, null_pct, distinct)).collect();
            let pl = if payload == 0 { format!("p{}", ids[i]) } else { format!("{:0width$}", ids[i], width = payload) };
            row.push(Value::Str(pl));
            row.push(Value::Int(ids[i]));
            row
        })
        .collect()
}

const SMALL_BATCH_SIZES: [usize; 3] = [1, 3, 8192];

fn small_case(r: &mut Rng, op: Op, ktys: Vec<KTy>, keys: Vec<SortKey>, fetch_kind: usize, n: usize) -> Case {
    let distinct = *r.pick(&[2usize, 4, 8, 30]);
    let null_pct = *r.pick(&[0u64, 10, 30, 60]);
    let rows = gen_rows(&ktys, n, r, null_pct, distinct, 0);
    let fetch = match fetch_kind {
        0 => None,
        1 => Some(0),
        2 => Some(1),
        3 => Some(1 + r.usize(n.max(2) - 1)),
        _ => Some(n + r.usize(3)),
    };
    let fetch = if fetch == Some(0) && matches!(op, Op::Sort | Op::SortPerPartition | Op::TopKMerge) { Some(1) } else { fetch };
    let nkeys = keys.len();
    Case {
        ktys,
        rows,
        keys,
        op,
        fetch: if op == Op::SqlParquet && fetch.is_none() { Some(3) } else { fetch },
        prefix: 1 + r.usize(nkeys.max(2) - 1).min(nkeys - 1),
        parts: match op {
            Op::TopKMerge | Op::Merge | Op::SortPerPartition => 1 + r.usize(4),
            _ => 1 + r.usize(3),
        },
        in_batch: *r.pick(&[0usize, 1, 2, 5, 16]),
        batch_size: *r.pick(&SMALL_BATCH_SIZES),
        target_partitions: *r.pick(&[1usize, 2, 3, 4]),
        pool: None,
        spill_reservation: None,
        in_place_threshold: if r.chance(1, 3) { Some(*r.pick(&[0usize, 64, 1024])) } else { None },
        no_topk_filter: false,
    }
}

fn random_keys(r: &mut Rng, ncols: usize, nkeys: usize) -> Vec<SortKey> {
    let mut cols: Vec<usize> = (0..ncols).collect();
    r.shuffle(&mut cols);
    cols.into_iter().take(nkeys).map(|col| SortKey { col, desc: r.bool(), nulls_first: r.bool() }).collect()
}

/// spill sub-stage: a few thousand rows with wide payload strings under a bounded pool
fn spill_case(r: &mut Rng, i: u64) -> Case {
    let ops = [Op::Sort, Op::Sort, Op::SortPerPartition, Op::Sql];
    let op = ops[(i % 4) as usize];
    let nk = 1 + (i as usize / 4) % 3;
    let ktys: Vec<KTy> = (0..nk).map(|_| *r.pick(&KTYS)).collect();
    let keys = random_keys(r, nk, nk);
    let n = 1200 + r.usize(2400);
    let payload = *r.pick(&[40usize, 120, 300]);
    let rows = gen_rows(&ktys, n, r, 10, 30, payload);
    let data_bytes = n * (payload + 40 + 16 * nk);
    // budgets relative to the data size: roomy (0 spills), tight (1..few), very tight (many)
    let frac = [400usize, 160, 110, 70, 40][(i as usize / 2) % 5];
    let reservation = *r.pick(&[4096usize, 16384, 65536]);
    let limit = data_bytes * frac / 100 + reservation;
    Case {
        ktys,
        rows,
        keys,
        op,
        fetch: None,
        prefix: 1,
        parts: if op == Op::SortPerPartition { 2 + r.usize(2) } else { 1 + r.usize(3) },
        in_batch: *r.pick(&[50usize, 100, 1000]),
        batch_size: *r.pick(&[64usize, 1000, 8192]),
        target_partitions: *r.pick(&[1usize, 2, 4]),
        pool: Some((r.bool(), limit)),
        spill_reservation: Some(reservation),
        in_place_threshold: Some(*r.pick(&[0usize, 1024, 20 * 1024, 1024 * 1024])),
        no_topk_filter: false,
    }
}

fn systematic_cases(memcheck: bool) -> Vec<(Case, &'static str)> {
    let mut out = vec![];
    // (a) single key: operator x key type x direction x null placement x fetch kind
    for (oi, op) in OPS.iter().enumerate() {
        for (ti, ty) in KTYS.iter().enumerate() {
            for desc in [false, true] {
                for nf in [false, true] {
                    for fk in 0..5usize {
                        if *op == Op::SortPerPartition && fk == 1 {
                            continue;
                        }
                        let mut r = Rng::derive(0xC08, &[1, oi as u64, ti as u64, desc as u64, nf as u64, fk as u64]);
                        let n = [0usize, 1, 7, 24, 40][(oi + ti + fk + desc as usize) % 5];
                        // a second, unsorted column so that PartialSort has something to do
                        let (ktys, keys) = if *op == Op::PartialSort {
                            (vec![*ty, KTYS[(ti + 3) % 7]], vec![SortKey { col: 0, desc, nulls_first: nf }, SortKey { col: 1, desc: !desc, nulls_first: !nf }])
                        } else {
                            (vec![*ty], vec![SortKey { col: 0, desc, nulls_first: nf }])
                        };
                        out.push((small_case(&mut r, *op, ktys, keys, fk, n), "systematic"));
                    }
                }
            }
        }
    }
    // (b) 2-3 keys, mixed types and options
    for i in 0..700u64 {
        let mut r = Rng::derive(0xC08, &[2, i]);
        let nk = 2 + (i % 2) as usize;
        let ktys: Vec<KTy> = (0..3).map(|j| KTYS[((i as usize) / 2 + j * 3) % 7]).collect();
        let keys = random_keys(&mut r, 3, nk);
        let op = OPS[(i % 7) as usize];
        let n = [5usize, 17, 33, 60][(i / 7 % 4) as usize];
        out.push((small_case(&mut r, op, ktys, keys, (i % 5) as usize, n), "systematic"));
    }
    if memcheck {
        // ~300 small cases, no spill stage, no parquet
        return out.into_iter().filter(|(c, _)| c.op != Op::SqlParquet).step_by(5).collect();
    }
    // (c) dedicated spill sub-stage
    for i in 0..60u64 {
        let mut r = Rng::derive(0xC08, &[3, i]);
        out.push((spill_case(&mut r, i), "spill-stage"));
    }
    out
}

fn random_case(r: &mut Rng, i: u64) -> (Case, &'static str) {
    if i % 100 == 7 {
        let variant = r.below(1000);
        return (spill_case(r, variant), "random-spill");
    }
    let op = OPS[r.weighted(&[5, 3, 5, 5, 4, 4, 1])];
    let ncols = if op == Op::PartialSort { 2 + r.usize(2) } else { 1 + r.usize(3) };
    let ktys: Vec<KTy> = (0..ncols).map(|_| *r.pick(&KTYS)).collect();
    let nk = if op == Op::PartialSort { 2 + r.usize(ncols - 1) } else { 1 + r.usize(ncols) };
    let keys = random_keys(r, ncols, nk.clamp(1, ncols));
    let n = match r.usize(10) {
        0 => 0,
        1 => 1,
        2 => 2,
        _ => r.usize(61),
    };
    let fk = r.usize(5);
    (small_case(r, op, ktys, keys, fk, n), "random")
}

// ------------------------------------------------------------------------------------------

fn run(args: &Args) -> i32 {
    let rep = Report::new("C08", "exploration", args);
    rep.set_rule("case = (generated table with 1-3 key columns over ints / floats incl. NaN,-0.0,inf / Utf8, Utf8View, dictionary strings, a payload and a unique id; sort keys with direction and NULL placement; operator; fetch; partition/batch layout; batch_size; memory budget); distinct = hash of the fully materialised case; non-trivial = the operator ran, was checked, and the input has >= 2 rows");
    rep.assume("the documented total order: NULL placement per option; floats -inf < .. < -0.0 < +0.0 < .. < +inf < NaN; strings by UTF-8 bytes; dictionaries by value");
    rep.assume("inputs handed to merge / partial sort are pre-sorted by the harness with the same independent comparator; with a fetch and preserve_partitioning only the union of the partitions must contain a valid top k (the partitions share one TopK threshold)");
    if let Some(p) = &args.replay {
        return replay(p);
    }
    let selftest = args.opt_u64("selftest", 0) == 1;
    let memcheck = args.stage == "memcheck";
    let workers = if memcheck { 1 } else { args.workers };
    let mx = Matrix::default();

    let sys = systematic_cases(memcheck);
    vcommon::par::run(workers, sys.iter(), |(c, stage)| one_case(&rep, &mx, c, stage, selftest));

    if !memcheck {
        {
            let m = mx.0.lock().unwrap();
            for op in OPS {
                rep.obligation(&format!("operator:{}", op.name()), m.get(op.name()).map(|x| x.values().sum::<u64>()).unwrap_or(0) > 0, "every operator must be checked in the systematic part");
            }
            for ty in KTYS {
                let n = m.get(&format!("key:{}", ty.name())).map(|x| x.len()).unwrap_or(0);
                rep.obligation(&format!("key-type:{}", ty.name()), n == 4, "asc/desc x nulls first/last all checked for the key type");
            }
        }
        rep.obligation("spilled-run", rep.get_count("spilled_runs/spill-stage") >= 1, "at least one run of the systematic spill sub-stage must report spill_count > 0 in its metrics");
        rep.obligation("unspilled-bounded-run", rep.get_count("spill_count_hist/0") >= 1, "a bounded-pool run without spill (budget roomy enough) must be observed too");
        rep.obligation(
            "multi-spill-run",
            rep.get_count("spill_count_hist/2-3") + rep.get_count("spill_count_hist/4-9") + rep.get_count("spill_count_hist/10+") >= 1,
            "a run with several spills (multi-run merge) must be observed",
        );
        rep.obligation("dynamic-filter-at-source", rep.get_count("dynamic_filter_at_source_cases") >= 1, "TopK dynamic filter must reach a source that supports it at least once");
    }

    let n_rand = if memcheck { 0 } else { args.bound("random", 5000, 300_000) };
    vcommon::par::run(workers, 0..n_rand, |i| {
        // sticky stop: too many unexplained violations, or the soft wall-clock budget of the random tail ran out
        if STOP.load(AO::Relaxed) {
            return;
        }
        if UNCLASSIFIED.load(AO::Relaxed) > 40 || (i % 64 == 0 && !rep.within_budget(args.tier.pick(60.0, 1000.0))) {
            STOP.store(true, AO::Relaxed);
            return;
        }
        let mut r = Rng::derive(args.seed, &[8, 1, i]);
        let (c, stage) = random_case(&mut r, i);
        one_case(&rep, &mx, &c, stage, selftest);
    });
    rep.extra("coverage_matrix", json!(*mx.0.lock().unwrap()));
    rep.finish()
}

fn replay(p: &std::path::Path) -> i32 {
    let Ok(text) = std::fs::read_to_string(p) else {
        println!("cannot read {}", p.display());
        return 2;
    };
    let Ok(j) = serde_json::from_str::<Json>(&text) else { return 2 };
    let cj = j.get("witness").and_then(|w| w.get("case")).or_else(|| j.get("case")).unwrap_or(&j);
    let Some(c) = Case::from_json(cj) else {
        println!("not a C08 witness");
        return 2;
    };
    println!("op={} order_by=[{}] fetch={:?} rows={} parts={} batch_size={}", c.op.name(), c.order_by_sql(), c.fetch, c.rows.len(), c.parts, c.batch_size);
    match vcommon::par::guard(|| execute(&c)) {
        Ok(Outcome::Ran(o)) => {
            for (i, part) in o.parts.iter().enumerate() {
                println!("output partition {i} ({} rows): {}", part.len(), if part.len() <= 80 { rows_to_json(part).to_string() } else { "(long)".into() });
            }
            println!("spill_count={} spilled_rows={} dynamic_filter_at_source={}", o.spill_count, o.spilled_rows, o.dynamic_filter_at_source);
            if !o.plan.is_empty() {
                println!("{}", o.plan);
            }
            match verdict(&c, &o) {
                Ok(()) => {
                    println!("REPLAY: output satisfies all checks");
                    0
                }
                Err((sig, note)) => {
                    println!("VIOLATION property=C08 replay={} signature={sig} ({note})", p.display());
                    1
                }
            }
        }
        Ok(Outcome::Failed(e)) => {
            println!("engine error: {e}");
            1
        }
        Ok(Outcome::Timeout) => 2,
        Err(p) => {
            println!("engine panic: {p}");
            1
        }
    }
}

fn main() {
    let args = Args::parse();
    vcommon::par::quiet_panics();
    std::process::exit(run(&args));
}
