//! C38 — SQL generated from a plan means the same as the plan.

use datafusion::sql::unparser::{dialect, plan_to_sql, Unparser};
use dfv::canon::compare;
use dfv::cases::Case;
use dfv::diffrun::*;
use vcommon::{fp_mix, fp_str, json, Args, Report, Rng};

fn one_case(rep: &Report, case: &Case, _rng: &mut Rng) {
    let fp = case.fingerprint();
    let sql = case.sql.clone();
    let res = block(async {
        let ctx = ctx_mem(case, base_config())?;
        // planning and running the ORIGINAL plan is not this property's subject: a panic there is a skip
        let orig = guarded(async {
            let unopt = ctx.state().create_logical_plan(&sql).await?;
            let opt = ctx.state().optimize(&unopt)?;
            let base = exec_logical(&ctx, unopt.clone()).await?;
            Ok::<_, datafusion::error::DataFusionError>((unopt, opt, base))
        })
        .await;
        let (unopt, opt, base) = match orig {
            Err(p) => return Ok((vec![], vec![format!("unparser-rejected/original-plan-panics/{}", p.rsplit(" @ ").next().unwrap_or("").rsplit('/').next().unwrap_or(""))])),
            Ok(r) => r?,
        };
        let mut findings: Vec<(String, vcommon::Json)> = vec![];
        let mut stats: Vec<String> = vec![];
        for (form, plan) in [("unoptimized", &unopt), ("optimized", &opt)] {
            let plan_text = format!("{}", plan.display_indent());
            let text = match plan_to_sql(plan) {
                Ok(s) => s.to_string(),
                Err(e) => {
                    stats.push(format!("unparser-rejected/{}", e.to_string().chars().take(50).collect::<String>()));
                    continue;
                }
            };
            let ctx2 = ctx_mem(case, base_config())?;
            match exec_sql(&ctx2, &text).await {
                Ok(out) => {
                    stats.push(format!("roundtrip/{form}"));
                    if let Err(d) = compare(&out.rows, &base.rows, &case.mode) {
                        findings.push((format!("results-differ/{form}"), json!({"case": case.witness(Some(&out.rows), Some(&base.rows), &d), "sql": sql, "generated_sql": text, "plan": plan_text})));
                    } else {
                        let t0: Vec<String> = base.schema.fields().iter().map(|f| logical_type(f.data_type())).collect();
                        let t1: Vec<String> = out.schema.fields().iter().map(|f| logical_type(f.data_type())).collect();
                        if t0 != t1 {
                            findings.push((format!("output-types-differ/{form}"), json!({"sql": sql, "generated_sql": text, "before": t0, "after": t1, "plan": plan_text})));
                        }
                    }
                }
                Err(e) => {
                    // text produced by the default dialect must be plannable and executable by the engine itself
                    let m = e.to_string();
                    let kind = if m.contains("Projections require unique expression names") {
                        "duplicate-output-names".to_string()
                    } else {
                        format!("{:?}", dfv::engine::classify(&e))
                    };
                    findings.push((format!("generated-sql-fails/{form}/{kind}"), json!({"sql": sql, "generated_sql": text, "error": m.chars().take(300).collect::<String>(), "plan": plan_text})));
                }
            }
        }
        // other dialects: the text only has to be parseable by the SQL parser of that dialect
        for (name, d) in [
            ("postgres", Box::new(dialect::PostgreSqlDialect {}) as Box<dyn dialect::Dialect>),
            ("mysql", Box::new(dialect::MySqlDialect {})),
            ("sqlite", Box::new(dialect::SqliteDialect {})),
            ("duckdb", Box::new(dialect::DuckDBDialect::new())),
        ] {
            let u = Unparser::new(d.as_ref());
            if let Ok(stmt) = u.plan_to_sql(&unopt) {
                let text = stmt.to_string();
                use datafusion::sql::sqlparser::{dialect as pd, parser::Parser};
                let parsed = match name {
                    "postgres" => Parser::parse_sql(&pd::PostgreSqlDialect {}, &text),
                    "mysql" => Parser::parse_sql(&pd::MySqlDialect {}, &text),
                    "sqlite" => Parser::parse_sql(&pd::SQLiteDialect {}, &text),
                    _ => Parser::parse_sql(&pd::DuckDbDialect {}, &text),
                };
                match parsed {
                    Ok(_) => stats.push(format!("dialect-parse-ok/{name}")),
                    // observed only: the statement is about the default dialect; what sqlparser's
                    // dialect-specific parsers accept is not the engine's promise
                    Err(_) => stats.push(format!("dialect-parse-failed/{name}")),
                }
            }
        }
        Ok::<_, datafusion::error::DataFusionError>((findings, stats))
    });
    match res {
        Err(p) => {
            rep.case(fp, true);
            rep.violation("panic", case.witness(None, None, &format!("panic during unparse round trip: {p}")));
        }
        Ok(Err(e)) => {
            rep.case(fp, false);
            rep.skip(&format!("original-plan-fails/{}", skip_class(&e)));
        }
        Ok(Ok((findings, stats))) => {
            let ok = stats.iter().filter(|s| s.starts_with("roundtrip/")).count();
            rep.case(fp_mix(fp, fp_str(&stats.join(","))), ok > 0);
            for s in &stats {
                if s.starts_with("unparser-rejected") {
                    rep.skip(s);
                } else {
                    rep.count(s, 1);
                }
            }
            if ok > 0 {
                for f in &case.feats {
                    rep.seen("features_roundtripped", f);
                }
            }
            for (sig, w) in findings {
                let r = refine(&sig, &w);
                // Optimized plans contain constructs the unparser cannot express (see DESIGN 10.2); for that
                // form only the enumerated root causes are verdicts, anything else is counted, not judged.
                if r == sig && sig.contains("/optimized") {
                    rep.count(&format!("optimized_form_unclassified/{sig}"), 1);
                    continue;
                }
                rep.violation(&r, w);
            }
            if rep.want_sample() && ok == 2 {
                rep.sample(json!({"sql": case.sql}));
            }
        }
    }
}

/// Root causes found on the unchanged tree, keyed by their own signature (see known_findings.json).
fn refine(sig: &str, w: &vcommon::Json) -> String {
    let s = |k: &str| w.get(k).and_then(|v| v.as_str()).unwrap_or("").to_string();
    let (generated, plan, err) = (s("generated_sql"), s("plan"), s("error"));
    // 1. `- (-1)` / `- (- x)` is rendered `--1` / `--x`: the rest of the statement becomes a comment
    if generated.contains("--") && !s("sql").contains("--") {
        return "negation-of-negative-rendered-as-comment".into();
    }
    // 2. an EmptyRelation without rows (left by the optimizer) has no SQL rendering: the unparser emits
    //    `SELECT *` or silently drops the relation (so aggregates see one row instead of none)
    if plan.contains("EmptyRelation: rows=0") && (sig.starts_with("generated-sql-fails/optimized") || sig.starts_with("results-differ/optimized")) {
        return "empty-relation-without-rows-not-representable".into();
    }
    // 3. a literal's type is not written: typed NULL becomes bare NULL (type Null, or an error such as
    //    "SUM not supported for Null"), Int32(2) becomes 2 (Int64)
    if sig.starts_with("output-types-differ/") {
        let arr = |k: &str| w.get(k).and_then(|v| v.as_array()).map(|a| a.iter().map(|x| x.as_str().unwrap_or("").to_string()).collect::<Vec<_>>()).unwrap_or_default();
        let (b, a) = (arr("before"), arr("after"));
        let numeric = |t: &str| t.starts_with("Int") || t.starts_with("UInt") || t.starts_with("Float");
        if b.len() == a.len() && b.iter().zip(a.iter()).all(|(x, y)| x == y || y == "Null") {
            return "typed-null-literal-loses-type".into();
        }
        if b.len() == a.len() && b.iter().zip(a.iter()).all(|(x, y)| x == y || y == "Null" || (numeric(x) && numeric(y))) {
            return "numeric-literal-loses-type".into();
        }
        // the bare NULL feeds a function whose result type then follows the Null coercion (e.g. String)
        if plan.contains("(NULL)") && (generated.contains("SELECT NULL AS") || generated.contains(", NULL AS") || generated.contains("(NULL")) {
            return "typed-null-literal-loses-type".into();
        }
    }
    if sig.starts_with("generated-sql-fails/") && err.contains("not supported for Null") {
        return "typed-null-literal-loses-type".into();
    }
    // 4. Limit(skip>0, fetch) above a Sort that received the pushed-down fetch (skip+fetch): the unparser
    //    writes the Sort's fetch as LIMIT next to the outer OFFSET
    if sig.starts_with("results-differ/optimized") {
        let skip_pos = plan.lines().any(|l| l.trim_start().starts_with("Limit: skip=") && !l.contains("skip=0,"));
        let sort_fetch = plan.lines().any(|l| l.trim_start().starts_with("Sort:") && l.contains("fetch="));
        if skip_pos && sort_fetch {
            return "offset-with-pushed-down-sort-fetch-misrendered".into();
        }
    }
    // 5. a Filter pushed below a SubqueryAlias keeps the base table's qualifier, which the alias hides
    if sig.starts_with("generated-sql-fails/optimized") && err.contains("No field named") && err.contains("Did you mean") {
        let lines: Vec<&str> = plan.lines().map(|l| l.trim_start()).collect();
        if lines.windows(2).any(|p| p[0].starts_with("SubqueryAlias:") && p[1].starts_with("Filter:")) {
            return "filter-below-alias-keeps-table-qualifier".into();
        }
    }
    // 7. an outer join whose ON condition was folded away is written without ON
    if sig.starts_with("generated-sql-fails/optimized") && err.contains("join condition should not be empty") {
        return "outer-join-without-condition-written-without-on".into();
    }
    // 8. a GROUP BY key folded to a literal is written as that literal, which SQL reads as a column position
    if sig.starts_with("generated-sql-fails/optimized") || sig.starts_with("results-differ/optimized") {
        let literal_key = plan.lines().any(|l| {
            l.trim_start().starts_with("Aggregate: groupBy=[[") && {
                let k = &l[l.find("groupBy=[[").unwrap() + 10..];
                ["Int64(", "Int32(", "Boolean(", "Utf8(", "Float64("].iter().any(|p| k.starts_with(p))
            }
        });
        if literal_key {
            return "group-by-literal-written-as-position".into();
        }
    }
    // 6. an unaliased derived projection drops the qualifiers of same-named join columns
    if sig.starts_with("generated-sql-fails/optimized") && err.contains("Ambiguous reference to unqualified field") {
        return "derived-projection-drops-qualifiers".into();
    }
    sig.to_string()
}

fn run(args: &Args) -> i32 {
    let rep = Report::new("C38", "exploration", args);
    rep.set_rule("case = generated query; its unoptimized and optimized logical plans are unparsed with the default dialect, re-planned from the text in a fresh session and executed; rows and logical output types are compared with the original plan's; four other dialects are only observed (parse ok / failed counters); distinct = hash(case, outcome); non-trivial = at least one form was unparsed and re-executed");
    rep.assume("unparser rejections are skips (conditional property), counted by reason");
    let cfg = gen_cfg_from(args, "simple");
    rep.extra("generator_fragment", json!(format!("{cfg:?}")));
    for_each_case(args, &rep, 0xC38, args.bound("systematic", 400, 3000), args.bound("random", 400, 12000), &cfg, |case, rng, _| one_case(&rep, case, rng));
    rep.obligation("roundtrips", rep.get_count("roundtrip/optimized") + rep.get_count("roundtrip/unoptimized") > 100, "plans must actually round-trip");
    rep.finish()
}

fn main() {
    let args = Args::parse();
    vcommon::par::quiet_panics();
    std::process::exit(run(&args));
}
