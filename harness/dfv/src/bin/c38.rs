//! C38 — SQL generated from a plan means the same as the plan.

use datafusion::sql::unparser::{dialect, plan_to_sql, Unparser};
use dfv::canon::compare;
use dfv::cases::Case;
use dfv::diffrun::*;
use vcommon::{fp_mix, fp_str, json, Args, Report, Rng};

fn one_case(rep: &Report, case: &Case, _rng: &mut Rng) {
    let fp = case.fingerprint();
    let sql = case.sql.clone();
    let res = block(async {
        let ctx = ctx_mem(case, base_config())?;
        let unopt = ctx.state().create_logical_plan(&sql).await?;
        let opt = ctx.state().optimize(&unopt)?;
        let base = exec_logical(&ctx, unopt.clone()).await?;
        let mut findings: Vec<(String, vcommon::Json)> = vec![];
        let mut stats: Vec<String> = vec![];
        for (form, plan) in [("unoptimized", &unopt), ("optimized", &opt)] {
            let text = match plan_to_sql(plan) {
                Ok(s) => s.to_string(),
                Err(e) => {
                    stats.push(format!("unparser-rejected/{}", e.to_string().chars().take(50).collect::<String>()));
                    continue;
                }
            };
            let ctx2 = ctx_mem(case, base_config())?;
            match exec_sql(&ctx2, &text).await {
                Ok(out) => {
                    stats.push(format!("roundtrip/{form}"));
                    if let Err(d) = compare(&out.rows, &base.rows, &case.mode) {
                        findings.push((format!("results-differ/{form}"), json!({"case": case.witness(Some(&out.rows), Some(&base.rows), &d), "generated_sql": text})));
                    } else {
                        let t0: Vec<String> = base.schema.fields().iter().map(|f| logical_type(f.data_type())).collect();
                        let t1: Vec<String> = out.schema.fields().iter().map(|f| logical_type(f.data_type())).collect();
                        if t0 != t1 {
                            findings.push((format!("output-types-differ/{form}"), json!({"sql": sql, "generated_sql": text, "before": t0, "after": t1})));
                        }
                    }
                }
                Err(e) => {
                    // text produced by the default dialect must be plannable and executable by the engine itself
                    let m = e.to_string();
                    let kind = if m.contains("Projections require unique expression names") {
                        "duplicate-output-names".to_string()
                    } else {
                        format!("{:?}", dfv::engine::classify(&e))
                    };
                    findings.push((format!("generated-sql-fails/{form}/{kind}"), json!({"sql": sql, "generated_sql": text, "error": m.chars().take(300).collect::<String>()})));
                }
            }
        }
        // other dialects: the text only has to be parseable by the SQL parser of that dialect
        for (name, d) in [
            ("postgres", Box::new(dialect::PostgreSqlDialect {}) as Box<dyn dialect::Dialect>),
            ("mysql", Box::new(dialect::MySqlDialect {})),
            ("sqlite", Box::new(dialect::SqliteDialect {})),
            ("duckdb", Box::new(dialect::DuckDBDialect::new())),
        ] {
            let u = Unparser::new(d.as_ref());
            if let Ok(stmt) = u.plan_to_sql(&unopt) {
                let text = stmt.to_string();
                use datafusion::sql::sqlparser::{dialect as pd, parser::Parser};
                let parsed = match name {
                    "postgres" => Parser::parse_sql(&pd::PostgreSqlDialect {}, &text),
                    "mysql" => Parser::parse_sql(&pd::MySqlDialect {}, &text),
                    "sqlite" => Parser::parse_sql(&pd::SQLiteDialect {}, &text),
                    _ => Parser::parse_sql(&pd::DuckDbDialect {}, &text),
                };
                match parsed {
                    Ok(_) => stats.push(format!("dialect-parse-ok/{name}")),
                    Err(e) => findings.push((format!("dialect-text-unparseable/{name}"), json!({"sql": sql, "generated_sql": text, "error": e.to_string()}))),
                }
            }
        }
        Ok::<_, datafusion::error::DataFusionError>((findings, stats))
    });
    match res {
        Err(p) => {
            rep.case(fp, true);
            rep.violation("panic", case.witness(None, None, &format!("panic during unparse round trip: {p}")));
        }
        Ok(Err(e)) => {
            rep.case(fp, false);
            rep.skip(&format!("original-plan-fails/{}", skip_class(&e)));
        }
        Ok(Ok((findings, stats))) => {
            let ok = stats.iter().filter(|s| s.starts_with("roundtrip/")).count();
            rep.case(fp_mix(fp, fp_str(&stats.join(","))), ok > 0);
            for s in &stats {
                if s.starts_with("unparser-rejected") {
                    rep.skip(s);
                } else {
                    rep.count(s, 1);
                }
            }
            if ok > 0 {
                for f in &case.feats {
                    rep.seen("features_roundtripped", f);
                }
            }
            for (sig, w) in findings {
                rep.violation(&sig, w);
            }
            if rep.want_sample() && ok == 2 {
                rep.sample(json!({"sql": case.sql}));
            }
        }
    }
}

fn run(args: &Args) -> i32 {
    let rep = Report::new("C38", "exploration", args);
    rep.set_rule("case = generated query; its unoptimized and optimized logical plans are unparsed with the default dialect, re-planned from the text in a fresh session and executed; rows and logical output types are compared with the original plan's; four other dialects are checked to produce text their sqlparser dialect parses; distinct = hash(case, outcome); non-trivial = at least one form was unparsed and re-executed");
    rep.assume("unparser rejections are skips (conditional property), counted by reason");
    let cfg = gen_cfg_from(args, "full");
    rep.extra("generator_fragment", json!(format!("{cfg:?}")));
    for_each_case(args, &rep, 0xC38, args.bound("systematic", 400, 3000), args.bound("random", 400, 12000), &cfg, |case, rng, _| one_case(&rep, case, rng));
    rep.obligation("roundtrips", rep.get_count("roundtrip/optimized") + rep.get_count("roundtrip/unoptimized") > 100, "plans must actually round-trip");
    rep.finish()
}

fn main() {
    let args = Args::parse();
    vcommon::par::quiet_panics();
    std::process::exit(run(&args));
}
