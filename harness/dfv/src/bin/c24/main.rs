//! C24 — Parquet scans with pruning and pushdown return exactly the matching rows; the file
//! row-index virtual column (`file_row_index()`) reports each row's position in its file.

#[path = "../c22/pg.rs"]
mod pg;

use arrow::datatypes::SchemaRef;
use arrow::record_batch::RecordBatch;
use datafusion::common::config::TableParquetOptions;
use datafusion::dataframe::DataFrameWriteOptions;
use datafusion::error::DataFusionError;
use datafusion::functions::core::expr_fn::file_row_index;
use datafusion::functions_aggregate::count::count_all;
use datafusion::physical_plan::metrics::MetricValue;
use datafusion::physical_plan::{collect, ExecutionPlan};
use datafusion::prelude::*;
use datafusion_expr::Expr;
use parquet::arrow::arrow_reader::ParquetRecordBatchReaderBuilder;
use parquet::arrow::ArrowWriter;
use parquet::basic::Compression;
use parquet::file::properties::{EnabledStatistics, WriterProperties};
use pg::*;
use std::collections::{BTreeMap, BTreeSet};
use std::path::Path;
use std::sync::Arc;
use vcommon::{fp_mix, fp_str, json, Args, Json, Report, Rng};

// ------------------------------------------------------------------------------------------
// datasets
// ------------------------------------------------------------------------------------------

const SPAN: i64 = 40;
const LAYOUTS: &[&str] = &["sorted", "clustered", "random", "null-heavy"];

#[derive(Clone, Debug)]
struct WriterCfg {
    max_rg: usize,
    page_rows: usize,
    page_bytes: usize,
    write_batch: usize,
    /// 0 none, 1 chunk, 2 page
    stats: u8,
    bloom: bool,
    dict: bool,
    via_dataframe: bool,
}

impl WriterCfg {
    fn json(&self) -> Json {
        json!({"max_row_group_size": self.max_rg, "data_page_row_count_limit": self.page_rows, "data_pagesize_limit": self.page_bytes, "write_batch_size": self.write_batch,
            "statistics_enabled": (["none", "chunk", "page"][self.stats as usize]), "bloom_filter": self.bloom, "dictionary": self.dict, "writer": if self.via_dataframe { "DataFrame::write_parquet" } else { "ArrowWriter" }})
    }
}

struct Dataset {
    cols: Vec<ColSpec>,
    layouts: Vec<&'static str>,
    /// rows per file, in file order
    files: Vec<Vec<Vec<V>>>,
    writer: WriterCfg,
    special_floats: bool,
}

impl Dataset {
    fn all_rows(&self) -> Vec<Vec<V>> {
        self.files.iter().flatten().cloned().collect()
    }
    fn json(&self) -> Json {
        json!({
            "schema": self.cols.iter().map(|c| format!("{}:{}", c.name, c.ct.name())).collect::<Vec<_>>(),
            "layouts": self.layouts,
            "writer": self.writer.json(),
            "files": self.files.iter().map(|f| rows_json(f)).collect::<Vec<_>>(),
        })
    }
}

fn map_val(rng: &mut Rng, ct: CT, s: i64, special: bool) -> V {
    match ct {
        CT::I32 => V::I(s - 10),
        CT::I64 => V::I((s - 10) * 3),
        CT::F64 => {
            if special && rng.chance(1, 12) {
                V::F(*rng.pick(&[f64::NAN, -0.0, f64::INFINITY, f64::NEG_INFINITY]))
            } else {
                V::F(s as f64 * 0.5 - 5.0)
            }
        }
        CT::Str => {
            if rng.chance(1, 12) {
                V::S(rng.pick(STR_POOL).to_string())
            } else {
                const PFX: [&str; 7] = ["a", "ab", "b", "fo", "foo", "fop", "z"];
                let i = ((s * 7) / (SPAN + 1)).clamp(0, 6) as usize;
                V::S(format!("{}{:02}", PFX[i], s))
            }
        }
        CT::Bool => V::B(s * 2 >= SPAN),
        CT::Date | CT::Ts => V::I(s - 20),
        CT::Dec => V::Dec((s as i128 - 20) * 25),
    }
}

fn gen_column(rng: &mut Rng, ct: CT, layout: &str, n: usize, special: bool) -> Vec<V> {
    let mut out = Vec::with_capacity(n);
    match layout {
        "sorted" => {
            for i in 0..n {
                if rng.chance(1, 14) {
                    out.push(V::Null);
                } else {
                    out.push(map_val(rng, ct, i as i64 * SPAN / n.max(1) as i64, special));
                }
            }
        }
        "clustered" => {
            while out.len() < n {
                let len = 5 + rng.usize(26);
                let center = rng.range(0, SPAN - 2);
                let all_null = rng.chance(1, 8);
                for _ in 0..len.min(n - out.len()) {
                    if all_null || rng.chance(1, 20) {
                        out.push(V::Null);
                    } else {
                        let s = center + rng.range(0, 2);
                        out.push(map_val(rng, ct, s, special));
                    }
                }
            }
        }
        "random" => {
            for _ in 0..n {
                if rng.chance(1, 10) {
                    out.push(V::Null);
                } else {
                    let s = rng.range(0, SPAN);
                    out.push(map_val(rng, ct, s, special));
                }
            }
        }
        _ => {
            for _ in 0..n {
                if rng.chance(3, 4) {
                    out.push(V::Null);
                } else {
                    let s = rng.range(0, SPAN);
                    out.push(map_val(rng, ct, s, special));
                }
            }
        }
    }
    out
}

fn gen_dataset(rng: &mut Rng, forced: Option<(usize, u8, bool, bool)>) -> Dataset {
    let n = 50 + rng.usize(351);
    let special = rng.chance(1, 8);
    let mut cols = vec![ColSpec { name: "rid".into(), ct: CT::I64 }, ColSpec { name: "fid".into(), ct: CT::I32 }, ColSpec { name: "pos".into(), ct: CT::I32 }];
    let mut layouts = vec!["sorted", "clustered", "sorted"];
    let k = 4 + rng.usize(4);
    const TYPES: [CT; 7] = [CT::I32, CT::I64, CT::F64, CT::Str, CT::Bool, CT::Date, CT::Dec];
    for i in 0..k {
        // the first seven columns cycle through all types, so every dataset has ints/floats/strings
        let ct = if i < 4 { TYPES[(i + rng.usize(2) * 4) % 7] } else { *rng.pick(&TYPES) };
        cols.push(ColSpec { name: format!("c{i}"), ct });
        layouts.push(*rng.pick(LAYOUTS));
    }
    let data: Vec<Vec<V>> = (3..cols.len()).map(|c| gen_column(rng, cols[c].ct, layouts[c], n, special)).collect();
    let nfiles = 1 + rng.usize(3);
    let mut cuts: Vec<usize> = (0..nfiles - 1).map(|_| rng.usize(n + 1)).collect();
    cuts.sort();
    cuts.push(n);
    let mut files = vec![];
    let mut start = 0;
    for (f, end) in cuts.iter().enumerate() {
        let mut rows = vec![];
        for i in start..*end {
            let mut r = vec![V::I(i as i64), V::I(f as i64), V::I((i - start) as i64)];
            for d in &data {
                r.push(d[i].clone());
            }
            rows.push(r);
        }
        files.push(rows);
        start = *end;
    }
    let (max_rg, stats, bloom, dict) = forced.unwrap_or_else(|| (*rng.pick(&[2usize, 5, 5, 1000]), rng.weighted(&[1, 2, 4]) as u8, rng.bool(), rng.bool()));
    let writer = WriterCfg {
        max_rg,
        page_rows: *rng.pick(&[1usize, 2, 3, 7, 20_000]),
        page_bytes: *rng.pick(&[1usize, 16, 64, 1024 * 1024]),
        write_batch: *rng.pick(&[1usize, 2, 4, 1024]),
        stats,
        bloom,
        dict,
        via_dataframe: rng.chance(1, 4),
    };
    Dataset { cols, layouts, files, writer, special_floats: special }
}

/// aimed dataset: a float column of special values (signed zeros, NaN, infinities) in short runs, so that
/// row groups / pages / bloom filters see them in isolation
fn gen_float_dataset(rng: &mut Rng, forced: (usize, u8, bool, bool)) -> Dataset {
    let n = 60 + rng.usize(60);
    let cols = vec![ColSpec { name: "rid".into(), ct: CT::I64 }, ColSpec { name: "fid".into(), ct: CT::I32 }, ColSpec { name: "pos".into(), ct: CT::I32 }, ColSpec { name: "c0".into(), ct: CT::F64 }, ColSpec { name: "c1".into(), ct: CT::I32 }];
    let specials = [V::F(-0.0), V::F(0.0), V::F(1.0), V::F(-1.0), V::F(f64::NAN), V::F(f64::INFINITY), V::F(f64::NEG_INFINITY), V::F(2.5), V::Null];
    let mut c0 = vec![];
    while c0.len() < n {
        let v = rng.pick(&specials).clone();
        for _ in 0..1 + rng.usize(4) {
            c0.push(v.clone());
        }
    }
    let nfiles = 1 + rng.usize(2);
    let cut = if nfiles == 2 { rng.usize(n) } else { n };
    let mut files = vec![vec![], vec![]];
    for i in 0..n {
        let (f, start) = if i < cut { (0, 0) } else { (1, cut) };
        files[f].push(vec![V::I(i as i64), V::I(f as i64), V::I((i - start) as i64), c0[i].clone(), V::I(rng.range(-5, 5))]);
    }
    files.retain(|f| !f.is_empty());
    let writer = WriterCfg { max_rg: forced.0.min(5), page_rows: *rng.pick(&[1usize, 2, 3]), page_bytes: 16, write_batch: 1, stats: forced.1.max(1), bloom: true, dict: forced.3, via_dataframe: false };
    Dataset { cols, layouts: vec!["sorted", "clustered", "sorted", "special-floats", "random"], files, writer, special_floats: true }
}

fn aimed_float_queries(rng: &mut Rng) -> Vec<(Query, BTreeSet<&'static str>)> {
    let mut out = vec![];
    let lits = [0.0f64, -0.0, f64::NAN, 1.0, f64::INFINITY, -1.0];
    let mut push = |pred: P, rng: &mut Rng| {
        let form = if rng.chance(1, 3) { Form::Count } else { Form::Full };
        out.push((Query { pred, fri_ge: None, proj: vec![0, 3], form }, BTreeSet::from(["aimed-special-floats"])));
    };
    for l in lits {
        for op in [CmpOp::Eq, CmpOp::Ne, CmpOp::Lt, CmpOp::Le, CmpOp::Gt, CmpOp::Ge] {
            let (a, b) = (Sx::Col(3), Sx::Lit(V::F(l), CT::F64));
            push(if rng.bool() { P::Cmp(a, op, b) } else { P::Cmp(b, op, a) }, rng);
        }
        for neg in [false, true] {
            push(P::In(Sx::Col(3), vec![Sx::Lit(V::F(l), CT::F64)], neg), rng);
            push(P::In(Sx::Col(3), vec![Sx::Lit(V::F(l), CT::F64), Sx::Lit(V::F(2.5), CT::F64)], neg), rng);
        }
    }
    out
}

fn writer_props(w: &WriterCfg) -> WriterProperties {
    WriterProperties::builder()
        .set_max_row_group_row_count(Some(w.max_rg))
        .set_data_page_row_count_limit(w.page_rows)
        .set_data_page_size_limit(w.page_bytes)
        .set_write_batch_size(w.write_batch)
        .set_statistics_enabled(match w.stats {
            0 => EnabledStatistics::None,
            1 => EnabledStatistics::Chunk,
            _ => EnabledStatistics::Page,
        })
        .set_bloom_filter_enabled(w.bloom)
        .set_dictionary_enabled(w.dict)
        .set_compression(Compression::UNCOMPRESSED)
        .build()
}

fn table_parquet_options(w: &WriterCfg) -> TableParquetOptions {
    let mut o = TableParquetOptions::default();
    o.global.max_row_group_size = w.max_rg;
    o.global.data_page_row_count_limit = w.page_rows;
    o.global.data_pagesize_limit = w.page_bytes;
    o.global.write_batch_size = w.write_batch;
    o.global.statistics_enabled = Some(["none", "chunk", "page"][w.stats as usize].to_string());
    o.global.bloom_filter_on_write = w.bloom;
    o.global.dictionary_enabled = Some(w.dict);
    o.global.compression = Some("uncompressed".into());
    o
}

async fn write_dataset(ds: &Dataset, dir: &Path, rng: &mut Rng) -> Result<(), String> {
    let schema = schema_of(&ds.cols);
    for (f, rows) in ds.files.iter().enumerate() {
        let path = dir.join(format!("f{f}.parquet"));
        let batch = rows_to_batch(&schema, &ds.cols, rows);
        if ds.writer.via_dataframe {
            let ctx = SessionContext::new_with_config(SessionConfig::new().with_target_partitions(1));
            let df = ctx.read_batch(batch).map_err(|e| e.to_string())?;
            df.write_parquet(path.to_str().unwrap(), DataFrameWriteOptions::new().with_single_file_output(true), Some(table_parquet_options(&ds.writer))).await.map_err(|e| e.to_string())?;
        } else {
            let file = std::fs::File::create(&path).map_err(|e| e.to_string())?;
            let mut wr = ArrowWriter::try_new(file, schema.clone(), Some(writer_props(&ds.writer))).map_err(|e| e.to_string())?;
            // feed the writer in slices of random sizes
            let mut off = 0;
            while off < batch.num_rows() {
                let len = (1 + rng.usize(64)).min(batch.num_rows() - off);
                wr.write(&batch.slice(off, len)).map_err(|e| e.to_string())?;
                off += len;
            }
            if batch.num_rows() == 0 {
                wr.write(&batch).map_err(|e| e.to_string())?;
            }
            wr.close().map_err(|e| e.to_string())?;
        }
    }
    Ok(())
}

/// plain arrow-rs reader, no filters: the rows of one file in file order + (row groups, has page index)
fn read_back(path: &Path) -> Result<(Vec<Vec<V>>, usize), String> {
    let file = std::fs::File::open(path).map_err(|e| e.to_string())?;
    let b = ParquetRecordBatchReaderBuilder::try_new(file).map_err(|e| e.to_string())?;
    let rgs = b.metadata().num_row_groups();
    let reader = b.build().map_err(|e| e.to_string())?;
    let mut batches = vec![];
    for r in reader {
        batches.push(r.map_err(|e| e.to_string())?);
    }
    Ok((batches_to_rows(&batches), rgs))
}

// ------------------------------------------------------------------------------------------
// reader options
// ------------------------------------------------------------------------------------------

#[derive(Clone, Debug, PartialEq)]
struct ROpts {
    pruning: bool,
    page_index: bool,
    bloom: bool,
    pushdown: bool,
    reorder: bool,
    force_sel: bool,
    /// 0 default, 1 = 0 bytes, 2 = huge
    cache: u8,
    view_types: bool,
    bin_str: bool,
    collect_stats: bool,
    dyn_filter: bool,
    topk_dyn: bool,
    tp: usize,
    bs: usize,
}

impl ROpts {
    fn baseline(view_types: bool, bin_str: bool) -> ROpts {
        ROpts { pruning: false, page_index: false, bloom: false, pushdown: false, reorder: false, force_sel: false, cache: 1, view_types, bin_str, collect_stats: false, dyn_filter: false, topk_dyn: false, tp: 1, bs: 8192 }
    }
    fn all_on(rng: &mut Rng) -> ROpts {
        ROpts { pruning: true, page_index: true, bloom: true, pushdown: true, reorder: rng.bool(), force_sel: false, cache: 0, view_types: rng.bool(), bin_str: false, collect_stats: true, dyn_filter: true, topk_dyn: true, tp: 1 + rng.usize(3), bs: *rng.pick(&[3usize, 64, 8192]) }
    }
    fn random(rng: &mut Rng) -> ROpts {
        ROpts {
            pruning: rng.chance(3, 4),
            page_index: rng.chance(3, 4),
            bloom: rng.chance(3, 4),
            pushdown: rng.chance(2, 3),
            reorder: rng.bool(),
            force_sel: rng.chance(1, 3),
            cache: rng.below(3) as u8,
            view_types: rng.bool(),
            bin_str: rng.chance(1, 4),
            collect_stats: rng.chance(2, 3),
            dyn_filter: rng.chance(3, 4),
            topk_dyn: rng.chance(3, 4),
            tp: 1 + rng.usize(4),
            bs: *rng.pick(&[1usize, 3, 7, 64, 8192]),
        }
    }
    fn session(&self) -> SessionContext {
        let mut cfg = SessionConfig::new().with_target_partitions(self.tp).with_batch_size(self.bs).with_information_schema(false);
        {
            let o = cfg.options_mut();
            let p = &mut o.execution.parquet;
            p.pruning = self.pruning;
            p.enable_page_index = self.page_index;
            p.bloom_filter_on_read = self.bloom;
            p.pushdown_filters = self.pushdown;
            p.reorder_filters = self.reorder;
            p.force_filter_selections = self.force_sel;
            p.max_predicate_cache_size = match self.cache {
                0 => None,
                1 => Some(0),
                _ => Some(1 << 30),
            };
            p.schema_force_view_types = self.view_types;
            p.binary_as_string = self.bin_str;
            o.execution.collect_statistics = self.collect_stats;
            o.optimizer.enable_dynamic_filter_pushdown = self.dyn_filter;
            o.optimizer.enable_topk_dynamic_filter_pushdown = self.topk_dyn;
        }
        SessionContext::new_with_config(cfg)
    }
    fn json(&self) -> Json {
        json!({
            "datafusion.execution.parquet.pruning": self.pruning, "datafusion.execution.parquet.enable_page_index": self.page_index,
            "datafusion.execution.parquet.bloom_filter_on_read": self.bloom, "datafusion.execution.parquet.pushdown_filters": self.pushdown,
            "datafusion.execution.parquet.reorder_filters": self.reorder, "datafusion.execution.parquet.force_filter_selections": self.force_sel,
            "datafusion.execution.parquet.max_predicate_cache_size": match self.cache { 0 => json!(null), 1 => json!(0), _ => json!(1u64 << 30) },
            "datafusion.execution.parquet.schema_force_view_types": self.view_types, "datafusion.execution.parquet.binary_as_string": self.bin_str,
            "datafusion.execution.collect_statistics": self.collect_stats, "datafusion.optimizer.enable_dynamic_filter_pushdown": self.dyn_filter,
            "datafusion.optimizer.enable_topk_dynamic_filter_pushdown": self.topk_dyn, "datafusion.execution.target_partitions": self.tp, "datafusion.execution.batch_size": self.bs,
        })
    }
    /// option names that can be switched off one at a time for localisation
    fn toggles(&self) -> Vec<(&'static str, ROpts)> {
        let mut v = vec![];
        let mut add = |name: &'static str, on: bool, f: &dyn Fn(&mut ROpts)| {
            if on {
                let mut o = self.clone();
                f(&mut o);
                v.push((name, o));
            }
        };
        add("pushdown_filters", self.pushdown, &|o| o.pushdown = false);
        add("enable_page_index", self.page_index, &|o| o.page_index = false);
        add("bloom_filter_on_read", self.bloom, &|o| o.bloom = false);
        add("pruning", self.pruning, &|o| o.pruning = false);
        add("reorder_filters", self.reorder, &|o| o.reorder = false);
        add("force_filter_selections", self.force_sel, &|o| o.force_sel = false);
        add("force_filter_selections=true (instead of false)", !self.force_sel && self.pushdown, &|o| o.force_sel = true);
        add("max_predicate_cache_size", self.cache != 1, &|o| o.cache = 1);
        add("collect_statistics", self.collect_stats, &|o| o.collect_stats = false);
        add("dynamic_filter_pushdown", self.dyn_filter || self.topk_dyn, &|o| {
            o.dyn_filter = false;
            o.topk_dyn = false
        });
        add("target_partitions", self.tp != 1, &|o| o.tp = 1);
        add("batch_size", self.bs != 8192, &|o| o.bs = 8192);
        v
    }
}

// ------------------------------------------------------------------------------------------
// queries
// ------------------------------------------------------------------------------------------

#[derive(Clone, Debug)]
enum Form {
    Full,
    Count,
    Limit(usize),
    /// ORDER BY key [DESC] [NULLS FIRST] (, rid) LIMIT n
    TopK { key: usize, desc: bool, nulls_first: bool, n: usize, tie_rid: bool },
    /// SELECT file_row_index(), fid, pos, proj... [LIMIT n]
    RowIndex(Option<usize>),
}

#[derive(Clone, Debug)]
struct Query {
    pred: P,
    /// extra conjunct `file_row_index() >= k` (a filter that cannot be evaluated inside the decoder)
    fri_ge: Option<i64>,
    proj: Vec<usize>,
    form: Form,
}

impl Query {
    fn text(&self, cols: &[ColSpec]) -> String {
        let proj = self.proj.iter().map(|c| cols[*c].name.clone()).collect::<Vec<_>>().join(", ");
        let mut w = self.pred.text(cols);
        if let Some(k) = self.fri_ge {
            w = format!("({w}) AND file_row_index() >= {k}");
        }
        match &self.form {
            Form::Full => format!("SELECT {proj} FROM t WHERE {w}"),
            Form::Count => format!("SELECT count(*) FROM t WHERE {w}"),
            Form::Limit(n) => format!("SELECT {proj} FROM t WHERE {w} LIMIT {n}"),
            Form::TopK { key, desc, nulls_first, n, tie_rid } => format!(
                "SELECT {proj} FROM t WHERE {w} ORDER BY {}{}{}{} LIMIT {n}",
                cols[*key].name,
                if *desc { " DESC" } else { " ASC" },
                if *nulls_first { " NULLS FIRST" } else { " NULLS LAST" },
                if *tie_rid { ", rid" } else { "" }
            ),
            Form::RowIndex(l) => format!("SELECT file_row_index(), fid, pos, {proj} FROM t WHERE {w}{}", l.map(|n| format!(" LIMIT {n}")).unwrap_or_default()),
        }
    }

    fn filter_expr(&self, cols: &[ColSpec]) -> Expr {
        let mut e = self.pred.expr(cols);
        if let Some(k) = self.fri_ge {
            e = e.and(file_row_index().gt_eq(lit(k)));
        }
        e
    }

    fn proj_exprs(&self, cols: &[ColSpec]) -> Vec<Expr> {
        self.proj.iter().map(|c| colref(&cols[*c].name)).collect()
    }

    /// `unlimited`: drop the LIMIT (the full answer a LIMIT result must be a sub-multiset of)
    fn dataframe(&self, df: DataFrame, cols: &[ColSpec], unlimited: bool) -> Result<DataFrame, DataFusionError> {
        let df = df.filter(self.filter_expr(cols))?;
        match &self.form {
            Form::Full => df.select(self.proj_exprs(cols)),
            Form::Count => df.aggregate(vec![], vec![count_all()]),
            Form::Limit(n) => {
                let df = df.select(self.proj_exprs(cols))?;
                if unlimited { Ok(df) } else { df.limit(0, Some(*n)) }
            }
            Form::TopK { key, desc, nulls_first, n, tie_rid } => {
                let mut keys = vec![colref(&cols[*key].name).sort(!*desc, *nulls_first)];
                if *tie_rid {
                    keys.push(colref("rid").sort(true, false));
                }
                df.sort(keys)?.limit(0, Some(*n))?.select(self.proj_exprs(cols))
            }
            Form::RowIndex(l) => {
                let mut e = vec![file_row_index().alias("fri"), colref("fid"), colref("pos")];
                e.extend(self.proj_exprs(cols));
                let df = df.select(e)?;
                match l {
                    Some(n) if !unlimited => df.limit(0, Some(*n)),
                    _ => Ok(df),
                }
            }
        }
    }
}

#[derive(Default, Debug, Clone)]
struct ScanMetrics {
    m: BTreeMap<String, u64>,
}

fn walk_metrics(plan: &Arc<dyn ExecutionPlan>, out: &mut ScanMetrics) {
    if let Some(set) = plan.metrics() {
        for m in set.iter() {
            match m.value() {
                MetricValue::PruningMetrics { name, pruning_metrics } => {
                    *out.m.entry(format!("{name}.pruned")).or_insert(0) += pruning_metrics.pruned() as u64;
                    *out.m.entry(format!("{name}.matched")).or_insert(0) += pruning_metrics.matched() as u64;
                }
                MetricValue::Count { name, count } => {
                    *out.m.entry(name.to_string()).or_insert(0) += count.value() as u64;
                }
                _ => {}
            }
        }
    }
    for c in plan.children() {
        walk_metrics(c, out);
    }
}

async fn run_query(q: &Query, cols: &[ColSpec], dir: &str, o: &ROpts, unlimited: bool) -> Result<(Vec<Vec<V>>, ScanMetrics, SchemaRef), DataFusionError> {
    let ctx = o.session();
    ctx.register_parquet("t", dir, ParquetReadOptions::default()).await?;
    let df = q.dataframe(ctx.table("t").await?, cols, unlimited)?;
    let plan = df.create_physical_plan().await?;
    let schema = plan.schema();
    let batches: Vec<RecordBatch> = collect(plan.clone(), ctx.task_ctx()).await?;
    let mut m = ScanMetrics::default();
    walk_metrics(&plan, &mut m);
    Ok((batches_to_rows(&batches), m, schema))
}

// ------------------------------------------------------------------------------------------
// comparison
// ------------------------------------------------------------------------------------------

fn diff_note(got: &[Vec<V>], want: &[Vec<V>]) -> Json {
    // rows only in one of the two multisets (first few)
    let mut g: Vec<Vec<V>> = got.to_vec();
    let mut w: Vec<Vec<V>> = want.to_vec();
    sort_rows(&mut g);
    sort_rows(&mut w);
    let (mut i, mut j) = (0, 0);
    let (mut extra, mut missing) = (vec![], vec![]);
    while i < g.len() || j < w.len() {
        if i < g.len() && j < w.len() && rows_same(&g[i], &w[j]) {
            i += 1;
            j += 1;
        } else if j >= w.len() || (i < g.len() && row_total_cmp(&g[i], &w[j]) == std::cmp::Ordering::Less) {
            extra.push(g[i].clone());
            i += 1;
        } else {
            missing.push(w[j].clone());
            j += 1;
        }
    }
    json!({"observed_rows": got.len(), "expected_rows": want.len(), "missing_rows": rows_json(&missing[..missing.len().min(8)]), "unexpected_rows": rows_json(&extra[..extra.len().min(8)]), "n_missing": missing.len(), "n_unexpected": extra.len()})
}

/// Ok(()) or (kind, detail)
fn compare(q: &Query, got: &[Vec<V>], base: &[Vec<V>]) -> Result<(), (String, Json)> {
    match &q.form {
        Form::Full | Form::Count => {
            if multiset_eq(got, base) {
                Ok(())
            } else {
                Err(("result-mismatch".into(), diff_note(got, base)))
            }
        }
        Form::Limit(n) => {
            let want = (*n).min(base.len());
            if got.len() != want {
                Err(("limit-cardinality".into(), json!({"observed_rows": got.len(), "expected_rows": want, "full_answer_rows": base.len()})))
            } else if !sub_multiset(got, base) {
                Err(("limit-rows-not-in-full-answer".into(), diff_note(got, base)))
            } else {
                Ok(())
            }
        }
        Form::TopK { tie_rid, .. } => {
            if got.len() != base.len() {
                return Err(("topk-cardinality".into(), json!({"observed_rows": got.len(), "expected_rows": base.len()})));
            }
            // with the rid tie-breaker the order is total; otherwise only the key column (first projected) is determined
            for (i, (a, b)) in got.iter().zip(base.iter()).enumerate() {
                let same = if *tie_rid { rows_same(a, b) } else { a[0].same(&b[0]) };
                if !same {
                    return Err(("topk-sequence".into(), json!({"position": i, "observed": rows_json(&[a.clone()]), "expected": rows_json(&[b.clone()]), "observed_rows": got.len()})));
                }
            }
            Ok(())
        }
        Form::RowIndex(None) => {
            let strip = |r: &[Vec<V>]| r.iter().map(|x| x[1..].to_vec()).collect::<Vec<_>>();
            if multiset_eq(&strip(got), &strip(base)) {
                Ok(())
            } else {
                Err(("result-mismatch".into(), diff_note(&strip(got), &strip(base))))
            }
        }
        Form::RowIndex(Some(n)) => {
            let strip = |r: &[Vec<V>]| r.iter().map(|x| x[1..].to_vec()).collect::<Vec<_>>();
            let want = (*n).min(base.len());
            if got.len() != want {
                Err(("limit-cardinality".into(), json!({"observed_rows": got.len(), "expected_rows": want, "full_answer_rows": base.len()})))
            } else if !sub_multiset(&strip(got), &strip(base)) {
                Err(("limit-rows-not-in-full-answer".into(), diff_note(&strip(got), &strip(base))))
            } else {
                Ok(())
            }
        }
    }
}

/// rows whose `file_row_index()` (column 0) differs from the recorded position (column 2)
fn bad_row_index(got: &[Vec<V>]) -> Vec<Vec<V>> {
    got.iter().filter(|r| !r[0].same(&r[2])).cloned().collect()
}

// ------------------------------------------------------------------------------------------
// one dataset
// ------------------------------------------------------------------------------------------

fn gen_query(rng: &mut Rng, ds: &Dataset, pools: &[Vec<V>]) -> (Query, BTreeSet<&'static str>) {
    let ncols = ds.cols.len();
    let mut allowed: Vec<usize> = (3..ncols).collect();
    if rng.chance(1, 4) {
        allowed.push(2); // pos
        allowed.push(0); // rid
    }
    let cfg = PredCfg { dom: Dom { special_floats: ds.special_floats, extremes: false }, max_depth: 3, allowed, pools: pools.to_vec(), ..PredCfg::default() };
    let depth = rng.usize(4);
    let (pred, tags) = {
        let mut g = PredGen::new(rng, &ds.cols, &cfg);
        let p = g.pred(depth);
        (p, g.tags)
    };
    // projection: random subset (may omit the predicate columns), in random order
    let mut proj: Vec<usize> = (0..ncols).filter(|_| rng.chance(2, 5)).collect();
    rng.shuffle(&mut proj);
    if proj.is_empty() {
        proj.push(rng.usize(ncols));
    }
    let form = match rng.below(20) {
        0..=6 => Form::Full,
        7..=9 => Form::Count,
        10..=12 => Form::Limit(*rng.pick(&[0usize, 1, 3, 10, 50])),
        13..=16 => {
            let key = 3 + rng.usize(ncols - 3);
            let tie_rid = rng.chance(3, 4);
            // the key is the first projected column (needed by the key-only comparison)
            proj.retain(|c| *c != key);
            proj.insert(0, key);
            if tie_rid && !proj.contains(&0) {
                proj.push(0);
            }
            Form::TopK { key, desc: rng.bool(), nulls_first: rng.bool(), n: *rng.pick(&[1usize, 2, 5, 17]), tie_rid }
        }
        _ => {
            proj.retain(|c| *c != 1 && *c != 2);
            if proj.is_empty() {
                proj.push(0);
            }
            Form::RowIndex(if rng.chance(1, 3) { Some(*rng.pick(&[1usize, 4, 20])) } else { None })
        }
    };
    let fri_ge = if rng.chance(1, 8) { Some(rng.range(0, 30)) } else { None };
    (Query { pred, fri_ge, proj, form }, tags)
}

/// the harness' own answer for Full / Count / RowIndex(None) queries (None when it declines)
fn own_answer(q: &Query, ds: &Dataset) -> Option<Vec<Vec<V>>> {
    let rows = ds.all_rows();
    let mut out = vec![];
    for r in &rows {
        let mut keep = q.pred.eval(r, &ds.cols).ok()? == Some(true);
        if let (true, Some(k)) = (keep, q.fri_ge) {
            keep = matches!(&r[2], V::I(p) if *p >= k);
        }
        if keep {
            out.push(r.clone());
        }
    }
    Some(match &q.form {
        Form::Full => out.iter().map(|r| q.proj.iter().map(|c| r[*c].clone()).collect()).collect(),
        Form::Count => vec![vec![V::I(out.len() as i64)]],
        Form::RowIndex(None) => out
            .iter()
            .map(|r| {
                let mut x = vec![r[2].clone(), r[1].clone(), r[2].clone()];
                x.extend(q.proj.iter().map(|c| r[*c].clone()));
                x
            })
            .collect(),
        _ => return None,
    })
}

struct Ctl {
    selftest: bool,
    preds: u64,
    optsets: u64,
}

fn one_dataset(rep: &Report, rng: &mut Rng, forced: Option<(usize, u8, bool, bool)>, ctl: &Ctl, ctl_tag: &str, aimed_floats: bool) {
    let ds = if aimed_floats { gen_float_dataset(rng, forced.unwrap_or((2, 2, true, true))) } else { gen_dataset(rng, forced) };
    let tmp = match tempfile::Builder::new().prefix("c24-").tempdir_in(std::env::temp_dir()) {
        Ok(t) => t,
        Err(e) => {
            rep.inconclusive(&format!("cannot create a temp dir: {e}"));
            return;
        }
    };
    let dir = format!("{}/", tmp.path().display());
    let rt = dfv::engine::current_thread_rt();
    rt.block_on(async {
        if let Err(e) = write_dataset(&ds, tmp.path(), rng).await {
            rep.skip("writer-error");
            rep.count("writer_errors", 1);
            rep.extra("writer_error_sample", json!({"writer": ds.writer.json(), "error": e}));
            return;
        }
        // ground truth for positions: what a plain reader sees in each file
        let mut row_groups = 0;
        for (f, rows) in ds.files.iter().enumerate() {
            match read_back(&tmp.path().join(format!("f{f}.parquet"))) {
                Ok((back, rgs)) => {
                    row_groups += rgs;
                    if back.len() != rows.len() || !back.iter().zip(rows.iter()).all(|(a, b)| rows_same(a, b)) {
                        rep.skip("written-file-does-not-read-back (C25's concern)");
                        return;
                    }
                }
                Err(_) => {
                    rep.skip("written-file-unreadable (C25's concern)");
                    return;
                }
            }
        }
        rep.count("datasets", 1);
        rep.count("files", ds.files.len() as u64);
        rep.count("row_groups_written", row_groups as u64);
        rep.count(&format!("writer:stats={}", ["none", "chunk", "page"][ds.writer.stats as usize]), 1);
        rep.count(&format!("writer:max_row_group_size={}", ds.writer.max_rg), 1);
        rep.count(&format!("writer:bloom={}", ds.writer.bloom), 1);
        rep.count(&format!("writer:dictionary={}", ds.writer.dict), 1);
        rep.count(&format!("writer:{}", if ds.writer.via_dataframe { "DataFrame::write_parquet" } else { "ArrowWriter" }), 1);
        for l in &ds.layouts[3..] {
            rep.count(&format!("layout:{l}"), 1);
        }
        let all = ds.all_rows();
        let pools: Vec<Vec<V>> = (0..ds.cols.len())
            .map(|c| {
                let mut v: Vec<V> = vec![];
                for r in &all {
                    if !r[c].is_null() && v.len() < 40 && !v.iter().any(|x| x.same(&r[c])) {
                        v.push(r[c].clone());
                    }
                }
                v
            })
            .collect();
        let ds_fp = fp_str(&ds.json().to_string());

        let aimed = if aimed_floats { aimed_float_queries(rng) } else { vec![] };
        let nq = if aimed_floats { aimed.len() as u64 } else { ctl.preds };
        let optsets = if aimed_floats { 3 } else { ctl.optsets };
        for qi in 0..nq {
            let (q, tags) = if aimed_floats { aimed[qi as usize].clone() } else { gen_query(rng, &ds, &pools) };
            let qtext = q.text(&ds.cols);
            let own = own_answer(&q, &ds);
            // baselines per schema-affecting option pair
            let mut baselines: BTreeMap<(bool, bool), Option<Vec<Vec<V>>>> = BTreeMap::new();
            for oi in 0..optsets {
                rep.count("generated_pairs", 1);
                let o = if oi == 0 { ROpts::all_on(rng) } else { ROpts::random(rng) };
                let fp = fp_mix(fp_mix(ds_fp, fp_str(&qtext)), fp_str(&format!("{o:?}")));
                let key = (o.view_types, o.bin_str);
                if !baselines.contains_key(&key) {
                    let bo = ROpts::baseline(o.view_types, o.bin_str);
                    let unlimited = matches!(q.form, Form::Limit(_) | Form::RowIndex(Some(_)));
                    let r = match tokio::time::timeout(std::time::Duration::from_secs(60), run_query(&q, &ds.cols, &dir, &bo, unlimited)).await {
                        Ok(Ok((rows, _, _))) => Some(rows),
                        Ok(Err(e)) => {
                            let cls = dfv::engine::classify(&e);
                            rep.skip(&format!("baseline-error:{cls:?}"));
                            if rep.get_count("baseline_error_samples") < 8 {
                                rep.count("baseline_error_samples", 1);
                                rep.extra(&format!("baseline_error_sample_{}", rep.get_count("baseline_error_samples")), json!({"query": qtext, "error": e.to_string().chars().take(240).collect::<String>()}));
                            }
                            None
                        }
                        Err(_) => {
                            rep.inconclusive("a baseline query exceeded the 60 s guard");
                            None
                        }
                    };
                    // the second oracle: the harness' own filter over the generated rows
                    if let (Some(b), Some(own)) = (&r, &own) {
                        rep.count("baseline_checked_against_own_filter", 1);
                        if !multiset_eq(b, own) {
                            let sig = if has_not_in_null_next_to_in(&q.pred) {
                                "plain-filter-differs-from-harness-evaluator/in-list-merged-with-not-in-null"
                            } else if ds.special_floats && has_zero_in_list(&q.pred) {
                                // InListExpr's set lookup distinguishes -0.0 from +0.0, `=` (which the harness evaluator follows) does not
                                "plain-filter-differs-from-harness-evaluator/float-zero-sign-in-list-evaluation"
                            } else {
                                // the UNPRUNED scan + filter already differs from the harness evaluator: expression
                                // evaluation / simplification (C04, C33), not pruning or pushdown, is what deviates.
                                // Observed, not judged here.
                                rep.count("plain_filter_differs_from_harness_evaluator_unclassified", 1);
                                continue;
                            };
                            rep.violation(
                                sig,
                                json!({"query": qtext, "logical_filter": format!("{}", q.filter_expr(&ds.cols)), "dataset": ds.json(), "options": bo.json(), "diff": diff_note(b, own),
                                    "expected": "an unpruned scan + filter returns the rows the harness' own evaluator selects"}),
                            );
                        }
                    }
                    baselines.insert(key, r);
                }
                let Some(base) = baselines.get(&key).cloned().flatten() else {
                    rep.case(fp, false);
                    continue;
                };
                let res = match tokio::time::timeout(std::time::Duration::from_secs(60), run_query(&q, &ds.cols, &dir, &o, false)).await {
                    Ok(r) => r,
                    Err(_) => {
                        rep.inconclusive("a query exceeded the 60 s guard");
                        rep.case(fp, false);
                        continue;
                    }
                };
                let (mut got, metrics, _schema) = match res {
                    Ok(x) => x,
                    Err(e) => {
                        // the statement demands the same rows; a scan that fails where the plain scan succeeds does not return them
                        rep.case(fp, true);
                        let msg = e.to_string();
                        let mut fixers = vec![];
                        for (name, o2) in o.toggles() {
                            if let Ok(Ok((rows2, _, _))) = tokio::time::timeout(std::time::Duration::from_secs(60), run_query(&q, &ds.cols, &dir, &o2, false)).await {
                                if compare(&q, &rows2, &base).is_ok() {
                                    fixers.push(name);
                                }
                            }
                        }
                        let culprit = fixers.first().map(|s| s.to_string()).unwrap_or_else(|| "unlocalised".to_string());
                        let kind = if msg.contains("Invalid offset in sparse column chunk data") {
                            "sparse-column-chunk-no-matching-page"
                        } else {
                            rep.count("unclassified_violations", 1);
                            "other-error"
                        };
                        rep.violation(
                            &(if kind == "other-error" { format!("scan-fails-where-plain-scan-succeeds/{kind}/{culprit}") } else { format!("scan-fails-where-plain-scan-succeeds/{kind}") }),
                            json!({"query": qtext, "logical_filter": format!("{}", q.filter_expr(&ds.cols)), "dataset": ds.json(), "options": o.json(), "error": msg.chars().take(500).collect::<String>(), "expected_rows": base.len(), "succeeds_when_switching_off": fixers, "generated_as": ctl_tag}),
                        );
                        continue;
                    }
                };
                if ctl.selftest {
                    // corrupt the observed output
                    if matches!(q.form, Form::Count) {
                        if let Some(V::I(n)) = got.get_mut(0).and_then(|r| r.get_mut(0)) {
                            *n += 1;
                        }
                    } else if !got.is_empty() {
                        got.pop();
                    }
                }
                for (k, v) in &metrics.m {
                    if *v > 0 && (k.contains("pruned") || k.contains("matched") || k.contains("predicate_cache")) {
                        rep.count(&format!("metric:{k}"), *v);
                    }
                }
                let pruned_something = metrics.m.iter().any(|(k, v)| *v > 0 && (k.ends_with(".pruned") || k == "pushdown_rows_pruned" || k == "row_groups_pruned_dynamic_filter"));
                let matched_rows = match q.form {
                    Form::Count => !matches!(base.first().and_then(|r| r.first()), Some(V::I(0))),
                    _ => !base.is_empty(),
                };
                rep.case(fp, pruned_something && matched_rows);
                rep.count("compared", 1);
                rep.count(&format!("form:{}", match q.form { Form::Full => "select", Form::Count => "count(*)", Form::Limit(_) => "limit", Form::TopK { tie_rid: true, .. } => "order-by-key-rid-limit", Form::TopK { .. } => "order-by-key-limit", Form::RowIndex(None) => "file_row_index", Form::RowIndex(Some(_)) => "file_row_index+limit" }), 1);
                for (name, on) in [("pruning", o.pruning), ("enable_page_index", o.page_index), ("bloom_filter_on_read", o.bloom), ("pushdown_filters", o.pushdown), ("reorder_filters", o.reorder), ("force_filter_selections", o.force_sel), ("schema_force_view_types", o.view_types), ("binary_as_string", o.bin_str), ("collect_statistics", o.collect_stats), ("dynamic_filters", o.dyn_filter)] {
                    rep.count(&format!("option:{name}={on}"), 1);
                }
                rep.count(&format!("option:max_predicate_cache_size={}", ["default", "0", "1GiB"][o.cache as usize]), 1);
                if q.fri_ge.is_some() {
                    rep.count("queries_with_unpushable_conjunct", 1);
                }
                let mut pcols = BTreeSet::new();
                q.pred.columns(&mut pcols);
                if !matches!(q.form, Form::Count) && pcols.iter().any(|c| !q.proj.contains(c)) {
                    rep.count("predicate_on_non_projected_column", 1);
                }
                for t in &tags {
                    rep.count(&format!("shape:{t}"), 1);
                }
                let mut failure = compare(&q, &got, &base).err();
                if failure.is_none() {
                    if let Form::RowIndex(_) = q.form {
                        rep.count("row_index_values_checked", got.len() as u64);
                        let bad = bad_row_index(&got);
                        if !bad.is_empty() {
                            failure = Some(("file-row-index-not-position".into(), json!({"rows [file_row_index, fid, pos, ...]": rows_json(&bad[..bad.len().min(8)]), "n_bad": bad.len()})));
                        }
                    }
                }
                if let Some((kind, detail)) = failure {
                    // localisation: which single option, switched off, restores agreement?
                    let mut culprit = "unlocalised".to_string();
                    for (name, o2) in o.toggles() {
                        if let Ok(Ok((rows2, _, _))) = tokio::time::timeout(std::time::Duration::from_secs(60), run_query(&q, &ds.cols, &dir, &o2, false)).await {
                            let ok = compare(&q, &rows2, &base).is_ok() && (!matches!(q.form, Form::RowIndex(_)) || bad_row_index(&rows2).is_empty());
                            if ok {
                                culprit = name.to_string();
                                break;
                            }
                        }
                    }
                    // classification of two root causes that only special float values can trigger
                    let mut sig = format!("{kind}/{culprit}");
                    let mut classified = false;
                    if ds.special_floats && kind == "result-mismatch" && matches!(q.form, Form::Full | Form::Count | Form::RowIndex(None)) && !ctl.selftest {
                        let fcols: Vec<usize> = pcols.iter().copied().filter(|c| ds.cols[*c].ct == CT::F64).collect();
                        let (mut n_nan, mut n_zero) = (0i64, 0i64);
                        let mut evaluable = !fcols.is_empty();
                        for r in &all {
                            match q.pred.eval(r, &ds.cols) {
                                Ok(Some(true)) => {
                                    if fcols.iter().any(|c| matches!(&r[*c], V::F(f) if f.is_nan())) {
                                        n_nan += 1;
                                    }
                                    if fcols.iter().any(|c| matches!(&r[*c], V::F(f) if *f == 0.0)) {
                                        n_zero += 1;
                                    }
                                }
                                Ok(_) => {}
                                Err(_) => evaluable = false,
                            }
                        }
                        let (exp_n, got_n, extra_rows) = match q.form {
                            Form::Count => (if let Some(V::I(n)) = base.first().and_then(|r| r.first()) { *n } else { 0 }, if let Some(V::I(n)) = got.first().and_then(|r| r.first()) { *n } else { 0 }, false),
                            _ => (base.len() as i64, got.len() as i64, detail.get("n_unexpected").and_then(|x| x.as_u64()).unwrap_or(1) > 0),
                        };
                        let miss = exp_n - got_n;
                        if evaluable && !extra_rows && miss > 0 {
                            if culprit == "bloom_filter_on_read" && miss <= n_zero {
                                // the bloom filter is probed with the literal's bit pattern; `=` treats -0.0 and +0.0 as equal
                                sig = "result-mismatch/signed-zero-rows-lost-by-bloom-filter".into();
                                classified = true;
                            } else if culprit != "bloom_filter_on_read" && miss <= n_nan {
                                // Parquet min/max statistics ignore NaN, the engine orders NaN above every number
                                sig = "result-mismatch/nan-rows-lost-by-min-max-pruning".into();
                                classified = true;
                            }
                        }
                    }
                    if !classified {
                        rep.count("unclassified_violations", 1);
                        if ds.special_floats && pcols.iter().any(|c| ds.cols[*c].ct == CT::F64) {
                            sig.push_str("/float-column-with-nan-inf-negzero");
                        }
                    }
                    rep.violation(
                        &sig,
                        json!({"query": qtext, "logical_filter": format!("{}", q.filter_expr(&ds.cols)), "dataset": ds.json(), "options": o.json(), "scan_metrics": metrics.m, "detail": detail,
                            "restored_by_switching_off": culprit, "generated_as": ctl_tag, "expected": "the same rows as the query with every pruning / pushdown option off", "self_test": ctl.selftest}),
                    );
                } else if rep.want_sample() && pruned_something && matched_rows && tags.len() >= 3 {
                    rep.sample(json!({"query": qtext, "writer": ds.writer.json(), "options": o.json(), "rows": base.len(), "scan_metrics": metrics.m}));
                }
                // the third comparison: the optimised scan against the harness' own filter
                if let (Some(own), false) = (&own, ctl.selftest) {
                    let got_cmp: Vec<Vec<V>> = got.clone();
                    if compare(&q, &got_cmp, &base).is_ok() && !multiset_eq_form(&q, &got_cmp, own) {
                        rep.count("own_filter_disagrees_although_baseline_agrees", 1);
                    }
                }
            }
        }
    });
    drop(tmp);
}

fn multiset_eq_form(q: &Query, got: &[Vec<V>], own: &[Vec<V>]) -> bool {
    match q.form {
        Form::RowIndex(None) => {
            let strip = |r: &[Vec<V>]| r.iter().map(|x| x[1..].to_vec()).collect::<Vec<_>>();
            multiset_eq(&strip(got), &strip(own))
        }
        _ => multiset_eq(got, own),
    }
}

fn run(args: &Args) -> i32 {
    let rep = Report::new("C24", "exploration", args);
    rep.set_rule("case = (dataset of 50-400 rows in 1-3 Parquet files written by the real writer with a random row-group/page/statistics/bloom/dictionary layout, predicate, projection, query form [select | count(*) | LIMIT | ORDER BY..LIMIT | file_row_index()], reader option set) compared with the same query under every pruning/pushdown option off; distinct = hash(dataset, query, options); non-trivial = the scan metrics show that something was pruned (row groups / pages / rows) and the expected answer is non-empty");
    rep.assume("the plain scan (all pruning and pushdown options off, filter above the scan, no statistics collection, one partition) is the reference; it is itself cross-checked against the harness' own row filter for the predicates the harness can evaluate");
    rep.assume("scan metrics are used as coverage evidence only");
    let ctl = Ctl { selftest: args.opt_u64("selftest", 0) == 1, preds: args.bound("predicates", 10, 30), optsets: args.bound("optionsets", 8, 12) };
    let scale = match args.stage.as_str() {
        "miri" => 100,
        "memcheck" => 10,
        _ => 1,
    };
    // systematic part: every writer layout class once (seed independent)
    let mut forced = vec![];
    for rg in [2usize, 5, 1000] {
        for stats in [0u8, 1, 2] {
            forced.push((rg, stats, (rg + stats as usize) % 2 == 0, stats != 1));
        }
    }
    let n_sys = (args.bound("systematic", 12, 18) as usize).min(forced.len() * 2) / scale.min(4);
    let only = args.opt_str("only").map(|s| s.to_string());
    let skip_item = |part: &str, i: u64| only.as_ref().map(|o| *o != format!("{part}:{i}")).unwrap_or(false);
    vcommon::par::run(args.workers, 0..n_sys as u64, |i| {
        if skip_item("sys", i) {
            return;
        }
        let mut rng = Rng::derive(0xC24, &[0, i]);
        let f = forced[(i as usize * 7 + 3) % forced.len()];
        let f = if i as usize >= forced.len() { (f.0, f.1, !f.2, !f.3) } else { f };
        if let Err(p) = vcommon::par::guard(|| one_dataset(&rep, &mut rng, Some(f), &ctl, &format!("--opt only=sys:{i}"), i % 6 == 5)) {
            rep.violation("panic", json!({"panic": p, "part": "systematic", "index": i}));
        }
    });
    let n_rand = args.bound("datasets", 28, 900) / scale as u64;
    vcommon::par::run(args.workers, 0..n_rand, |i| {
        if rep.get_count("unclassified_violations") > 30 || skip_item("rand", i) {
            return;
        }
        let mut rng = Rng::derive(args.seed, &[24, 1, i]);
        if let Err(p) = vcommon::par::guard(|| one_dataset(&rep, &mut rng, None, &ctl, &format!("--seed {} --opt only=rand:{i}", args.seed), false)) {
            rep.violation("panic", json!({"panic": p, "part": "random", "seed": args.seed, "index": i}));
        }
    });
    for (name, key) in [
        ("row-groups-pruned-by-statistics", "metric:row_groups_pruned_statistics.pruned"),
        ("pages-pruned-by-page-index", "metric:page_index_rows_pruned.pruned"),
        ("row-groups-pruned-by-bloom-filter", "metric:row_groups_pruned_bloom_filter.pruned"),
        ("rows-pruned-by-pushed-down-filter", "metric:pushdown_rows_pruned"),
    ] {
        rep.obligation(name, rep.get_count(key) > 0, "the mechanism must actually have pruned something");
    }
    rep.obligation("row-index-checked", rep.get_count("row_index_values_checked") > 0, "file_row_index() values must be compared with recorded positions");
    rep.obligation("own-filter-cross-check", rep.get_count("baseline_checked_against_own_filter") > 0, "the reference scan must be cross-checked against the harness' own filter");
    let total = rep.get_count("compared");
    rep.obligation("compared-share", total * 100 >= rep.get_count("generated_pairs") * 40, "at least 40% of the generated (query, option set) pairs must be compared");
    rep.finish()
}

fn main() {
    let args = Args::parse();
    vcommon::par::quiet_panics();
    std::process::exit(run(&args));
}
