//! C30 — produced batches conform to the declared schema.
//!
//! Plan part: every node of every engine-built plan is wrapped by `planmon::MonitorExec`; every
//! batch a node emits must have the node's declared column count and, column by column, the
//! declared `DataType`, and no NULL in a column declared non-nullable. The collected result's types
//! must be logically equivalent (dictionary / string / binary encodings collapsed) to the LOGICAL
//! plan's output types (`DataFrame::schema`).
//!
//! Function part: every scalar function of the registries, invoked through `invoke_with_args` over
//! a few argument rows per accepted type list: the result's type equals the type promised by
//! `return_field_from_args`, and an Array result has exactly `number_rows` rows.

use arrow::datatypes::DataType;
use datafusion_common::config::ConfigOptions;
use datafusion_common::ScalarValue;
use dfv::cases::Case;
use dfv::fnrep::enc::{ArgRep, Shape};
use dfv::fnrep::inv::{invoke_chunk, render_sv, Out};
use dfv::fnrep::types::type_groups;
use dfv::fnrep::vals::{ArgPools, PoolOpts};
use dfv::fnrep::{registry, FnEntry};
use dfv::planmon::*;
use dfv::qgen::GenCfg;
use std::sync::Arc;
use vcommon::{json, Args, Report, Rng};

const REQUIRED_NODE_KINDS: &[&str] = &[
    "DataSourceExec", "ProjectionExec", "FilterExec", "SortExec", "SortPreservingMergeExec", "AggregateExec", "HashJoinExec", "SortMergeJoinExec",
    "NestedLoopJoinExec", "CrossJoinExec", "RepartitionExec", "CoalescePartitionsExec", "UnionExec", "BoundedWindowAggExec", "WindowAggExec", "GlobalLimitExec",
];

fn analyse(run: &MonRun, tally: &mut Tally, corrupt: Corrupt) -> Vec<Finding> {
    let mut per_node = vec![];
    let mut corrupted = false;
    for node in &run.wrapped.nodes {
        let obs = observe(node);
        let c = Corrupt { on: corrupt.on && !corrupted && obs.runs.iter().any(|r| !r.batches.is_empty()) };
        corrupted |= c.on;
        per_node.push(check_schema(node, &obs, tally, c));
    }
    let mut out = report_origins(&run.wrapped.nodes, per_node, tally);
    // result types vs the logical plan's output types
    let logical: Vec<DataType> = run.logical_schema.fields().iter().map(|f| logical_type(f.data_type())).collect();
    let optimized: Option<Vec<DataType>> = run.optimized_schema.as_ref().map(|s| s.fields().iter().map(|f| logical_type(f.data_type())).collect());
    for b in &run.batches {
        tally.add("result_batches", "result", 1);
        let got: Vec<DataType> = b.columns().iter().map(|c| logical_type(c.data_type())).collect();
        if got != logical {
            // DataFrame::schema() is the schema of the plan as built by the SQL planner; the analyzer (type
            // coercion) runs later. A mismatch that is gone once the plan is analyzed + optimized is keyed apart.
            let sig = if optimized.as_ref() == Some(&got) { "logical-physical-type-mismatch/result[before-type-coercion-only]" } else { "logical-physical-type-mismatch/result" };
            out.push(Finding {
                sig: sig.into(),
                detail: json!({
                    "what": "the collected result's column types are not logically equivalent to the logical plan's output types (DataFrame::schema)",
                    "logical": run.logical_schema.fields().iter().map(|f| format!("{}: {}", f.name(), f.data_type())).collect::<Vec<_>>(),
                    "optimized_logical": run.optimized_schema.as_ref().map(|s| s.fields().iter().map(|f| format!("{}: {}", f.name(), f.data_type())).collect::<Vec<_>>()),
                    "collected": b.schema().fields().iter().map(|f| format!("{}: {}", f.name(), f.data_type())).collect::<Vec<_>>(),
                }),
            });
            break;
        }
    }
    out
}

fn nontrivial(run: &MonRun) -> bool {
    run.batches.iter().any(|b| b.num_rows() > 0)
}

fn gen_case(rep: &Report, rng: &mut Rng, cfg: &GenCfg, cfg_idx: u64, reg: Reg, reg_seed: u64, corrupt: Corrupt) {
    let case = Case::generate(rng, cfg);
    match prepare_generated(&case, cfg_idx, reg, reg_seed) {
        Ok(p) => {
            drive(rep, p, nontrivial, |run, tally| analyse(run, tally, corrupt));
        }
        Err(_) => rep.skip("harness-registration-failed"),
    }
}

fn fixture_case(rep: &Report, fx: &Fixture, seed: u64, idx: u64, cfg_idx: u64, corrupt: Corrupt) {
    let mut rng = Rng::derive(seed, &[30, 7, idx]);
    let sql = fixture_query(&mut rng, idx);
    let reg_seed = rng.next_u64() % 1000;
    let rt = dfv::engine::current_thread_rt();
    // string views / dictionary-free vs the defaults; filter pushdown on/off
    let sets: &[(&str, &str)] = match idx % 4 {
        0 => &[("datafusion.execution.parquet.schema_force_view_types", "false")],
        1 => &[("datafusion.execution.parquet.pushdown_filters", "true")],
        2 => &[("datafusion.sql_parser.map_string_types_to_utf8view", "false")],
        _ => &[],
    };
    match rt.block_on(prepare_fixture(fx, sql, cfg_idx, reg_seed, sets)) {
        Ok(p) => {
            drop(rt);
            drive(rep, p, nontrivial, |run, tally| analyse(run, tally, corrupt));
        }
        Err(_) => rep.skip("harness-fixture-registration-failed"),
    }
}

// ------------------------------------------------------------------------------------------------
// function part

/// Functions that allocate proportionally to an integer argument: magnitudes are capped.
const ALLOC_BY_INT: &[&str] = &["repeat", "lpad", "rpad", "space", "array_repeat", "array_resize", "range", "generate_series", "sequence", "format_string", "printf", "array_pad", "randstr"];

fn pool_opts(e: &FnEntry) -> PoolOpts {
    let n = e.udf.name();
    if ALLOC_BY_INT.iter().any(|k| n == *k || n.ends_with(k)) {
        PoolOpts { int_cap: Some(2_000), small_time: true }
    } else {
        PoolOpts::default()
    }
}

fn function_case(rep: &Report, e: &FnEntry, seed: u64, cfg: &Arc<ConfigOptions>, corrupt: Corrupt) {
    let groups = type_groups(&e.udf, 4);
    if groups.is_empty() {
        rep.skip("function:no-accepted-type-list-found");
        return;
    }
    let mut invoked = 0u64;
    for (gi, g) in groups.iter().enumerate() {
        let mut lists: Vec<(String, Vec<DataType>)> = vec![("canonical".into(), g.canonical.clone())];
        lists.extend(g.variants.iter().take(3).cloned());
        let Some(pools) = ArgPools::new(&g.canonical, pool_opts(e)) else {
            rep.skip("function:no-value-pool-for-type");
            continue;
        };
        for (vi, (label, types)) in lists.iter().enumerate() {
            for vs in 0..3u64 {
                let mut rng = Rng::derive(seed, &[30, vcommon::fp_str(&e.label), gi as u64, vi as u64, vs]);
                let n = if vs != 1 { 5 } else { 1 + rng.usize(3) };
                // logical rows of the canonical types; column-major
                let rows: Vec<Vec<ScalarValue>> = (0..n).map(|_| pools.row(&mut rng)).collect();
                let mut cols: Vec<Vec<ScalarValue>> = (0..types.len()).map(|j| rows.iter().map(|r| r[j].clone()).collect()).collect();
                // value set 1: the last argument is a constant passed as a scalar (all rows share it)
                let scalar_last = vs == 1 && !types.is_empty();
                if scalar_last {
                    let j = types.len() - 1;
                    let v = cols[j][0].clone();
                    for x in cols[j].iter_mut() {
                        *x = v.clone();
                    }
                }
                let reps: Vec<ArgRep> = types.iter().enumerate().map(|(j, t)| ArgRep { ty: t.clone(), scalar: scalar_last && j + 1 == types.len(), shape: Shape::Plain }).collect();
                let garbage: Vec<Vec<ScalarValue>> = pools.pools.clone();
                let out = invoke_chunk(&e.udf, &cols, &g.canonical, &reps, 0, n, &garbage, cfg);
                let fp = vcommon::fp_mix(vcommon::fp_str(&e.label), vcommon::fp_str(&format!("{types:?}/{vs}")));
                match out {
                    Out::Ok(o) => {
                        invoked += 1;
                        rep.case(fp, true);
                        rep.count("function_invocations", 1);
                        rep.count(&format!("function_invocations_{}", e.registry), 1);
                        let mut raw_type = o.raw_type.clone();
                        let mut raw_len = o.raw_len;
                        if corrupt.on && invoked == 1 {
                            raw_type = if raw_type == DataType::Int8 { DataType::Int16 } else { DataType::Int8 };
                            raw_len = raw_len.map(|l| l + 1);
                        }
                        let witness = |what: &str| {
                            json!({
                                "what": what, "function": e.label, "registry": e.registry, "arg_types": types.iter().map(|t| t.to_string()).collect::<Vec<_>>(), "encoding": label,
                                "last_argument_scalar": scalar_last, "number_rows": n,
                                "rows": rows.iter().map(|r| r.iter().map(render_sv).collect::<Vec<_>>()).collect::<Vec<_>>(),
                                "declared_return_type": o.declared.data_type().to_string(), "returned_type": raw_type.to_string(), "returned_array_len": raw_len,
                            })
                        };
                        if &raw_type != o.declared.data_type() {
                            rep.violation(&format!("function-return-type/{}", e.label), witness("the returned value's data type differs from the type promised by return_field_from_args for exactly these argument fields"));
                        }
                        if let Some(l) = raw_len {
                            if l != n {
                                rep.violation(&format!("function-length/{}", e.label), witness("an Array result does not have number_rows rows"));
                            }
                        }
                    }
                    Out::Rejected(_) => {
                        rep.skip("function:arguments-rejected");
                        rep.case(fp, false);
                    }
                    Out::Err(_) => {
                        rep.skip("function:execution-error");
                        rep.case(fp, false);
                    }
                    Out::Panic(m) => {
                        // a panic is a crash finding of C32/C34, not a schema-conformance verdict
                        rep.skip("function:panic");
                        rep.case(fp, false);
                        if rep.get_count("function_panic_samples") < 4 {
                            rep.count("function_panic_samples", 1);
                            rep.extra(&format!("function_panic_{}", rep.get_count("function_panic_samples")), json!({"function": e.label, "arg_types": types.iter().map(|t| t.to_string()).collect::<Vec<_>>(), "panic": m}));
                        }
                    }
                }
            }
        }
    }
    if invoked > 0 {
        rep.seen("functions_inspected", &e.label);
    } else {
        rep.seen("functions_never_accepted", &e.label);
    }
}

fn run(args: &Args) -> i32 {
    let rep = Report::new("C30", "exploration", args);
    rep.set_rule("plan part: case = (generated tables + generated SELECT of the C01 fragment | template query over MemTable/Parquet/CSV sources) x session configuration x registration; every node is wrapped by MonitorExec and every emitted batch is compared with the node's declared schema (column count, DataType per column, no NULL where non-nullable), the collected result with the logical plan's output types; function part: case = (scalar function, accepted argument type list incl. string/binary/dictionary encodings, value set, arrays vs one scalar argument); distinct = hash(SQL + tables + configuration) resp. hash(function + types + value set); non-trivial = the query produced rows resp. the invocation succeeded");
    rep.assume("logical equivalence of types: dictionary<K,V> = V, run-end-encoded<V> = V, Utf8 = LargeUtf8 = Utf8View, Binary = LargeBinary = BinaryView, recursively inside list / struct / map; field names and nested nullability are not compared");
    rep.assume("nullability is checked one way only: a column declared non-nullable must not contain NULLs");
    rep.assume("function part: a ColumnarValue::Scalar result stands for number_rows equal values; when every argument is a scalar a one-element array is equivalent to a scalar (documented by ScalarFunctionExpr::evaluate)");
    let corrupt = Corrupt { on: args.opt_u64("selftest", 0) == 1 };
    let cfg = GenCfg::default();
    let n_sys = args.bound("systematic", 1500, 6000);
    let n_fix = args.bound("fixture", 580, 2900);
    let n_rand = args.bound("random", 1200, 60_000);
    let fx = match Fixture::new(30, 48) {
        Ok(f) => f,
        Err(e) => {
            rep.inconclusive(&format!("cannot create the fixture files: {e}"));
            return rep.finish();
        }
    };
    vcommon::par::run(args.workers, 0..n_sys, |i| {
        let mut rng = Rng::derive(0xC30, &[0, i / 2]);
        let mut c = cfg.clone();
        c.max_depth = 1 + ((i / 2) % 3) as usize;
        let reg = if i % 4 == 0 { Reg::Sorted(i / 4) } else { Reg::Layout };
        gen_case(&rep, &mut rng, &c, i / 2 + i % 2 * 3, reg, i, corrupt);
    });
    vcommon::par::run(args.workers, 0..n_fix, |i| fixture_case(&rep, &fx, 0xC30, i, i / N_FIXTURE_TEMPLATES, corrupt));
    for k in REQUIRED_NODE_KINDS {
        rep.obligation(&format!("node-kind:{k}"), rep.get_count(&format!("batches/{k}")) > 0, "batches of this operator must be inspected in the systematic part");
    }
    // function part (seed independent value sets + seeded ones in the tail)
    let reg = registry();
    let fcfg = Arc::new(ConfigOptions::default());
    let only = args.opt_str("only").map(|s| s.to_string());
    let fns: Vec<&FnEntry> = reg.fns.iter().filter(|e| only.as_ref().map(|o| &e.label == o).unwrap_or(true)).collect();
    rep.count("functions_in_registries", reg.fns.len() as u64);
    rep.count("functions_skipped_by_name", reg.skipped.len() as u64);
    vcommon::par::run(args.workers, fns.iter(), |e| {
        if vcommon::par::guard(|| function_case(&rep, e, 0xC30, &fcfg, corrupt)).is_err() {
            rep.skip("function:harness-panic");
        }
    });
    rep.obligation("functions-inspected", rep.seen_count("functions_inspected") * 100 >= fns.len() * 70 || only.is_some(), "at least 70% of the registry's functions must be invoked successfully at least once");
    rep.obligation("function-invocations", rep.get_count("function_invocations") >= 2000 || only.is_some(), "at least 2000 successful invocations");
    vcommon::par::run(args.workers, 0..n_rand, |i| {
        if rep.violation_count() > 4000 || !rep.within_budget(args.tier.pick(70.0, 900.0)) {
            return;
        }
        if i % 6 == 5 {
            fixture_case(&rep, &fx, args.seed, 1_000_000 + i, i, corrupt);
            return;
        }
        if i % 10 == 3 && !fns.is_empty() {
            let e = fns[(i as usize / 10) % fns.len()];
            if vcommon::par::guard(|| function_case(&rep, e, args.seed, &fcfg, corrupt)).is_err() {
                rep.skip("function:harness-panic");
            }
            return;
        }
        let mut rng = Rng::derive(args.seed, &[1, i]);
        let mut c = cfg.clone();
        c.max_depth = 1 + (i % 4) as usize;
        if i % 7 == 0 {
            c.max_rows = 30;
        }
        let reg = if i % 4 == 0 { Reg::Sorted(rng.below(5)) } else { Reg::Layout };
        let cfg_idx = rng.below(10);
        gen_case(&rep, &mut rng, &c, cfg_idx, reg, i, corrupt);
    });
    let executed = rep.get_count("executed_generated") + rep.get_count("executed_generated-sorted") + rep.get_count("executed_fixture");
    let guard = rep.get_count("guard_mismatch");
    rep.obligation("guard", guard * 100 <= executed.max(1), "wrapped and unwrapped runs must agree in >= 99% of the executed cases");
    rep.obligation("executed-share", executed * 100 >= (n_sys + n_fix) * 60, "at least 60% of the systematic cases must execute");
    rep.finish()
}

fn main() {
    let args = Args::parse();
    vcommon::par::quiet_panics();
    std::process::exit(run(&args));
}
