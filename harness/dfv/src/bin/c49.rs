//! C49 — catalog changes are applied exactly and reflected in the information schema.
//!
//! Histories of CREATE/DROP SCHEMA, CREATE DATABASE, CREATE [OR REPLACE] TABLE [IF NOT EXISTS]
//! (AS VALUES / AS SELECT / typed), CREATE [OR REPLACE] VIEW, DROP TABLE/VIEW [IF EXISTS], INSERT and
//! SELECT over a few catalogs / schemas / names written unquoted (any case), quoted and with 1-3
//! name parts are run through `SessionContext::sql` and through a map-of-maps catalog model with SQL
//! identifier normalisation. After every statement: success/failure class, query rows and the
//! information_schema.{schemata,tables,columns,views} listings are compared.

use dfv::canon::multiset_eq;
use dfv::engine::{batches_to_rows, classify, current_thread_rt, ErrClass};
use dfv::value::{rows_to_json, Row, Value};
use datafusion::prelude::{SessionConfig, SessionContext};
use std::collections::BTreeMap;
use vcommon::{fp_mix, fp_str, json, Args, Json, Report, Rng};

const DEFAULT_CATALOG: &str = "datafusion";
const DEFAULT_SCHEMA: &str = "public";

// ------------------------------------------------------------------------------------------
// identifiers and references
// ------------------------------------------------------------------------------------------

#[derive(Clone, Debug, PartialEq)]
struct Ident {
    text: String,
    quoted: bool,
}

impl Ident {
    fn q(t: &str) -> Ident {
        Ident { text: t.into(), quoted: true }
    }
    fn u(t: &str) -> Ident {
        Ident { text: t.into(), quoted: false }
    }
    /// SQL identifier normalisation: unquoted -> lower case, quoted -> verbatim
    fn norm(&self) -> String {
        if self.quoted { self.text.clone() } else { self.text.to_lowercase() }
    }
    fn sql(&self) -> String {
        if self.quoted { format!("\"{}\"", self.text) } else { self.text.clone() }
    }
    /// some written form that normalises to `name`
    fn written(name: &str, rng: &mut Rng) -> Ident {
        let lower = name.chars().all(|c| !c.is_ascii_uppercase());
        if !lower {
            return Ident::q(name);
        }
        match rng.below(4) {
            0 => Ident::q(name),
            1 => Ident::u(&name.to_uppercase()),
            2 => {
                let mut s = name.to_string();
                if let Some(f) = s.get_mut(0..1) {
                    f.make_ascii_uppercase();
                }
                Ident::u(&s)
            }
            _ => Ident::u(name),
        }
    }
}

type Path = (String, String, String);

#[derive(Clone, Debug)]
struct Ref(Vec<Ident>);

impl Ref {
    fn sql(&self) -> String {
        self.0.iter().map(|i| i.sql()).collect::<Vec<_>>().join(".")
    }
    fn resolve(&self) -> Path {
        let n: Vec<String> = self.0.iter().map(|i| i.norm()).collect();
        match n.len() {
            1 => (DEFAULT_CATALOG.into(), DEFAULT_SCHEMA.into(), n[0].clone()),
            2 => (DEFAULT_CATALOG.into(), n[0].clone(), n[1].clone()),
            _ => (n[0].clone(), n[1].clone(), n[2].clone()),
        }
    }
    /// a written reference to `p` with a random (valid) qualification level
    fn to_path(p: &Path, rng: &mut Rng) -> Ref {
        let min_parts = if p.0 != DEFAULT_CATALOG { 3 } else if p.1 != DEFAULT_SCHEMA { 2 } else { 1 };
        let parts = min_parts + rng.usize(4 - min_parts);
        let all = [Ident::written(&p.0, rng), Ident::written(&p.1, rng), Ident::written(&p.2, rng)];
        Ref(all[3 - parts..].to_vec())
    }
}

const CATS: [&str; 3] = ["datafusion", "c2", "C2"];
const SCHEMAS: [&str; 3] = ["public", "s1", "S1"];
const NAMES: [&str; 3] = ["t", "T", "v"];

// ------------------------------------------------------------------------------------------
// the catalog model
// ------------------------------------------------------------------------------------------

#[derive(Clone, Copy, Debug, PartialEq)]
enum DT {
    Int,
    Str,
    Float,
    Bool,
}

impl DT {
    fn arrow(&self) -> &'static str {
        match self {
            DT::Int => "Int64",
            DT::Str => "Utf8",
            DT::Float => "Float64",
            DT::Bool => "Boolean",
        }
    }
    fn sql(&self) -> &'static str {
        match self {
            DT::Int => "BIGINT",
            DT::Str => "VARCHAR",
            DT::Float => "DOUBLE",
            DT::Bool => "BOOLEAN",
        }
    }
}

#[derive(Clone, Debug)]
struct Col {
    name: String,
    ty: DT,
}

#[derive(Clone, Debug)]
struct ViewDef {
    base: Path,
    /// identity of the object the view was bound to when it was created
    base_oid: u64,
    proj: Vec<usize>,
    filter: Option<(usize, i64)>,
}

#[derive(Clone, Debug)]
enum ObjKind {
    /// rows == None: contents not determined by the property (copied out of a view whose base was replaced)
    Table { rows: Option<Vec<Row>> },
    View { def: ViewDef },
}

#[derive(Clone, Debug)]
struct Obj {
    oid: u64,
    cols: Vec<Col>,
    kind: ObjKind,
}

impl Obj {
    fn is_view(&self) -> bool {
        matches!(self.kind, ObjKind::View { .. })
    }
}

#[derive(Clone, Debug)]
struct Model {
    cats: BTreeMap<String, BTreeMap<String, BTreeMap<String, Obj>>>,
    next_oid: u64,
}

#[derive(Clone, Copy, Debug, PartialEq)]
enum Expect {
    Ok,
    Fail,
    /// the property (and the documentation) leave the outcome open
    Either,
}

impl Model {
    fn new() -> Model {
        let mut cats = BTreeMap::new();
        let mut schemas = BTreeMap::new();
        schemas.insert(DEFAULT_SCHEMA.to_string(), BTreeMap::new());
        cats.insert(DEFAULT_CATALOG.to_string(), schemas);
        Model { cats, next_oid: 1 }
    }
    fn schema(&self, c: &str, s: &str) -> Option<&BTreeMap<String, Obj>> {
        self.cats.get(c)?.get(s)
    }
    fn schema_mut(&mut self, c: &str, s: &str) -> Option<&mut BTreeMap<String, Obj>> {
        self.cats.get_mut(c)?.get_mut(s)
    }
    fn obj(&self, p: &Path) -> Option<&Obj> {
        self.schema(&p.0, &p.1)?.get(&p.2)
    }
    fn paths(&self) -> Vec<Path> {
        let mut out = vec![];
        for (c, ss) in &self.cats {
            for (s, ts) in ss {
                for t in ts.keys() {
                    out.push((c.clone(), s.clone(), t.clone()));
                }
            }
        }
        out
    }
    fn schema_paths(&self) -> Vec<(String, String)> {
        self.cats.iter().flat_map(|(c, ss)| ss.keys().map(move |s| (c.clone(), s.clone()))).collect()
    }
    fn new_oid(&mut self) -> u64 {
        self.next_oid += 1;
        self.next_oid
    }
    /// Rows of an object "over current data"; None when the property leaves them open (a view whose
    /// base object was dropped / replaced after the view was created, or a table copied from such a view).
    fn rows(&self, o: &Obj) -> Option<Vec<Row>> {
        match &o.kind {
            ObjKind::Table { rows } => rows.clone(),
            ObjKind::View { def } => {
                let base = self.obj(&def.base)?;
                if base.oid != def.base_oid {
                    return None;
                }
                let rows = self.rows(base)?;
                Some(project(&rows, &def.proj, &def.filter))
            }
        }
    }
}

impl Model {
    /// Evidence only: what a late-binding view (re-resolved by name at query time) would return.
    fn rows_late(&self, o: &Obj, depth: usize) -> Option<Vec<Row>> {
        if depth > 8 {
            return None; // by-name cycles (CREATE OR REPLACE VIEW v AS SELECT * FROM v) have no late-bound meaning
        }
        match &o.kind {
            ObjKind::Table { rows } => rows.clone(),
            ObjKind::View { def } => {
                let base = self.obj(&def.base)?;
                let rows = self.rows_late(base, depth + 1)?;
                let width = rows.first().map(|r| r.len()).unwrap_or(base.cols.len());
                if def.proj.iter().any(|c| *c >= width) || def.filter.iter().any(|(c, _)| *c >= width || rows.iter().any(|r| !matches!(r[*c], Value::Int(_)))) {
                    return None;
                }
                Some(project(&rows, &def.proj, &def.filter))
            }
        }
    }
}

fn project(rows: &[Row], proj: &[usize], filter: &Option<(usize, i64)>) -> Vec<Row> {
    rows.iter()
        .filter(|r| match filter {
            None => true,
            Some((c, k)) => matches!(&r[*c], Value::Int(i) if *i >= *k),
        })
        .map(|r| proj.iter().map(|c| r[*c].clone()).collect())
        .collect()
}

// ------------------------------------------------------------------------------------------
// statements
// ------------------------------------------------------------------------------------------

/// SELECT <* | cols [AS alias]> FROM <ref> [WHERE <int col> >= k]
#[derive(Clone, Debug)]
struct Sel {
    src: Ref,
    /// None = `*`
    proj: Option<Vec<(Ident, Option<Ident>)>>,
    filter: Option<(Ident, i64)>,
}

impl Sel {
    fn sql(&self) -> String {
        let items = match &self.proj {
            None => "*".to_string(),
            Some(p) => p.iter().map(|(c, a)| match a {
                Some(a) => format!("{} AS {}", c.sql(), a.sql()),
                None => c.sql(),
            }).collect::<Vec<_>>().join(", "),
        };
        let w = self.filter.as_ref().map(|(c, k)| format!(" WHERE {} >= {k}", c.sql())).unwrap_or_default();
        format!("SELECT {items} FROM {}{w}", self.src.sql())
    }
}

struct Evald {
    cols: Vec<Col>,
    rows: Option<Vec<Row>>,
    def: ViewDef,
    /// the source is a view that is no longer bound to the current object of its base name
    open: bool,
}

fn eval_sel(m: &Model, q: &Sel) -> Result<Evald, ()> {
    let p = q.src.resolve();
    let o = m.obj(&p).ok_or(())?;
    let find = |i: &Ident| o.cols.iter().position(|c| c.name == i.norm()).ok_or(());
    let proj: Vec<usize> = match &q.proj {
        None => (0..o.cols.len()).collect(),
        Some(items) => items.iter().map(|(c, _)| find(c)).collect::<Result<_, _>>()?,
    };
    let cols: Vec<Col> = match &q.proj {
        None => o.cols.clone(),
        Some(items) => items.iter().zip(proj.iter()).map(|((c, a), i)| Col { name: a.as_ref().map(|a| a.norm()).unwrap_or_else(|| c.norm()), ty: o.cols[*i].ty }).collect(),
    };
    let filter = match &q.filter {
        None => None,
        Some((c, k)) => Some((find(c)?, *k)),
    };
    // two output columns with one name are rejected ("Projections require unique expression names")
    if cols.iter().enumerate().any(|(i, c)| cols[..i].iter().any(|d| d.name == c.name)) {
        return Err(());
    }
    let src_rows = m.rows(o);
    let rows = src_rows.as_ref().map(|r| project(r, &proj, &filter));
    Ok(Evald { cols, open: o.is_view() && src_rows.is_none(), rows, def: ViewDef { base: p, base_oid: o.oid, proj, filter } })
}

#[derive(Clone, Debug)]
enum TableSrc {
    Values(Vec<DT>, Vec<Row>),
    Select(Sel),
    Typed(Vec<Col>),
}

#[derive(Clone, Debug)]
enum Stmt {
    CreateSchema { cat: Option<Ident>, schema: Ident, ine: bool },
    CreateCatalog { name: Ident, ine: bool },
    DropSchema { cat: Option<Ident>, schema: Ident, if_exists: bool, cascade: bool },
    CreateTable { r: Ref, or_replace: bool, ine: bool, src: TableSrc },
    CreateView { r: Ref, or_replace: bool, q: Sel },
    DropTable { r: Ref, if_exists: bool },
    DropView { r: Ref, if_exists: bool },
    Insert { r: Ref, rows: Vec<Row> },
    Query { q: Sel },
}

fn val_sql(v: &Value) -> String {
    match v {
        Value::Null => "NULL".into(),
        Value::Int(i) => i.to_string(),
        Value::Float(f) => format!("{f:?}"),
        Value::Str(s) => format!("'{s}'"),
        Value::Bool(b) => b.to_string(),
    }
}

fn values_sql(rows: &[Row]) -> String {
    rows.iter().map(|r| format!("({})", r.iter().map(val_sql).collect::<Vec<_>>().join(", "))).collect::<Vec<_>>().join(", ")
}

impl Stmt {
    fn kind(&self) -> &'static str {
        match self {
            Stmt::CreateSchema { ine: true, .. } => "create-schema-if-not-exists",
            Stmt::CreateSchema { .. } => "create-schema",
            Stmt::CreateCatalog { ine: true, .. } => "create-database-if-not-exists",
            Stmt::CreateCatalog { .. } => "create-database",
            Stmt::DropSchema { cascade: true, .. } => "drop-schema-cascade",
            Stmt::DropSchema { if_exists: true, .. } => "drop-schema-if-exists",
            Stmt::DropSchema { .. } => "drop-schema",
            Stmt::CreateTable { or_replace: true, .. } => "create-or-replace-table",
            Stmt::CreateTable { ine: true, .. } => "create-table-if-not-exists",
            Stmt::CreateTable { .. } => "create-table",
            Stmt::CreateView { or_replace: true, .. } => "create-or-replace-view",
            Stmt::CreateView { .. } => "create-view",
            Stmt::DropTable { if_exists: true, .. } => "drop-table-if-exists",
            Stmt::DropTable { .. } => "drop-table",
            Stmt::DropView { if_exists: true, .. } => "drop-view-if-exists",
            Stmt::DropView { .. } => "drop-view",
            Stmt::Insert { .. } => "insert",
            Stmt::Query { .. } => "query",
        }
    }
    fn sql(&self) -> String {
        let sref = |cat: &Option<Ident>, schema: &Ident| match cat {
            Some(c) => format!("{}.{}", c.sql(), schema.sql()),
            None => schema.sql(),
        };
        match self {
            Stmt::CreateSchema { cat, schema, ine } => format!("CREATE SCHEMA {}{}", if *ine { "IF NOT EXISTS " } else { "" }, sref(cat, schema)),
            Stmt::CreateCatalog { name, ine } => format!("CREATE DATABASE {}{}", if *ine { "IF NOT EXISTS " } else { "" }, name.sql()),
            Stmt::DropSchema { cat, schema, if_exists, cascade } => format!("DROP SCHEMA {}{}{}", if *if_exists { "IF EXISTS " } else { "" }, sref(cat, schema), if *cascade { " CASCADE" } else { "" }),
            Stmt::CreateTable { r, or_replace, ine, src } => {
                let head = format!("CREATE {}TABLE {}{}", if *or_replace { "OR REPLACE " } else { "" }, if *ine { "IF NOT EXISTS " } else { "" }, r.sql());
                match src {
                    TableSrc::Values(_, rows) => format!("{head} AS VALUES {}", values_sql(rows)),
                    TableSrc::Select(q) => format!("{head} AS {}", q.sql()),
                    TableSrc::Typed(cols) => format!("{head} ({})", cols.iter().map(|c| format!("{} {}", c.name, c.ty.sql())).collect::<Vec<_>>().join(", ")),
                }
            }
            Stmt::CreateView { r, or_replace, q } => format!("CREATE {}VIEW {} AS {}", if *or_replace { "OR REPLACE " } else { "" }, r.sql(), q.sql()),
            Stmt::DropTable { r, if_exists } => format!("DROP TABLE {}{}", if *if_exists { "IF EXISTS " } else { "" }, r.sql()),
            Stmt::DropView { r, if_exists } => format!("DROP VIEW {}{}", if *if_exists { "IF EXISTS " } else { "" }, r.sql()),
            Stmt::Insert { r, rows } => format!("INSERT INTO {} VALUES {}", r.sql(), values_sql(rows)),
            Stmt::Query { q } => q.sql(),
        }
    }
}

/// What the catalog state dictates: the expected outcome class, the state after a success, and — for
/// queries — the expected rows (None = left open).
fn apply(m: &Model, st: &Stmt) -> (Expect, Model, Option<Vec<Row>>) {
    let mut after = m.clone();
    let cat_of = |c: &Option<Ident>| c.as_ref().map(|c| c.norm()).unwrap_or_else(|| DEFAULT_CATALOG.to_string());
    let e = match st {
        Stmt::CreateSchema { cat, schema, ine } => {
            let (c, s) = (cat_of(cat), schema.norm());
            match after.cats.get_mut(&c) {
                None => Expect::Fail,
                Some(ss) if ss.contains_key(&s) => if *ine { Expect::Ok } else { Expect::Fail },
                Some(ss) => {
                    ss.insert(s, BTreeMap::new());
                    Expect::Ok
                }
            }
        }
        Stmt::CreateCatalog { name, ine } => {
            let c = name.norm();
            if after.cats.contains_key(&c) {
                if *ine { Expect::Ok } else { Expect::Fail }
            } else {
                after.cats.insert(c, BTreeMap::new());
                Expect::Ok
            }
        }
        Stmt::DropSchema { cat, schema, if_exists, cascade } => {
            let (c, s) = (cat_of(cat), schema.norm());
            let missing = if *if_exists { Expect::Ok } else { Expect::Fail };
            match after.cats.get_mut(&c) {
                None => missing,
                Some(ss) => match ss.get(&s) {
                    None => missing,
                    Some(ts) if !ts.is_empty() && !*cascade => Expect::Fail,
                    Some(_) => {
                        ss.remove(&s);
                        Expect::Ok
                    }
                },
            }
        }
        Stmt::CreateTable { r, or_replace, ine, src } => {
            let p = r.resolve();
            let exists = m.obj(&p).is_some();
            // the new object, if the source can be evaluated
            let new: Result<(Vec<Col>, Option<Vec<Row>>, bool), ()> = match src {
                TableSrc::Values(tys, rows) => Ok((tys.iter().enumerate().map(|(i, ty)| Col { name: format!("column{}", i + 1), ty: *ty }).collect(), Some(rows.clone()), false)),
                TableSrc::Typed(cols) => Ok((cols.clone(), Some(vec![]), false)),
                TableSrc::Select(q) => eval_sel(m, q).map(|e| (e.cols, e.rows, e.open)),
            };
            let oid = after.new_oid();
            match (after.schema_mut(&p.0, &p.1), new) {
                (None, _) => Expect::Fail,
                (Some(_), Err(())) => if *ine && exists { Expect::Either } else { Expect::Fail },
                (Some(ts), Ok((cols, rows, open))) => {
                    if exists && *ine {
                        Expect::Ok // untouched
                    } else if exists && !*or_replace {
                        Expect::Fail
                    } else {
                        ts.insert(p.2.clone(), Obj { oid, cols, kind: ObjKind::Table { rows } });
                        if open { Expect::Either } else { Expect::Ok }
                    }
                }
            }
        }
        Stmt::CreateView { r, or_replace, q } => {
            let p = r.resolve();
            let exists = m.obj(&p).is_some();
            let new = eval_sel(m, q);
            let oid = after.new_oid();
            match (after.schema_mut(&p.0, &p.1), new) {
                (None, _) | (_, Err(())) => Expect::Fail,
                (Some(ts), Ok(e)) => {
                    if exists && !*or_replace {
                        Expect::Fail
                    } else {
                        ts.insert(p.2.clone(), Obj { oid, cols: e.cols, kind: ObjKind::View { def: e.def } });
                        if e.open { Expect::Either } else { Expect::Ok }
                    }
                }
            }
        }
        Stmt::DropTable { r, if_exists } | Stmt::DropView { r, if_exists } => {
            let p = r.resolve();
            let want_view = matches!(st, Stmt::DropView { .. });
            let hit = m.obj(&p).map(|o| o.is_view() == want_view).unwrap_or(false);
            if hit {
                after.schema_mut(&p.0, &p.1).unwrap().remove(&p.2);
                Expect::Ok
            } else if *if_exists {
                Expect::Ok
            } else {
                Expect::Fail
            }
        }
        Stmt::Insert { r, rows } => {
            let p = r.resolve();
            match after.schema_mut(&p.0, &p.1).and_then(|ts| ts.get_mut(&p.2)) {
                Some(Obj { kind: ObjKind::Table { rows: cur }, cols, .. }) if rows.iter().all(|r| r.len() == cols.len()) => {
                    if let Some(cur) = cur {
                        cur.extend(rows.iter().cloned());
                    }
                    Expect::Ok
                }
                _ => Expect::Fail,
            }
        }
        Stmt::Query { q } => match eval_sel(m, q) {
            Err(()) => Expect::Fail,
            Ok(e) => return (if e.open { Expect::Either } else { Expect::Ok }, after, e.rows),
        },
    };
    (e, after, None)
}

// ------------------------------------------------------------------------------------------
// generation
// ------------------------------------------------------------------------------------------

fn random_ref(rng: &mut Rng) -> Ref {
    let mut parts = vec![Ident::written(*rng.pick(&NAMES), rng)];
    if rng.chance(1, 2) {
        parts.insert(0, Ident::written(*rng.pick(&SCHEMAS), rng));
        if rng.chance(1, 2) {
            parts.insert(0, Ident::written(*rng.pick(&CATS), rng));
        }
    }
    Ref(parts)
}

/// a reference to an existing view (want_view) / base table, if there is one
fn kind_ref(m: &Model, rng: &mut Rng, want_view: bool) -> Option<Ref> {
    let paths: Vec<Path> = m.paths().into_iter().filter(|p| m.obj(p).unwrap().is_view() == want_view).collect();
    if paths.is_empty() { None } else { Some(Ref::to_path(rng.pick(&paths), rng)) }
}

/// a reference to a free or existing name, biased towards places that exist
fn target_ref(m: &Model, rng: &mut Rng, want_existing: bool) -> Ref {
    let paths = m.paths();
    if want_existing && !paths.is_empty() && rng.chance(4, 5) {
        return Ref::to_path(rng.pick(&paths), rng);
    }
    let schemas = m.schema_paths();
    if !schemas.is_empty() && rng.chance(3, 4) {
        let (c, s) = rng.pick(&schemas).clone();
        return Ref::to_path(&(c, s, rng.pick(&NAMES).to_string()), rng);
    }
    random_ref(rng)
}

fn random_cell(ty: DT, rng: &mut Rng) -> Value {
    match ty {
        DT::Int => Value::Int(rng.range(0, 9)),
        DT::Str => Value::Str(rng.pick(&["a", "b", "Cd", ""]).to_string()),
        DT::Float => Value::Float(*rng.pick(&[0.5, 1.5, -2.0, 4.25])),
        DT::Bool => Value::Bool(rng.bool()),
    }
}

fn col_ident(name: &str) -> Ident {
    if name.chars().any(|c| c.is_ascii_uppercase()) { Ident::q(name) } else { Ident::u(name) }
}

fn gen_sel(m: &Model, rng: &mut Rng) -> Sel {
    let via_view = if rng.chance(2, 5) { kind_ref(m, rng, true) } else { None };
    let src = via_view.unwrap_or_else(|| target_ref(m, rng, true));
    let cols: Vec<Col> = m.obj(&src.resolve()).map(|o| o.cols.clone()).unwrap_or_else(|| vec![Col { name: "column1".into(), ty: DT::Int }]);
    let proj = if rng.chance(1, 2) || cols.is_empty() {
        None
    } else {
        let mut idx: Vec<usize> = (0..cols.len()).collect();
        rng.shuffle(&mut idx);
        idx.truncate(1 + rng.usize(cols.len()));
        Some(
            idx.iter()
                .enumerate()
                .map(|(k, i)| {
                    let alias = match rng.below(4) {
                        0 => Some(Ident::u(&format!("x{k}"))),
                        1 => Some(Ident::q(&format!("Xy{k}"))),
                        _ => None,
                    };
                    (col_ident(&cols[*i].name), alias)
                })
                .collect(),
        )
    };
    let ints: Vec<&Col> = cols.iter().filter(|c| c.ty == DT::Int).collect();
    let filter = if !ints.is_empty() && rng.chance(1, 3) { Some((col_ident(&rng.pick(&ints).name), rng.range(0, 6))) } else { None };
    Sel { src, proj, filter }
}

fn gen_stmt(m: &Model, rng: &mut Rng) -> Stmt {
    let pick_cat = |rng: &mut Rng| Ident::written(*rng.pick(&CATS), rng);
    let schema_target = |rng: &mut Rng, existing: bool| -> (Option<Ident>, Ident) {
        let schemas = m.schema_paths();
        if existing && !schemas.is_empty() && rng.chance(3, 4) {
            let (c, s) = rng.pick(&schemas).clone();
            let cat = if c != DEFAULT_CATALOG || rng.chance(1, 3) { Some(Ident::written(&c, rng)) } else { None };
            (cat, Ident::written(&s, rng))
        } else {
            let cats: Vec<&String> = m.cats.keys().collect();
            let cat = if rng.chance(1, 2) { None } else if rng.chance(3, 4) { Some(Ident::written(rng.pick(&cats), rng)) } else { Some(pick_cat(rng)) };
            (cat, Ident::written(*rng.pick(&SCHEMAS), rng))
        }
    };
    let mut w = [4u32, 2, 3, 10, 6, 9, 4, 4, 8, 10];
    if m.paths().is_empty() {
        w[3] = 40; // nothing exists yet: mostly start with CREATE TABLE .. AS VALUES
    }
    match rng.weighted(&w) {
        0 => {
            let existing = rng.chance(1, 4);
            let (cat, schema) = schema_target(rng, existing);
            Stmt::CreateSchema { cat, schema, ine: rng.chance(1, 3) }
        }
        1 => Stmt::CreateCatalog { name: pick_cat(rng), ine: rng.chance(1, 3) },
        2 => {
            let (cat, schema) = schema_target(rng, true);
            // dropping the default schema makes most of the remaining history fail: keep it rare
            if cat.is_none() && schema.norm() == DEFAULT_SCHEMA && rng.chance(4, 5) {
                return Stmt::Query { q: gen_sel(m, rng) };
            }
            Stmt::DropSchema { cat, schema, if_exists: rng.chance(1, 3), cascade: rng.chance(1, 2) }
        }
        3 => {
            let existing = rng.chance(1, 3);
            let r = target_ref(m, rng, existing);
            let (or_replace, ine) = match rng.below(4) {
                0 => (true, false),
                1 => (false, true),
                _ => (false, false),
            };
            let n_cols = 1 + rng.usize(3);
            let tys: Vec<DT> = (0..n_cols).map(|i| if i == 0 { DT::Int } else { *rng.pick(&[DT::Int, DT::Str, DT::Float, DT::Bool]) }).collect();
            let rows = (0..1 + rng.usize(3)).map(|_| tys.iter().map(|t| random_cell(*t, rng)).collect()).collect();
            Stmt::CreateTable { r, or_replace, ine, src: TableSrc::Values(tys, rows) }
        }
        4 => {
            let existing = rng.chance(1, 3);
            let r = target_ref(m, rng, existing);
            let (or_replace, ine) = match rng.below(4) {
                0 => (true, false),
                1 => (false, true),
                _ => (false, false),
            };
            let src = if rng.chance(1, 4) {
                TableSrc::Typed(vec![Col { name: "a".into(), ty: DT::Int }, Col { name: "b".into(), ty: *rng.pick(&[DT::Float, DT::Bool, DT::Int]) }])
            } else {
                TableSrc::Select(gen_sel(m, rng))
            };
            Stmt::CreateTable { r, or_replace, ine, src }
        }
        5 => {
            let existing = rng.chance(1, 3);
            Stmt::CreateView { r: target_ref(m, rng, existing), or_replace: rng.chance(1, 3), q: gen_sel(m, rng) }
        }
        6 => {
            let hit = if rng.chance(2, 3) { kind_ref(m, rng, false) } else { None };
            Stmt::DropTable { r: hit.unwrap_or_else(|| target_ref(m, rng, true)), if_exists: rng.chance(1, 3) }
        }
        7 => {
            let hit = if rng.chance(2, 3) { kind_ref(m, rng, true) } else { None };
            Stmt::DropView { r: hit.unwrap_or_else(|| target_ref(m, rng, true)), if_exists: rng.chance(1, 3) }
        }
        8 => {
            let hit = if rng.chance(3, 4) { kind_ref(m, rng, false) } else { None };
            let r = hit.unwrap_or_else(|| target_ref(m, rng, true));
            let tys: Vec<DT> = m.obj(&r.resolve()).map(|o| o.cols.iter().map(|c| c.ty).collect()).unwrap_or_else(|| vec![DT::Int, DT::Str]);
            let rows = (0..1 + rng.usize(2)).map(|_| tys.iter().map(|t| random_cell(*t, rng)).collect()).collect();
            Stmt::Insert { r, rows }
        }
        _ => Stmt::Query { q: gen_sel(m, rng) },
    }
}

// ------------------------------------------------------------------------------------------
// information schema vs model
// ------------------------------------------------------------------------------------------

fn srow(r: &Row) -> Vec<String> {
    r.iter()
        .map(|v| match v {
            Value::Str(s) => s.clone(),
            Value::Null => "<NULL>".into(),
            other => other.render(),
        })
        .collect()
}

async fn q(ctx: &SessionContext, sql: &str) -> Result<Vec<Row>, datafusion::error::DataFusionError> {
    Ok(batches_to_rows(&ctx.sql(sql).await?.collect().await?))
}

/// Err((listing, expected, observed))
async fn check_information_schema(ctx: &SessionContext, m: &Model, selftest: u64) -> Result<(), (String, Json, Json)> {
    let fail = |what: &str, exp: &Vec<Vec<String>>, obs: &Vec<Vec<String>>| Err((what.to_string(), json!(exp), json!(obs)));
    let read = |sql: &'static str| async move { q(ctx, sql).await.map(|rows| { let mut v: Vec<Vec<String>> = rows.iter().map(srow).collect(); v.sort(); v }).map_err(|e| (format!("unreadable: {sql}"), json!(null), json!(e.to_string()))) };

    // schemata
    let obs = read("SELECT catalog_name, schema_name FROM information_schema.schemata WHERE schema_name <> 'information_schema'").await?;
    let mut exp: Vec<Vec<String>> = m.schema_paths().into_iter().map(|(c, s)| vec![c, s]).collect();
    exp.sort();
    if obs != exp {
        return fail("schemata", &exp, &obs);
    }
    // tables
    let mut obs = read("SELECT table_catalog, table_schema, table_name, table_type FROM information_schema.tables WHERE table_schema <> 'information_schema'").await?;
    if selftest == 1 && !obs.is_empty() {
        obs.remove(0);
    }
    let mut exp: Vec<Vec<String>> = m.paths().into_iter().map(|p| { let t = if m.obj(&p).unwrap().is_view() { "VIEW" } else { "BASE TABLE" }; vec![p.0, p.1, p.2, t.to_string()] }).collect();
    exp.sort();
    if obs != exp {
        return fail("tables", &exp, &obs);
    }
    // columns: names and types in ordinal order (the base of ordinal_position is not asserted)
    let rows = q(ctx, "SELECT table_catalog, table_schema, table_name, ordinal_position, column_name, data_type FROM information_schema.columns WHERE table_schema <> 'information_schema'").await.map_err(|e| ("unreadable: columns".to_string(), json!(null), json!(e.to_string())))?;
    let mut by_table: BTreeMap<Vec<String>, Vec<(i64, String, String)>> = BTreeMap::new();
    for r in &rows {
        let s = srow(r);
        let ord = match &r[3] { Value::Int(i) => *i, _ => -1 };
        by_table.entry(s[0..3].to_vec()).or_default().push((ord, s[4].clone(), s[5].clone()));
    }
    let mut obs: Vec<Vec<String>> = vec![];
    for (t, mut cols) in by_table {
        cols.sort();
        let mut row = t;
        row.extend(cols.into_iter().map(|(_, n, ty)| format!("{n}:{ty}")));
        obs.push(row);
    }
    obs.sort();
    let mut exp: Vec<Vec<String>> = m.paths().into_iter().filter(|p| !m.obj(p).unwrap().cols.is_empty()).map(|p| { let cols: Vec<String> = m.obj(&p).unwrap().cols.iter().map(|c| format!("{}:{}", c.name, c.ty.arrow())).collect(); let mut row = vec![p.0, p.1, p.2]; row.extend(cols); row }).collect();
    exp.sort();
    if obs != exp {
        return fail("columns", &exp, &obs);
    }
    // views: every view is listed with a definition; everything listed exists; base tables (which the
    // engine also lists here) carry no definition
    let rows = q(ctx, "SELECT table_catalog, table_schema, table_name, definition FROM information_schema.views WHERE table_schema <> 'information_schema'").await.map_err(|e| ("unreadable: views".to_string(), json!(null), json!(e.to_string())))?;
    let obs: Vec<Vec<String>> = rows.iter().map(srow).collect();
    let exp: Vec<Vec<String>> = m.paths().into_iter().filter(|p| m.obj(p).unwrap().is_view()).map(|p| vec![p.0, p.1, p.2, "<a definition>".into()]).collect();
    for r in &obs {
        let p = (r[0].clone(), r[1].clone(), r[2].clone());
        match m.obj(&p) {
            None => return fail("views", &exp, &obs),
            Some(o) if o.is_view() != (r[3] != "<NULL>") => return fail("views", &exp, &obs),
            _ => {}
        }
    }
    for e in &exp {
        if obs.iter().filter(|r| r[0..3] == e[0..3]).count() != 1 {
            return fail("views", &exp, &obs);
        }
    }
    Ok(())
}

// ------------------------------------------------------------------------------------------

fn witness(sqls: &[String], what: &str, extra: Json) -> Json {
    json!({"what": what, "session": "SessionConfig::new().with_information_schema(true)", "statements": sqls, "failing_statement": sqls.last(), "detail": extra})
}

fn history(rep: &Report, rng: &mut Rng, selftest: u64) {
    let n = 6 + rng.usize(10); // 6..=15
    let mut m = Model::new();
    let mut sqls: Vec<String> = vec![];
    let mut fp = 0xC49u64;
    let mut nontrivial = 0u32;
    let rt = current_thread_rt();
    let res = vcommon::par::guard(|| {
        rt.block_on(async {
            let ctx = SessionContext::new_with_config(SessionConfig::new().with_information_schema(true).with_target_partitions(2));
            for _ in 0..n {
                let st = gen_stmt(&m, rng);
                let sql = st.sql();
                let kind = st.kind();
                fp = fp_mix(fp, fp_str(&sql));
                sqls.push(sql.clone());
                let (expect, after, exp_rows) = apply(&m, &st);
                let observed = q(&ctx, &sql).await;
                let mut ok = observed.is_ok();
                if selftest == 2 && kind.starts_with("drop-table") {
                    ok = !ok;
                }
                if let Err(e) = &observed {
                    if classify(e) == ErrClass::NotImplemented && expect != Expect::Fail {
                        rep.skip(&format!("engine-not-implemented/{kind}"));
                        sqls.pop();
                        continue;
                    }
                }
                rep.count(&format!("grid/{kind}/expected-{}/observed-{}", match expect { Expect::Ok => "ok", Expect::Fail => "error", Expect::Either => "open" }, if ok { "ok" } else { "error" }), 1);
                match (expect, ok) {
                    (Expect::Ok, false) => {
                        rep.violation(&format!("outcome/{kind}/expected-success-got-error"), witness(&sqls, "the catalog state dictates success", json!({"error": observed.err().map(|e| e.to_string())})));
                        return;
                    }
                    (Expect::Fail, true) => {
                        rep.violation(&format!("outcome/{kind}/expected-error-got-success"), witness(&sqls, "the catalog state dictates failure", json!({"result_rows": observed.ok().map(|r| rows_to_json(&r))})));
                        return;
                    }
                    (_, true) => {
                        if let (Stmt::Query { .. }, Ok(rows)) = (&st, &observed) {
                            match &exp_rows {
                                Some(exp) => {
                                    rep.count("query-rows-compared", 1);
                                    if matches!(m.obj(&match &st { Stmt::Query { q } => q.src.resolve(), _ => unreachable!() }), Some(o) if o.is_view()) {
                                        rep.count("query-rows-compared/through-a-view", 1);
                                    }
                                    if !multiset_eq(rows, exp) {
                                        rep.violation("query-rows", witness(&sqls, "rows of a query differ from the model", json!({"expected_rows": rows_to_json(exp), "observed_rows": rows_to_json(rows)})));
                                        return;
                                    }
                                }
                                None => {
                                    rep.count("query-rows-left-open/view-bound-to-replaced-base", 1);
                                    // evidence only: which binding does the engine show?
                                    if let Stmt::Query { q: Sel { src, proj: None, filter: None } } = &st {
                                        if let Some(late) = m.obj(&src.resolve()).and_then(|o| m.rows_late(o, 0)) {
                                            rep.count(if multiset_eq(rows, &late) { "observation/replaced-base/rows-equal-those-of-the-current-base" } else { "observation/replaced-base/rows-are-those-of-the-old-base" }, 1);
                                        }
                                    }
                                }
                            }
                        }
                        if !matches!(st, Stmt::Query { .. }) {
                            nontrivial += 1;
                        }
                        m = after;
                    }
                    (_, false) => {}
                }
                // ---- the information schema after every step
                if let Err((listing, exp, obs)) = check_information_schema(&ctx, &m, selftest).await {
                    rep.violation(&format!("information-schema/{}", listing.split(':').next().unwrap_or("")), witness(&sqls, &format!("information_schema.{listing} differs from the catalog model after the statement"), json!({"expected": exp, "observed": obs})));
                    return;
                }
                rep.count("information-schema-reads-compared", 4);
            }
        })
    });
    if let Err(p) = res {
        rep.violation("engine-panic", json!({"statements": sqls, "panic": p}));
    }
    rep.case(fp, nontrivial >= 2);
    if rep.want_sample() && nontrivial >= 5 {
        rep.sample(json!({"statements": sqls}));
    }
}

fn run(args: &Args) -> i32 {
    let rep = Report::new("C49", "exploration", args);
    rep.set_rule("case = history of 6-15 catalog statements (CREATE/DROP SCHEMA, CREATE DATABASE, CREATE [OR REPLACE] TABLE [IF NOT EXISTS] AS VALUES/AS SELECT/typed, CREATE [OR REPLACE] VIEW, DROP TABLE/VIEW [IF EXISTS], INSERT, SELECT) over 3 catalog x 3 schema x 3 object names written unquoted in any case, quoted, and with 1-3 name parts, generated against the current model state; after each statement: outcome class, query rows, information_schema.{schemata,tables,columns,views}; distinct = hash(SQL texts); non-trivial = at least 2 state-changing statements succeeded");
    rep.assume("identifier normalisation: unquoted -> lower case, quoted -> verbatim; 1-part names resolve in datafusion.public, 2-part names in catalog datafusion; a catalog made by CREATE DATABASE starts without schemas");
    rep.assume("left open (not asserted): rows / success of a view (or of a copy of it) after the object it was created over has been dropped or replaced (the docs do not say whether a view binds late); whether base tables are listed in information_schema.views; the base of ordinal_position; CREATE TABLE IF NOT EXISTS over an existing name whose source query is invalid");
    let selftest = args.opt_u64("selftest", 0);
    let n_sys = args.bound("systematic", 500, 2000);
    let n_rand = args.bound("histories", 1000, 100_000);
    vcommon::par::run(args.workers, 0..n_sys, |i| {
        let mut rng = Rng::derive(0xC49, &[0, i]);
        history(&rep, &mut rng, selftest);
    });
    // coverage of the statement kind x outcome grid, met by the seed-independent part
    for k in [
        "create-schema", "create-schema-if-not-exists", "create-database", "create-database-if-not-exists", "drop-schema", "drop-schema-if-exists", "drop-schema-cascade", "create-table", "create-table-if-not-exists", "create-or-replace-table",
        "create-view", "create-or-replace-view", "drop-table", "drop-table-if-exists", "drop-view", "drop-view-if-exists", "insert", "query",
    ] {
        let okc = rep.get_count(&format!("grid/{k}/expected-ok/observed-ok"));
        rep.obligation(&format!("kind-succeeded:{k}"), okc > 0, "statement kind observed succeeding as the model dictates");
        if !k.contains("if-") && k != "create-or-replace-table" && k != "create-or-replace-view" || k == "drop-schema-if-exists" {
            let errc = rep.get_count(&format!("grid/{k}/expected-error/observed-error"));
            rep.obligation(&format!("kind-failed:{k}"), errc > 0, "statement kind observed failing as the model dictates");
        }
    }
    rep.obligation("view-rows-after-base-change", rep.get_count("query-rows-compared/through-a-view") > 0, "queries through views compared");
    vcommon::par::run(args.workers, 0..n_rand, |i| {
        if rep.violation_count() > 40 {
            return;
        }
        let mut rng = Rng::derive(args.seed, &[49, 1, i]);
        history(&rep, &mut rng, selftest);
    });
    rep.finish()
}

fn main() {
    let args = Args::parse();
    vcommon::par::quiet_panics();
    std::process::exit(run(&args));
}
