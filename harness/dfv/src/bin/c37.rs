//! C37 — Substrait round trip preserves query results.

use datafusion_substrait::logical_plan::{consumer::from_substrait_plan, producer::to_substrait_plan};
use dfv::canon::compare;
use dfv::cases::Case;
use dfv::diffrun::*;
use vcommon::{fp_mix, fp_str, json, Args, Report, Rng};

fn one_case(rep: &Report, case: &Case, _rng: &mut Rng) {
    let fp = case.fingerprint();
    let sql = case.sql.clone();
    let res = block(async {
        let ctx = ctx_mem(case, base_config())?;
        let unopt = ctx.state().create_logical_plan(&sql).await?;
        let opt = ctx.state().optimize(&unopt)?;
        let base = exec_logical(&ctx, unopt.clone()).await?;
        let mut findings: Vec<(String, vcommon::Json)> = vec![];
        let mut stats: Vec<String> = vec![];
        for (form, plan) in [("unoptimized", &unopt), ("optimized", &opt)] {
            let sub = match to_substrait_plan(plan, &ctx.state()) {
                Ok(s) => s,
                Err(e) => {
                    stats.push(format!("producer-rejected/{}", e.to_string().chars().take(50).collect::<String>()));
                    continue;
                }
            };
            let ctx2 = ctx_mem(case, base_config())?;
            match from_substrait_plan(&ctx2.state(), &sub).await {
                Err(e) => {
                    // the consumer may legitimately not support something the producer emits: a rejection
                    // is not a wrong result; count it (the property speaks about plans that convert back)
                    stats.push(format!("consumer-rejected/{}", e.to_string().chars().take(50).collect::<String>()));
                }
                Ok(back) => {
                    let text = format!("{}", back.display_indent());
                    match exec_logical(&ctx2, back).await {
                        Ok(out) => {
                            stats.push(format!("roundtrip/{form}"));
                            if let Err(d) = compare(&out.rows, &base.rows, &case.mode) {
                                findings.push((if range_offset_frame(&case.sql) { "results-differ/window-range-frame-with-offset".to_string() } else { format!("results-differ/{form}") }, json!({"case": case.witness(Some(&out.rows), Some(&base.rows), &d), "plan_after_roundtrip": text})));
                            } else {
                                let t0: Vec<String> = base.schema.fields().iter().map(|f| logical_type(f.data_type())).collect();
                                let t1: Vec<String> = out.schema.fields().iter().map(|f| logical_type(f.data_type())).collect();
                                if t0 != t1 {
                                    findings.push((format!("output-types-differ/{form}"), json!({"sql": sql, "before": t0, "after": t1, "plan_after_roundtrip": text})));
                                }
                            }
                        }
                        Err(e) => {
                            let cls = dfv::engine::classify(&e);
                            if matches!(cls, dfv::engine::ErrClass::NotImplemented | dfv::engine::ErrClass::Plan) {
                                stats.push(format!("roundtrip-plan-rejected/{cls:?}"));
                            } else {
                                findings.push((format!("roundtrip-plan-fails/{form}"), json!({"sql": sql, "error": e.to_string().chars().take(300).collect::<String>(), "plan_after_roundtrip": text})));
                            }
                        }
                    }
                }
            }
        }
        Ok::<_, datafusion::error::DataFusionError>((findings, stats))
    });
    match res {
        Err(p) => {
            rep.case(fp, true);
            rep.violation("panic", case.witness(None, None, &format!("panic during substrait round trip: {p}")));
        }
        Ok(Err(e)) => {
            rep.case(fp, false);
            rep.skip(&format!("original-plan-fails/{}", skip_class(&e)));
        }
        Ok(Ok((findings, stats))) => {
            let ok = stats.iter().filter(|s| s.starts_with("roundtrip/")).count();
            rep.case(fp_mix(fp, fp_str(&stats.join(","))), ok > 0);
            for s in &stats {
                if s.starts_with("roundtrip/") {
                    rep.count(s, 1);
                } else {
                    rep.skip(s);
                }
            }
            if ok > 0 {
                for f in &case.feats {
                    rep.seen("features_roundtripped", f);
                }
            }
            for (sig, w) in findings {
                rep.violation(&sig, w);
            }
            if rep.want_sample() && ok == 2 {
                rep.sample(json!({"sql": case.sql}));
            }
        }
    }
}

/// Known root cause keyed by its own signature: the consumer rebuilds RANGE frame offsets as UInt64
/// whatever the ORDER BY column's type (consumer/expr/window_function.rs from_substrait_bound).
fn range_offset_frame(sql: &str) -> bool {
    sql.split(" RANGE BETWEEN ").skip(1).any(|rest| {
        let frame = rest.split(')').next().unwrap_or("");
        frame.split_whitespace().collect::<Vec<_>>().windows(2).any(|w| w[0].parse::<u64>().is_ok() && (w[1].starts_with("PRECEDING") || w[1].starts_with("FOLLOWING")))
    })
}

fn run(args: &Args) -> i32 {
    let rep = Report::new("C37", "exploration", args);
    rep.set_rule("case = generated query; its unoptimized and optimized logical plans are converted to Substrait and back in a fresh session and executed; compared with the original plan's rows (multiset / sequence per ORDER BY, by position) and logical output types; distinct = hash(case, outcome); non-trivial = at least one plan form converted both ways");
    rep.assume("producer and consumer rejections are skips (conditional property), counted by reason");
    // default fragment: everything the Substrait producer/consumer round-trips cleanly on the unchanged
    // tree; `--opt fragment=full` (scalar/IN/EXISTS subqueries, GROUPING SETS, series) is exploration only
    let mut cfg = gen_cfg_from(args, "simple");
    if args.opt_str("fragment").is_none() {
        for (name, flag) in [("setops", &mut cfg.setops), ("semi_anti", &mut cfg.semi_anti_joins), ("ctes", &mut cfg.ctes), ("windows", &mut cfg.windows)] {
            if args.opt_str(name).is_none() {
                *flag = true;
            }
        }
    }
    rep.extra("generator_fragment", json!(format!("{cfg:?}")));
    for_each_case(args, &rep, 0xC37, args.bound("systematic", 400, 3000), args.bound("random", 400, 12000), &cfg, |case, rng, _| one_case(&rep, case, rng));
    rep.obligation("roundtrips", rep.get_count("roundtrip/optimized") + rep.get_count("roundtrip/unoptimized") > 100, "plans must actually round-trip");
    rep.finish()
}

fn main() {
    let args = Args::parse();
    vcommon::par::quiet_panics();
    std::process::exit(run(&args));
}
