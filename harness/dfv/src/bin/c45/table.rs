//! Table providers, execution plans, streams, catalogs and table functions through the FFI.

use crate::force::{force_plan, harness_marker};
use crate::Cx;
use arrow::array::{Int64Array, RecordBatch, StringArray};
use arrow::datatypes::{DataType, Field, Schema, SchemaRef};
use async_trait::async_trait;
use datafusion::catalog::{CatalogProvider, MemoryCatalogProvider, MemorySchemaProvider, SchemaProvider, Session, TableFunctionImpl, TableProvider};
use datafusion::common::tree_node::TreeNodeRecursion;
use datafusion::datasource::{MemTable, TableType};
use datafusion::error::{DataFusionError, Result};
use datafusion::execution::{RecordBatchStream, SendableRecordBatchStream, TaskContext};
use datafusion::physical_expr::{EquivalenceProperties, Partitioning, PhysicalExpr};
use datafusion::physical_plan::execution_plan::{Boundedness, EmissionType};
use datafusion::physical_plan::{DisplayAs, DisplayFormatType, ExecutionPlan, PlanProperties, StatisticsArgs, StatisticsContext};
use datafusion::prelude::*;
use datafusion_execution::TaskContextProvider;
use datafusion_expr::{Expr, TableProviderFilterPushDown};
use datafusion_ffi::catalog_provider::FFI_CatalogProvider;
use datafusion_ffi::execution_plan::{FFI_ExecutionPlan, ForeignExecutionPlan};
use datafusion_ffi::record_batch_stream::FFI_RecordBatchStream;
use datafusion_ffi::table_provider::{FFI_TableProvider, ForeignTableProvider};
use datafusion_ffi::udtf::FFI_TableFunction;
use dfv::cases::Case;
use dfv::chaos::{ChaosProbe, ChaosScript, ChaosSourceExec};
use dfv::engine::{batches_to_rows, classify, table_partitions, table_schema, ErrClass};
use dfv::value::{rows_to_json, Row};
use futures::{Stream, StreamExt};
use std::pin::Pin;
use std::sync::{Arc, Mutex};
use std::task::{Context, Poll};
use vcommon::{json, Json};

// ---------------------------------------------------------------------------------------------
// a provider that reports Inexact pushdown and records what it is asked to scan

#[derive(Debug)]
pub struct PushTable {
    inner: Arc<MemTable>,
    name: String,
    pub log: Arc<Mutex<Vec<String>>>,
}

#[async_trait]
impl TableProvider for PushTable {
    fn schema(&self) -> SchemaRef {
        self.inner.schema()
    }
    fn table_type(&self) -> TableType {
        TableType::Base
    }
    async fn scan(&self, state: &dyn Session, projection: Option<&[usize]>, filters: &[Expr], limit: Option<usize>) -> Result<Arc<dyn ExecutionPlan>> {
        let mut fs: Vec<String> = filters.iter().map(|f| f.to_string()).collect();
        fs.sort();
        self.log.lock().unwrap_or_else(|e| e.into_inner()).push(format!("{} projection={:?} filters={:?} limit={:?}", self.name, projection, fs, limit));
        // Inexact pushdown: the filters are advisory, the limit may only be applied without filters
        self.inner.scan(state, projection, &[], if filters.is_empty() { limit } else { None }).await
    }
    fn supports_filters_pushdown(&self, filters: &[&Expr]) -> Result<Vec<TableProviderFilterPushDown>> {
        // comparisons are accepted as Inexact, everything else is declined
        Ok(filters.iter().map(|f| if matches!(f, Expr::BinaryExpr(_)) { TableProviderFilterPushDown::Inexact } else { TableProviderFilterPushDown::Unsupported }).collect())
    }
}

/// Consumer-side adapter: the plan a `ForeignTableProvider` returns comes back through the
/// local-library shortcut, so it is sent through `FFI_ExecutionPlan` -> `ForeignExecutionPlan` again.
#[derive(Debug)]
struct ReForeign {
    inner: Arc<dyn TableProvider>,
}

#[async_trait]
impl TableProvider for ReForeign {
    fn schema(&self) -> SchemaRef {
        self.inner.schema()
    }
    fn table_type(&self) -> TableType {
        self.inner.table_type()
    }
    async fn scan(&self, state: &dyn Session, projection: Option<&[usize]>, filters: &[Expr], limit: Option<usize>) -> Result<Arc<dyn ExecutionPlan>> {
        let plan = self.inner.scan(state, projection, filters, limit).await?;
        foreign_plan(plan)
    }
    fn supports_filters_pushdown(&self, filters: &[&Expr]) -> Result<Vec<TableProviderFilterPushDown>> {
        self.inner.supports_filters_pushdown(filters)
    }
}

pub fn foreign_plan(plan: Arc<dyn ExecutionPlan>) -> Result<Arc<dyn ExecutionPlan>> {
    let mut ffi = FFI_ExecutionPlan::new(plan, None);
    force_plan(&mut ffi);
    Ok(Arc::new(ForeignExecutionPlan::try_from(ffi)?))
}

pub fn foreign_table(provider: Arc<dyn TableProvider>, tcp: &Arc<dyn TaskContextProvider>, reforeign: bool) -> Arc<dyn TableProvider> {
    let mut ffi = FFI_TableProvider::new(provider, true, None, tcp, None);
    ffi.library_marker_id = harness_marker;
    let f: Arc<dyn TableProvider> = Arc::new(ForeignTableProvider(ffi));
    if reforeign { Arc::new(ReForeign { inner: f }) } else { f }
}

fn schema_json(s: &Schema) -> Json {
    json!(s.fields().iter().map(|f| format!("{}:{}{}{}", f.name(), f.data_type(), if f.is_nullable() { "?" } else { "" }, if f.metadata().is_empty() { String::new() } else { format!("{:?}", f.metadata()) })).collect::<Vec<_>>())
}

fn same_schema(a: &Schema, b: &Schema) -> bool {
    a.fields().len() == b.fields().len() && a.fields().iter().zip(b.fields().iter()).all(|(x, y)| x.name() == y.name() && x.data_type() == y.data_type() && x.is_nullable() == y.is_nullable() && x.metadata() == y.metadata()) && a.metadata() == b.metadata()
}

struct Side {
    ctx: SessionContext,
    logs: Vec<Arc<Mutex<Vec<String>>>>,
    _keep: Option<Arc<dyn TaskContextProvider>>,
}

fn make_side(case: &Case, foreign: bool, reforeign: bool, push: bool) -> Result<Side> {
    let cfg = SessionConfig::new().with_target_partitions(3).with_batch_size(3).with_information_schema(false);
    let ctx = SessionContext::new_with_config(cfg);
    let tcp: Arc<dyn TaskContextProvider> = Arc::new(ctx.clone());
    let mut logs = vec![];
    for (t, l) in case.db.tables.iter().zip(case.layout.iter()) {
        let mt = Arc::new(MemTable::try_new(table_schema(t), table_partitions(t, l))?);
        let native: Arc<dyn TableProvider> = if push {
            let log = Arc::new(Mutex::new(vec![]));
            logs.push(log.clone());
            Arc::new(PushTable { inner: mt, name: t.name.clone(), log })
        } else {
            mt
        };
        let p = if foreign { foreign_table(native, &tcp, reforeign) } else { native };
        ctx.register_table(t.name.as_str(), p)?;
    }
    Ok(Side { ctx, logs, _keep: Some(tcp) })
}

async fn run_side(side: &Side, sql: &str) -> Result<(SchemaRef, Vec<Row>)> {
    let df = side.ctx.sql(sql).await?;
    let schema: SchemaRef = Arc::new(df.schema().as_arrow().clone());
    let batches = df.collect().await?;
    for b in &batches {
        if !same_schema(b.schema().as_ref(), schema.as_ref()) && b.schema().fields().len() != schema.fields().len() {
            return Err(DataFusionError::Internal("batch schema has a different number of columns than the DataFrame schema".into()));
        }
    }
    Ok((schema, batches_to_rows(&batches)))
}

/// One generated SQL case over native MemTables vs the same tables behind `ForeignTableProvider`.
pub fn query_case(cx: &Cx, case: &Case, idx: u64) {
    let reforeign = idx % 2 == 1;
    let push = idx % 3 != 0;
    let sql = case.sql.clone();
    let fp = case.fingerprint();
    let out = vcommon::par::guard(|| {
        let rt = dfv::engine::current_thread_rt();
        rt.block_on(async {
            let native = make_side(case, false, false, push)?;
            let foreign = make_side(case, true, reforeign, push)?;
            let a = tokio::time::timeout(std::time::Duration::from_secs(60), run_side(&native, &sql)).await;
            let b = tokio::time::timeout(std::time::Duration::from_secs(60), run_side(&foreign, &sql)).await;
            let logs = |s: &Side| -> Vec<String> {
                let mut v: Vec<String> = s.logs.iter().flat_map(|l| l.lock().unwrap_or_else(|e| e.into_inner()).clone()).collect();
                v.sort();
                v
            };
            Ok::<_, DataFusionError>((a, b, logs(&native), logs(&foreign)))
        })
    });
    let witness = |what: &str, native: Json, foreign: Json| -> Json {
        json!({"component": if reforeign { "table provider + execution plan + stream" } else { "table provider" }, "sql": sql, "tables": dfv::engine::db_to_json(&case.db), "layout": json!(case.layout), "provider": if push { "PushTable(MemTable), Inexact pushdown" } else { "MemTable" }, "what": what, "native": native, "foreign": foreign})
    };
    match out {
        Err(p) => {
            cx.rep.case(fp, true);
            cx.violation("table-provider/panic", witness("panic while running the query pair", json!(null), json!(p)));
        }
        Ok(Err(e)) => {
            cx.rep.case(fp, false);
            cx.rep.skip(&format!("table: setup failed: {}", e.to_string().chars().take(60).collect::<String>()));
        }
        Ok(Ok((Err(_), _, _, _))) | Ok(Ok((_, Err(_), _, _))) => {
            cx.rep.case(fp, false);
            cx.rep.inconclusive("a query exceeded the 60 s guard");
        }
        Ok(Ok((Ok(a), Ok(b), la, lb))) => {
            cx.rep.count("table.queries", 1);
            cx.method("ForeignTableProvider::{schema,table_type,supports_filters_pushdown,scan}");
            if reforeign {
                cx.method("ForeignExecutionPlan::{properties,children,execute} + FFI_RecordBatchStream::poll_next");
            }
            match (a, b) {
                (Ok((sa, ra)), Ok((sb, rb))) => {
                    let nontrivial = !ra.is_empty();
                    cx.rep.case(fp, nontrivial);
                    cx.rep.count("table.queries-both-succeed", 1);
                    if !same_schema(&sa, &sb) {
                        cx.violation("table-provider/result-schema", witness("result schema differs", schema_json(&sa), schema_json(&sb)));
                    }
                    let mut rb = rb;
                    if cx.selftest && !rb.is_empty() {
                        rb.pop();
                    }
                    if let Err(d) = dfv::canon::compare(&rb, &ra, &case.mode) {
                        cx.violation("table-provider/result-rows", witness(&format!("rows differ: {d}"), rows_to_json(&ra), rows_to_json(&rb)));
                    }
                    if push && la != lb {
                        cx.violation("table-provider/scan-arguments", witness("the provider is asked to scan with different projection / filters / limit", json!(la), json!(lb)));
                    } else if push && !la.is_empty() {
                        cx.rep.count("table.scan-logs-equal", 1);
                        if la.iter().any(|l| !l.contains("filters=[]")) {
                            cx.rep.count("table.scans-with-pushed-filters", 1);
                        }
                        if la.iter().any(|l| !l.contains("limit=None")) {
                            cx.rep.count("table.scans-with-limit", 1);
                        }
                        if la.iter().any(|l| !l.contains("projection=None")) {
                            cx.rep.count("table.scans-with-projection", 1);
                        }
                    }
                }
                (Err(ea), Err(eb)) => {
                    cx.rep.case(fp, false);
                    cx.rep.count("table.queries-both-fail", 1);
                    let _ = (ea, eb);
                }
                (Ok(_), Err(e)) => {
                    cx.rep.case(fp, true);
                    let cls = classify(&e);
                    if cls == ErrClass::NotImplemented {
                        cx.violation("table-provider/error-parity/not-implemented", witness("the query succeeds natively and is not implemented through the foreign path", json!("ok"), json!(e.to_string().chars().take(400).collect::<String>())));
                    } else {
                        cx.violation("table-provider/error-parity", witness("the query succeeds natively and fails through the foreign path", json!("ok"), json!(e.to_string().chars().take(400).collect::<String>())));
                    }
                }
                (Err(e), Ok(_)) => {
                    cx.rep.case(fp, true);
                    cx.violation("table-provider/error-parity", witness("the query fails natively and succeeds through the foreign path", json!(e.to_string().chars().take(400).collect::<String>()), json!("ok")));
                }
            }
        }
    }
}

// ---------------------------------------------------------------------------------------------
// plans and streams

fn props_json(p: &PlanProperties) -> Json {
    json!({
        "partitioning": format!("{:?}", p.output_partitioning()),
        "output_ordering": p.output_ordering().map(|o| o.to_string()),
        "boundedness": format!("{:?}", p.boundedness),
        "emission_type": format!("{:?}", p.emission_type),
        "schema": schema_json(p.eq_properties.schema()),
    })
}

fn tree_names(p: &Arc<dyn ExecutionPlan>, foreign: bool, out: &mut Vec<String>, depth: usize) {
    out.push(format!("{}{}", " ".repeat(depth), p.name()));
    let _ = foreign;
    for c in p.children() {
        tree_names(c, foreign, out, depth + 1);
    }
}

/// Execute every partition (concurrently, as the engine does) and collect its rows.
async fn drain(plan: &Arc<dyn ExecutionPlan>, ctx: &Arc<TaskContext>) -> Vec<std::result::Result<Vec<Row>, String>> {
    let n = plan.properties().output_partitioning().partition_count();
    let one = |p: usize| {
        let plan = plan.clone();
        let ctx = ctx.clone();
        async move {
            match plan.execute(p, ctx) {
                Err(e) => Err(format!("execute: {e}")),
                Ok(mut s) => {
                    let declared = s.schema();
                    let mut rows = vec![];
                    while let Some(b) = s.next().await {
                        match b {
                            Ok(b) => {
                                if !same_schema(b.schema().as_ref(), declared.as_ref()) {
                                    return Err(format!("batch schema {:?} differs from the stream's declared schema {:?}", schema_json(&b.schema()), schema_json(&declared)));
                                }
                                rows.extend(batches_to_rows(&[b]));
                            }
                            Err(e) => return Err(e.to_string()),
                        }
                    }
                    Ok(rows)
                }
            }
        }
    };
    futures::future::join_all((0..n).map(one)).await
}

/// The physical plan of one generated query: native vs wrapped (whole tree forced foreign).
pub fn plan_case(cx: &Cx, case: &Case, idx: u64) {
    let sql = case.sql.clone();
    let fp = vcommon::fp_mix(case.fingerprint(), 0x9A17);
    let out = vcommon::par::guard(|| {
        let rt = dfv::engine::current_thread_rt();
        rt.block_on(async {
            let side = make_side(case, false, false, false)?;
            let p1 = side.ctx.sql(&sql).await?.create_physical_plan().await?;
            let p2 = side.ctx.sql(&sql).await?.create_physical_plan().await?;
            let f = foreign_plan(p2)?;
            let tctx = side.ctx.task_ctx();
            let mut na = vec![];
            let mut nb = vec![];
            tree_names(&p1, false, &mut na, 0);
            tree_names(&f, true, &mut nb, 0);
            let pa = props_json(p1.properties());
            let pb = props_json(f.properties());
            // the FFI wrapper answers with StatisticsContext::compute on the provider side
            let stats = |p: &Arc<dyn ExecutionPlan>| StatisticsContext::new().compute(p.as_ref(), &StatisticsArgs::new().with_partition(None)).map(|s| format!("{s:?}")).map_err(|e| e.to_string());
            let sa = stats(&p1);
            let sb = stats(&f);
            let ra = tokio::time::timeout(std::time::Duration::from_secs(60), drain(&p1, &tctx)).await;
            let rb = tokio::time::timeout(std::time::Duration::from_secs(60), drain(&f, &tctx)).await;
            Ok::<_, DataFusionError>((na, nb, pa, pb, sa, sb, ra.ok(), rb.ok()))
        })
    });
    let _ = idx;
    let witness = |what: &str, native: Json, foreign: Json| -> Json { json!({"component": "execution plan", "sql": sql, "tables": dfv::engine::db_to_json(&case.db), "layout": json!(case.layout), "what": what, "native": native, "foreign": foreign}) };
    match out {
        Err(p) => {
            cx.rep.case(fp, true);
            cx.violation("execution-plan/panic", witness("panic", json!(null), json!(p)));
        }
        Ok(Err(e)) => {
            cx.rep.case(fp, false);
            let m = e.to_string();
            if m.contains("FFI") || m.contains("ffi") || m.contains("proto") || m.contains("Proto") {
                // planning succeeded natively: a failure that mentions the FFI layer is a wrapping failure
                cx.violation("execution-plan/wrap-fails", witness("the native plan cannot be wrapped / read back", json!("planned"), json!(m.chars().take(400).collect::<String>())));
            } else {
                cx.rep.skip("plan: query not plannable");
            }
        }
        Ok(Ok((na, nb, pa, pb, sa, sb, ra, rb))) => {
            let (ra_ok, rb_ok) = (ra.is_some(), rb.is_some());
            cx.method("ForeignExecutionPlan::{name,properties,children,execute,partition_statistics}");
            cx.rep.count("plan.plans", 1);
            if na != nb {
                cx.violation("execution-plan/tree", witness("operator names / tree shape differ", json!(na), json!(nb)));
            }
            if pa != pb {
                cx.violation("execution-plan/properties", witness("transported plan properties differ", pa.clone(), pb.clone()));
            }
            match (&sa, &sb) {
                (Ok(x), Ok(y)) if x != y => cx.violation("execution-plan/statistics", witness("StatisticsContext::compute(plan, partition None) differs", json!(x), json!(y))),
                (Ok(_), Err(e)) => cx.violation("execution-plan/statistics", witness("partition_statistics fails through the foreign path only", json!("ok"), json!(e))),
                _ => {}
            }
            let (Some(ra), Some(mut rb)) = (ra, rb) else {
                // never a verdict: recorded with the query so that it can be looked at
                cx.rep.case(fp, false);
                cx.rep.count("plan.exceeded-the-60s-guard", 1);
                if cx.rep.get_count("plan.exceeded-the-60s-guard") <= 3 {
                    cx.rep.extra(&format!("plan_timeout_sample_{}", cx.rep.get_count("plan.exceeded-the-60s-guard")), json!({"sql": sql, "tables": dfv::engine::db_to_json(&case.db), "layout": json!(case.layout), "native_finished": ra_ok, "foreign_finished": rb_ok}));
                }
                cx.rep.inconclusive("a plan exceeded the 60 s guard");
                return;
            };
            if cx.selftest {
                if let Some(Ok(r)) = rb.iter_mut().find(|r| matches!(r, Ok(v) if !v.is_empty())) {
                    r.pop();
                }
            }
            let ok_a = ra.iter().all(|r| r.is_ok());
            let ok_b = rb.iter().all(|r| r.is_ok());
            let all = |v: &Vec<std::result::Result<Vec<Row>, String>>| -> Vec<Row> { v.iter().filter_map(|r| r.as_ref().ok()).flatten().cloned().collect() };
            let (xa, xb) = (all(&ra), all(&rb));
            cx.rep.case(fp, !xa.is_empty());
            if ra.len() != rb.len() {
                cx.violation("execution-plan/partitions", witness("number of executable partitions differs", json!(ra.len()), json!(rb.len())));
            } else if ok_a != ok_b {
                cx.violation("execution-plan/error-parity", witness("one side fails", json!(ra.iter().map(|r| r.as_ref().map(|v| v.len()).map_err(|e| e.clone())).collect::<Vec<_>>()), json!(rb.iter().map(|r| r.as_ref().map(|v| v.len()).map_err(|e| e.clone())).collect::<Vec<_>>())));
            } else if ok_a && !dfv::canon::multiset_eq(&xa, &xb) {
                cx.violation("execution-plan/rows", witness("the executed partitions produce different rows", rows_to_json(&xa), rows_to_json(&xb)));
            } else if ok_a {
                cx.rep.count("plan.executions-equal", 1);
            }
        }
    }
}

// --- error injection ---------------------------------------------------------------------------

#[derive(Debug)]
struct FailingExec {
    schema: SchemaRef,
    batches: Vec<RecordBatch>,
    fail_after: usize,
    fail_in_execute: bool,
    cache: Arc<PlanProperties>,
}

impl FailingExec {
    fn new(batches: Vec<RecordBatch>, schema: SchemaRef, fail_after: usize, fail_in_execute: bool) -> Self {
        let cache = PlanProperties::new(EquivalenceProperties::new(schema.clone()), Partitioning::UnknownPartitioning(1), EmissionType::Incremental, Boundedness::Bounded);
        FailingExec { schema, batches, fail_after, fail_in_execute, cache: Arc::new(cache) }
    }
}

impl DisplayAs for FailingExec {
    fn fmt_as(&self, _t: DisplayFormatType, f: &mut std::fmt::Formatter) -> std::fmt::Result {
        write!(f, "FailingExec: fail_after={}", self.fail_after)
    }
}

impl ExecutionPlan for FailingExec {
    fn name(&self) -> &str {
        "FailingExec"
    }
    fn properties(&self) -> &Arc<PlanProperties> {
        &self.cache
    }
    fn children(&self) -> Vec<&Arc<dyn ExecutionPlan>> {
        vec![]
    }
    fn apply_expressions(&self, _f: &mut dyn FnMut(&Arc<dyn PhysicalExpr>) -> Result<TreeNodeRecursion>) -> Result<TreeNodeRecursion> {
        Ok(TreeNodeRecursion::Continue)
    }
    fn with_new_children(self: Arc<Self>, _children: Vec<Arc<dyn ExecutionPlan>>) -> Result<Arc<dyn ExecutionPlan>> {
        Ok(self)
    }
    fn execute(&self, _partition: usize, _context: Arc<TaskContext>) -> Result<SendableRecordBatchStream> {
        if self.fail_in_execute {
            return Err(DataFusionError::Execution("injected failure in execute".into()));
        }
        Ok(Box::pin(FailingStream { schema: self.schema.clone(), batches: self.batches.clone(), next: 0, fail_after: self.fail_after, failed: false, pending_toggle: false }))
    }
}

struct FailingStream {
    schema: SchemaRef,
    batches: Vec<RecordBatch>,
    next: usize,
    fail_after: usize,
    failed: bool,
    pending_toggle: bool,
}

impl Stream for FailingStream {
    type Item = Result<RecordBatch>;
    fn poll_next(mut self: Pin<&mut Self>, cx: &mut Context<'_>) -> Poll<Option<Self::Item>> {
        // every other poll is Pending with an immediate wake-up: the waker must cross the boundary
        self.pending_toggle = !self.pending_toggle;
        if self.pending_toggle {
            cx.waker().wake_by_ref();
            return Poll::Pending;
        }
        if self.failed {
            return Poll::Ready(None);
        }
        if self.next == self.fail_after {
            self.failed = true;
            return Poll::Ready(Some(Err(DataFusionError::Execution(format!("injected failure after {} batches", self.fail_after)))));
        }
        if self.next >= self.batches.len() {
            return Poll::Ready(None);
        }
        let b = self.batches[self.next].clone();
        self.next += 1;
        Poll::Ready(Some(Ok(b)))
    }
}

impl RecordBatchStream for FailingStream {
    fn schema(&self) -> SchemaRef {
        self.schema.clone()
    }
}

async fn events(mut s: SendableRecordBatchStream) -> Vec<String> {
    let mut ev = vec![];
    let mut guard = 0;
    while let Some(x) = s.next().await {
        match x {
            Ok(b) => ev.push(format!("batch rows={} {}", b.num_rows(), rows_to_json(&batches_to_rows(&[b])))),
            Err(_) => ev.push("error".to_string()),
        }
        guard += 1;
        if guard > 64 {
            ev.push("…".into());
            break;
        }
    }
    ev.push("end".into());
    ev
}

fn small_batches(n: usize) -> (SchemaRef, Vec<RecordBatch>) {
    let schema = Arc::new(Schema::new(vec![Field::new("a", DataType::Int64, true), Field::new("s", DataType::Utf8, true)]));
    let batches = (0..n)
        .map(|k| {
            let a = Int64Array::from((0..3).map(|i| if (k + i) % 4 == 3 { None } else { Some((k * 10 + i) as i64) }).collect::<Vec<_>>());
            let s = StringArray::from((0..3).map(|i| if (k + i) % 5 == 4 { None } else { Some(format!("row-{k}-{i}-longer-than-twelve")) }).collect::<Vec<_>>());
            RecordBatch::try_new(schema.clone(), vec![Arc::new(a), Arc::new(s)]).expect("batch")
        })
        .collect();
    (schema, batches)
}

/// A stream that yields Err after k batches must yield the error through the foreign path too.
pub fn error_injection(cx: &Cx, k: usize, total: usize, in_execute: bool, via_plan: bool) {
    let fp = vcommon::fp_str(&format!("inject{k}/{total}/{in_execute}/{via_plan}"));
    let out = vcommon::par::guard(|| {
        let rt = dfv::engine::current_thread_rt();
        rt.block_on(async {
            let (schema, batches) = small_batches(total);
            let ctx = SessionContext::new();
            let tctx = ctx.task_ctx();
            let native: Arc<dyn ExecutionPlan> = Arc::new(FailingExec::new(batches.clone(), schema.clone(), k, in_execute));
            let a = match native.execute(0, tctx.clone()) {
                Ok(s) => events(s).await,
                Err(_) => vec!["execute-error".into()],
            };
            let b = if via_plan {
                let f = foreign_plan(Arc::new(FailingExec::new(batches, schema, k, in_execute)))?;
                match f.execute(0, tctx) {
                    Ok(s) => events(s).await,
                    Err(_) => vec!["execute-error".into()],
                }
            } else {
                match native.execute(0, tctx) {
                    Ok(s) => {
                        let f: SendableRecordBatchStream = Box::pin(FFI_RecordBatchStream::new(s, None));
                        events(f).await
                    }
                    Err(_) => vec!["execute-error".into()],
                }
            };
            Ok::<_, DataFusionError>((a, b))
        })
    });
    cx.method(if via_plan { "ForeignExecutionPlan::execute (error injection)" } else { "FFI_RecordBatchStream::poll_next (error injection)" });
    match out {
        Ok(Ok((a, mut b))) => {
            cx.rep.case(fp, true);
            cx.rep.count("inject.cases", 1);
            if cx.selftest && k < total {
                b.retain(|e| e != "error");
            }
            if a != b {
                cx.violation(
                    if b.iter().all(|e| e != "error" && e != "execute-error") && a.iter().any(|e| e == "error" || e == "execute-error") { "stream/error-lost" } else { "stream/events-differ" },
                    json!({"component": if via_plan { "execution plan + stream" } else { "record batch stream" }, "what": "the sequence of stream events differs", "fail_after_batches": k, "batches": total, "fails_in_execute": in_execute, "native": a, "foreign": b}),
                );
            }
        }
        Ok(Err(e)) => {
            cx.rep.case(fp, false);
            cx.rep.skip(&format!("inject: setup failed: {}", e.to_string().chars().take(60).collect::<String>()));
        }
        Err(p) => {
            cx.rep.case(fp, true);
            cx.violation("stream/panic", json!({"component": "record batch stream", "what": "panic during error injection", "panic": p}));
        }
    }
}

/// A source that returns Pending / sleeps between batches, wrapped as plan + stream; all streams must be released.
pub fn chaos_stream(cx: &Cx, seed: u64) {
    let fp = vcommon::fp_str(&format!("chaos{seed}"));
    let out = vcommon::par::guard(|| {
        let rt = tokio::runtime::Builder::new_current_thread().enable_all().start_paused(true).build().expect("rt");
        rt.block_on(async {
            let (schema, batches) = small_batches(6);
            let parts = vec![batches[..4].to_vec(), batches[4..].to_vec(), vec![]];
            let ctx = SessionContext::new();
            let tctx = ctx.task_ctx();
            let probe_a = ChaosProbe::new();
            let probe_b = ChaosProbe::new();
            let native: Arc<dyn ExecutionPlan> = Arc::new(ChaosSourceExec::new(schema.clone(), parts.clone(), ChaosScript::virtual_ms(seed), probe_a.clone()));
            let wrapped = foreign_plan(Arc::new(ChaosSourceExec::new(schema, parts, ChaosScript::virtual_ms(seed), probe_b.clone())))?;
            let a = drain(&native, &tctx).await;
            let b = drain(&wrapped, &tctx).await;
            // an abandoned stream: start, take one batch, drop
            {
                let mut s = wrapped.execute(0, tctx.clone())?;
                let _ = s.next().await;
            }
            let pa = props_json(native.properties());
            let pb = props_json(wrapped.properties());
            drop(wrapped);
            Ok::<_, DataFusionError>((a, b, pa, pb, probe_b.live(), probe_b.opened.load(std::sync::atomic::Ordering::SeqCst)))
        })
    });
    cx.method("ForeignExecutionPlan::execute over a source that returns Pending");
    match out {
        Ok(Ok((a, b, pa, pb, live, opened))) => {
            cx.rep.case(fp, true);
            cx.rep.count("chaos.cases", 1);
            let ra: Vec<_> = a.iter().map(|r| r.as_ref().map(|v| rows_to_json(v)).map_err(|e| e.clone())).collect();
            let rb: Vec<_> = b.iter().map(|r| r.as_ref().map(|v| rows_to_json(v)).map_err(|e| e.clone())).collect();
            if ra != rb {
                cx.violation("stream/rows", json!({"component": "execution plan + stream", "what": "per-partition rows differ for a source that yields Pending", "seed": seed, "native": format!("{ra:?}"), "foreign": format!("{rb:?}")}));
            }
            if pa != pb {
                cx.violation("execution-plan/properties", json!({"component": "execution plan", "what": "transported plan properties differ", "native": pa, "foreign": pb}));
            }
            if live != 0 {
                cx.violation("stream/not-released", json!({"component": "record batch stream", "what": "native streams still alive after every foreign stream and the plan were dropped", "streams_opened": opened, "streams_alive": live}));
            }
        }
        Ok(Err(e)) => {
            cx.rep.case(fp, false);
            cx.rep.skip(&format!("chaos: setup failed: {}", e.to_string().chars().take(60).collect::<String>()));
        }
        Err(p) => {
            cx.rep.case(fp, true);
            cx.violation("stream/panic", json!({"component": "execution plan + stream", "what": "panic", "panic": p}));
        }
    }
}

// --- catalog + table function -------------------------------------------------------------------

pub fn catalog_case(cx: &Cx, case: &Case) {
    let fp = vcommon::fp_mix(case.fingerprint(), 0xCA7);
    let out = vcommon::par::guard(|| {
        let rt = dfv::engine::current_thread_rt();
        rt.block_on(async {
            let ctx = SessionContext::new();
            let tcp: Arc<dyn TaskContextProvider> = Arc::new(ctx.clone());
            let cat = Arc::new(MemoryCatalogProvider::new());
            let sch = Arc::new(MemorySchemaProvider::new());
            for (t, l) in case.db.tables.iter().zip(case.layout.iter()) {
                sch.register_table(t.name.clone(), Arc::new(MemTable::try_new(table_schema(t), table_partitions(t, l))?))?;
            }
            cat.register_schema("s1", sch.clone())?;
            cat.register_schema("empty", Arc::new(MemorySchemaProvider::new()))?;
            let mut ffi = FFI_CatalogProvider::new(cat.clone(), None, &tcp, None);
            ffi.library_marker_id = harness_marker;
            let foreign: Arc<dyn CatalogProvider> = (&ffi).into();
            let mut diffs = vec![];
            let mut na = cat.schema_names();
            let mut nb = foreign.schema_names();
            na.sort();
            nb.sort();
            if na != nb {
                diffs.push(json!({"schema_names": [na, nb]}));
            }
            if foreign.schema("nope").is_some() != cat.schema("nope").is_some() {
                diffs.push(json!({"schema(nope)": "presence differs"}));
            }
            if let (Some(a), Some(b)) = (cat.schema("s1"), foreign.schema("s1")) {
                let mut ta = a.table_names();
                let mut tb = b.table_names();
                ta.sort();
                tb.sort();
                if ta != tb {
                    diffs.push(json!({"table_names": [ta, tb]}));
                }
                for t in &case.db.tables {
                    if a.table_exist(&t.name) != b.table_exist(&t.name) {
                        diffs.push(json!({"table_exist": t.name}));
                    }
                    let (x, y) = (a.table(&t.name).await?, b.table(&t.name).await?);
                    match (x, y) {
                        (Some(x), Some(y)) => {
                            if !same_schema(&x.schema(), &y.schema()) {
                                diffs.push(json!({"table_schema": t.name, "native": schema_json(&x.schema()), "foreign": schema_json(&y.schema())}));
                            }
                        }
                        (None, None) => {}
                        _ => diffs.push(json!({"table()": t.name, "what": "presence differs"})),
                    }
                }
                if b.table("no_such_table").await?.is_some() {
                    diffs.push(json!({"table(no_such_table)": "exists through the foreign path"}));
                }
            } else {
                diffs.push(json!({"schema(s1)": "missing"}));
            }
            // query through the foreign catalog
            ctx.register_catalog("fc", foreign);
            ctx.register_catalog("nc", cat);
            let t0 = &case.db.tables[0].name;
            let ra = ctx.sql(&format!("SELECT * FROM nc.s1.{t0}")).await?.collect().await?;
            let rb = ctx.sql(&format!("SELECT * FROM fc.s1.{t0}")).await?.collect().await?;
            if !dfv::canon::multiset_eq(&batches_to_rows(&ra), &batches_to_rows(&rb)) {
                diffs.push(json!({"select_star": "rows differ"}));
            }
            Ok::<_, DataFusionError>(diffs)
        })
    });
    cx.method("ForeignCatalogProvider::{schema_names,schema} + ForeignSchemaProvider::{table_names,table,table_exist}");
    match out {
        Ok(Ok(diffs)) => {
            cx.rep.case(fp, true);
            cx.rep.count("catalog.cases", 1);
            if !diffs.is_empty() {
                cx.violation("catalog-provider/differs", json!({"component": "catalog provider", "tables": dfv::engine::db_to_json(&case.db), "differences": diffs}));
            }
        }
        Ok(Err(e)) => {
            cx.rep.case(fp, true);
            cx.violation("catalog-provider/error", json!({"component": "catalog provider", "what": "an operation that succeeds natively fails", "error": e.to_string().chars().take(400).collect::<String>()}));
        }
        Err(p) => {
            cx.rep.case(fp, true);
            cx.violation("catalog-provider/panic", json!({"component": "catalog provider", "panic": p}));
        }
    }
}

pub fn table_function_cases(cx: &Cx) {
    let ctx = SessionContext::new();
    let fns: Vec<(String, Arc<dyn TableFunctionImpl>)> = ctx.state().table_functions().iter().map(|(k, v)| (k.clone(), v.function().clone())).collect();
    for (name, f) in fns {
        for (ai, args) in [vec![lit(1i64), lit(5i64)], vec![lit(1i64), lit(10i64), lit(3i64)], vec![lit(5i64)], vec![lit("x")], vec![]].into_iter().enumerate() {
            let fp = vcommon::fp_str(&format!("udtf{name}{ai}"));
            let f2 = f.clone();
            let out = vcommon::par::guard(|| {
                let rt = dfv::engine::current_thread_rt();
                rt.block_on(async {
                    let ctx = SessionContext::new();
                    let tcp: Arc<dyn TaskContextProvider> = Arc::new(ctx.clone());
                    let mut ffi = FFI_TableFunction::new(f2.clone(), None, &tcp, None);
                    ffi.library_marker_id = harness_marker;
                    let foreign: Arc<dyn TableFunctionImpl> = ffi.into();
                    let state = ctx.state();
                    let run = |tf: Arc<dyn TableFunctionImpl>| {
                        let state = state.clone();
                        let args = args.clone();
                        let ctx = ctx.clone();
                        async move {
                            let p = tf.call_with_args(datafusion::catalog::TableFunctionArgs::new(&args, &state))?;
                            let schema = p.schema();
                            let rows = batches_to_rows(&ctx.read_table(p)?.collect().await?);
                            Ok::<_, DataFusionError>((schema, rows))
                        }
                    };
                    let a = run(f2.clone()).await;
                    let b = run(foreign).await;
                    (a, b)
                })
            });
            cx.method("ForeignTableFunction::call_with_args");
            match out {
                Ok((Ok((sa, ra)), Ok((sb, rb)))) => {
                    cx.rep.case(fp, !ra.is_empty());
                    cx.rep.count("udtf.both-succeed", 1);
                    if !same_schema(&sa, &sb) || !dfv::canon::multiset_eq(&ra, &rb) {
                        cx.violation(&format!("table-function/result/{name}"), json!({"component": "table function", "function": name, "args": format!("{args:?}"), "native": {"schema": schema_json(&sa), "rows": rows_to_json(&ra)}, "foreign": {"schema": schema_json(&sb), "rows": rows_to_json(&rb)}}));
                    }
                }
                Ok((Err(_), Err(_))) => {
                    cx.rep.case(fp, false);
                    cx.rep.count("udtf.both-fail", 1);
                }
                Ok((a, b)) => {
                    cx.rep.case(fp, true);
                    cx.violation(&format!("table-function/error-parity/{name}"), json!({"component": "table function", "function": name, "args": format!("{args:?}"), "native": a.map(|x| x.1.len()).map_err(|e| e.to_string()), "foreign": b.map(|x| x.1.len()).map_err(|e| e.to_string())}));
                }
                Err(p) => {
                    cx.rep.case(fp, true);
                    cx.violation("table-function/panic", json!({"component": "table function", "function": name, "panic": p}));
                }
            }
        }
    }
}
