//! Aggregate UDFs through `FFI_AggregateUDF` -> `ForeignAggregateUDF` (accumulator, sliding
//! accumulator and groups accumulator are forced onto the foreign path as well, see `force`).

use crate::force::force_udaf;
use crate::{field_json, Cx, Trace};
use arrow::array::{ArrayRef, BooleanArray};
use arrow::datatypes::{DataType, Field, FieldRef, Schema, TimeUnit};
use datafusion_common::ScalarValue;
use datafusion_expr::type_coercion::functions::fields_with_udf;
use datafusion_expr::{AggregateUDF, AggregateUDFImpl, EmitTo};
use datafusion_ffi::udaf::FFI_AggregateUDF;
use datafusion_functions_aggregate_common::accumulator::{AccumulatorArgs, StateFieldsArgs};
use datafusion_physical_expr::expressions::{Column, Literal};
use datafusion_physical_expr::PhysicalExpr;
use dfv::fnrep::inv::{render, render_sv};
use dfv::fnrep::types::list_of;
use dfv::fnrep::vals::{column, ArgPools, PoolOpts};
use std::sync::Arc;
use vcommon::{fp_mix, fp_str, json, Rng};

pub fn foreign_udaf(native: &Arc<AggregateUDF>) -> AggregateUDF {
    let mut ffi: FFI_AggregateUDF = native.clone().into();
    force_udaf(&mut ffi);
    let imp: Arc<dyn AggregateUDFImpl> = (&ffi).into();
    AggregateUDF::new_from_shared_impl(imp)
}

fn candidates() -> Vec<Vec<DataType>> {
    use DataType::*;
    let ts = Timestamp(TimeUnit::Nanosecond, None);
    vec![
        vec![Int64],
        vec![Float64],
        vec![Utf8],
        vec![Boolean],
        vec![Int32],
        vec![Decimal128(10, 2)],
        vec![Date32],
        vec![ts.clone()],
        vec![Utf8View],
        vec![UInt64],
        vec![Float64, Float64],
        vec![Int64, Int64],
        vec![Float64, Int64],
        vec![Utf8, Utf8],
        vec![Int64, Utf8],
        vec![Utf8, Int64],
        vec![Float64, Float64, Float64],
        vec![Float64, Int64, Float64],
        vec![Float64, Float64, Int64],
        vec![Boolean, Boolean],
        vec![list_of(Int64)],
        vec![Float64, Utf8],
        vec![Int64, Float64],
        vec![Null],
    ]
}

fn arr_repr(a: &ArrayRef) -> String {
    let rows: Vec<String> = (0..a.len().min(24)).map(|i| render(a, i)).collect();
    format!("{}[{}]", a.data_type(), rows.join(", "))
}

fn sv_repr(v: &ScalarValue) -> String {
    format!("{}:{}", v.data_type(), render_sv(v))
}

fn literal_for(t: &DataType) -> Option<ScalarValue> {
    use DataType::*;
    Some(match t {
        Float64 => ScalarValue::Float64(Some(0.5)),
        Float32 => ScalarValue::Float32(Some(0.5)),
        Int64 => ScalarValue::Int64(Some(2)),
        Int32 => ScalarValue::Int32(Some(2)),
        UInt64 => ScalarValue::UInt64(Some(2)),
        Utf8 => ScalarValue::Utf8(Some(",".into())),
        Utf8View => ScalarValue::Utf8View(Some(",".into())),
        LargeUtf8 => ScalarValue::LargeUtf8(Some(",".into())),
        Boolean => ScalarValue::Boolean(Some(true)),
        _ => return None,
    })
}

struct Setup {
    fields: Vec<FieldRef>,
    schema: Schema,
    exprs: Vec<Arc<dyn PhysicalExpr>>,
    batch1: Vec<ArrayRef>,
    batch2: Vec<ArrayRef>,
    groups1: Vec<usize>,
    groups2: Vec<usize>,
}

/// Everything observable of one aggregate function object on one input, step by step.
fn trace<'a>(udaf: &AggregateUDF, s: &Setup, cx: &'a Cx<'a>, foreign: bool) -> Trace<'a> {
    let mut t = Trace::new(cx, if foreign { "ForeignAggregateUDF" } else { "" });
    let rf = t.step("return_field", || udaf.return_field(&s.fields).map(|f| (field_json(&f).to_string(), f)));
    let Some(rf) = rf else { return t };
    t.note("is_nullable", udaf.is_nullable().to_string());
    t.note("order_sensitivity", format!("{:?}", udaf.order_sensitivity()));
    t.note("supports_null_handling_clause", udaf.supports_null_handling_clause().to_string());
    t.note("name+aliases", format!("{} {:?}", udaf.name(), udaf.aliases()));
    t.note("volatility", format!("{:?}", udaf.signature().volatility));
    let args = || AccumulatorArgs { return_field: rf.clone(), schema: &s.schema, ignore_nulls: false, order_bys: &[], is_reversed: false, name: "agg", is_distinct: false, exprs: &s.exprs, expr_fields: &s.fields };
    t.step("state_fields", || {
        udaf.state_fields(StateFieldsArgs { name: "agg", input_fields: &s.fields, return_field: rf.clone(), ordering_fields: &[], is_distinct: false }).map(|fs| (fs.iter().map(|f| field_json(f).to_string()).collect::<Vec<_>>().join(" | "), ()))
    });
    // --- row accumulator: update, state, merge, evaluate
    let acc = t.step("accumulator", || udaf.accumulator(args()).map(|a| ("created".to_string(), a)));
    if let Some(mut acc) = acc {
        t.note("accumulator.supports_retract_batch", acc.supports_retract_batch().to_string());
        t.step("accumulator.update_batch(1)", || acc.update_batch(&s.batch1).map(|_| ("ok".to_string(), ())));
        let _ = acc.size();
        t.touch("accumulator.size");
        let st1 = t.step("accumulator.state(1)", || acc.state().map(|v| (v.iter().map(sv_repr).collect::<Vec<_>>().join(" | "), v)));
        t.step("accumulator.evaluate(1)", || acc.evaluate().map(|v| (sv_repr(&v), ())));
        let acc2 = t.step("accumulator#2", || udaf.accumulator(args()).map(|a| ("created".to_string(), a)));
        if let (Some(mut acc2), Some(st1)) = (acc2, st1) {
            t.step("accumulator#2.update_batch(2)", || acc2.update_batch(&s.batch2).map(|_| ("ok".to_string(), ())));
            let st2 = t.step("accumulator#2.state", || acc2.state().map(|v| (v.iter().map(sv_repr).collect::<Vec<_>>().join(" | "), v)));
            if let Some(st2) = st2 {
                if st1.len() == st2.len() {
                    let cols: Option<Vec<ArrayRef>> = (0..st1.len()).map(|k| ScalarValue::iter_to_array(vec![st1[k].clone(), st2[k].clone()]).ok()).collect();
                    if let Some(cols) = cols {
                        let m = t.step("accumulator#3", || udaf.accumulator(args()).map(|a| ("created".to_string(), a)));
                        if let Some(mut m) = m {
                            t.step("accumulator#3.merge_batch(states)", || m.merge_batch(&cols).map(|_| ("ok".to_string(), ())));
                            t.step("accumulator#3.evaluate", || m.evaluate().map(|v| (sv_repr(&v), ())));
                        }
                    }
                }
            }
        }
    }
    // --- sliding accumulator with retract
    let sl = t.step("create_sliding_accumulator", || udaf.create_sliding_accumulator(args()).map(|a| ("created".to_string(), a)));
    if let Some(mut sl) = sl {
        let retract = sl.supports_retract_batch();
        t.note("sliding.supports_retract_batch", retract.to_string());
        t.step("sliding.update_batch(1)", || sl.update_batch(&s.batch1).map(|_| ("ok".to_string(), ())));
        if retract {
            let head: Vec<ArrayRef> = s.batch1.iter().map(|a| a.slice(0, 2.min(a.len()))).collect();
            t.step("sliding.retract_batch(first 2 rows)", || sl.retract_batch(&head).map(|_| ("ok".to_string(), ())));
        }
        t.step("sliding.evaluate", || sl.evaluate().map(|v| (sv_repr(&v), ())));
    }
    // --- groups accumulator
    let supported = udaf.groups_accumulator_supported(args());
    t.note("groups_accumulator_supported", supported.to_string());
    if supported {
        let ga = t.step("create_groups_accumulator", || udaf.create_groups_accumulator(args()).map(|a| ("created".to_string(), a)));
        if let Some(mut ga) = ga {
            let filter = BooleanArray::from((0..s.groups1.len()).map(|i| Some(i % 5 != 4)).collect::<Vec<_>>());
            t.step("groups.update_batch(1, filter)", || ga.update_batch(&s.batch1, &s.groups1, Some(&filter), 3).map(|_| ("ok".to_string(), ())));
            let _ = ga.size();
            t.touch("groups.size");
            t.step("groups.convert_to_state(2)", || ga.convert_to_state(&s.batch2, None).map(|v| (v.iter().map(arr_repr).collect::<Vec<_>>().join(" | "), ())));
            let st = t.step("groups.state(All)", || ga.state(EmitTo::All).map(|v| (v.iter().map(arr_repr).collect::<Vec<_>>().join(" | "), v)));
            let ga2 = t.step("create_groups_accumulator#2", || udaf.create_groups_accumulator(args()).map(|a| ("created".to_string(), a)));
            if let (Some(st), Some(mut ga2)) = (st, ga2) {
                let n = st.first().map(|a| a.len()).unwrap_or(0);
                let idx: Vec<usize> = (0..n).collect();
                t.step("groups#2.merge_batch(state)", || ga2.merge_batch(&st, &idx, n.max(3)).map(|_| ("ok".to_string(), ())));
                t.step("groups#2.update_batch(2)", || ga2.update_batch(&s.batch2, &s.groups2, None, n.max(3)).map(|_| ("ok".to_string(), ())));
                t.step("groups#2.evaluate(First(1))", || ga2.evaluate(EmitTo::First(1)).map(|a| (arr_repr(&a), ())));
                t.step("groups#2.evaluate(All)", || ga2.evaluate(EmitTo::All).map(|a| (arr_repr(&a), ())));
            }
        }
    }
    // --- coercion
    t.step("coerce_types", || {
        let raw: Vec<FieldRef> = s.fields.iter().map(|f| if f.data_type() == &DataType::Float64 { Arc::new(Field::new(f.name(), DataType::Int32, true)) } else { f.clone() }).collect();
        fields_with_udf(&raw, udaf).map(|fs| (fs.iter().map(|f| f.data_type().to_string()).collect::<Vec<_>>().join(", "), ()))
    });
    t
}

pub fn run_function(cx: &Cx, label: &str, native: &Arc<AggregateUDF>, seed: u64, max_lists: usize) {
    let foreign = foreign_udaf(native);
    let mut accepted: Vec<Vec<DataType>> = vec![];
    for c in candidates() {
        let fields: Vec<FieldRef> = c.iter().enumerate().map(|(j, t)| Arc::new(Field::new(format!("c{j}"), t.clone(), true)) as FieldRef).collect();
        let Ok(Ok(co)) = vcommon::par::guard(|| fields_with_udf(&fields, native.as_ref())) else { continue };
        let co: Vec<DataType> = co.iter().map(|f| f.data_type().clone()).collect();
        if co.len() != c.len() || accepted.contains(&co) {
            continue;
        }
        let cf: Vec<FieldRef> = co.iter().enumerate().map(|(j, t)| Arc::new(Field::new(format!("c{j}"), t.clone(), true)) as FieldRef).collect();
        if !matches!(vcommon::par::guard(|| native.return_field(&cf)), Ok(Ok(_))) {
            continue;
        }
        accepted.push(co);
        if accepted.len() >= max_lists * 3 {
            break;
        }
    }
    if accepted.is_empty() {
        cx.rep.skip("aggregate: no accepted argument type list");
        return;
    }
    let mut done = 0;
    for (li, types) in accepted.iter().enumerate() {
        if done >= max_lists {
            break;
        }
        let Some(pools) = ArgPools::new(types, PoolOpts { int_cap: Some(1000), small_time: true }) else { continue };
        let mut rng = Rng::derive(seed, &[45, 2, fp_str(label), li as u64]);
        let fields: Vec<FieldRef> = types.iter().enumerate().map(|(j, t)| Arc::new(Field::new(format!("c{j}"), t.clone(), true)) as FieldRef).collect();
        let schema = Schema::new(fields.iter().map(|f| f.as_ref().clone()).collect::<Vec<_>>());
        // expression shapes: all columns; trailing arguments as literals (percentiles, delimiters, n)
        let shapes: Vec<Vec<bool>> = {
            let n = types.len();
            let mut v = vec![vec![false; n]];
            if n >= 2 {
                let mut l = vec![false; n];
                l[n - 1] = true;
                v.push(l);
                let mut l = vec![true; n];
                l[0] = false;
                v.push(l);
            }
            v
        };
        for shape in shapes {
            let lits: Vec<Option<ScalarValue>> = shape.iter().zip(types.iter()).map(|(l, t)| if *l { literal_for(t) } else { None }).collect();
            if shape.iter().zip(lits.iter()).any(|(l, v)| *l && v.is_none()) {
                continue;
            }
            let exprs: Vec<Arc<dyn PhysicalExpr>> = (0..types.len()).map(|j| match &lits[j] { Some(v) => Arc::new(Literal::new(v.clone())) as Arc<dyn PhysicalExpr>, None => Arc::new(Column::new(&format!("c{j}"), j)) as Arc<dyn PhysicalExpr> }).collect();
            let nrows = 12usize;
            let rows: Vec<Vec<ScalarValue>> = (0..nrows).map(|_| pools.row(&mut rng)).collect();
            let col = |j: usize, lo: usize, hi: usize| -> Option<ArrayRef> {
                let vals: Vec<ScalarValue> = (lo..hi).map(|i| match &lits[j] { Some(v) => v.clone(), None => rows[i][j].clone() }).collect();
                column(&vals, &types[j]).ok()
            };
            let b1: Option<Vec<ArrayRef>> = (0..types.len()).map(|j| col(j, 0, 7)).collect();
            let b2: Option<Vec<ArrayRef>> = (0..types.len()).map(|j| col(j, 7, nrows)).collect();
            let (Some(batch1), Some(batch2)) = (b1, b2) else { continue };
            let setup = Setup { fields: fields.clone(), schema: schema.clone(), exprs, batch1, batch2, groups1: (0..7).map(|i| i % 3).collect(), groups2: (0..nrows - 7).map(|i| (i + 1) % 3).collect() };
            let n = trace(native.as_ref(), &setup, cx, false);
            if !n.created("accumulator") && !n.created("create_groups_accumulator") {
                continue; // this expression shape is not accepted natively; try the next
            }
            if n.panicked() {
                cx.rep.count("aggregate.native-panics (foreign trace skipped)", 1);
                if !cx.rep.has_seen("aggregate-functions-panicking-natively", label) {
                    cx.rep.extra(&format!("native_panic_trace:{label}"), json!({"arg_types": types.iter().map(|t| t.to_string()).collect::<Vec<_>>(), "trace": n.to_json()}));
                }
                cx.rep.seen("aggregate-functions-panicking-natively", label);
                continue;
            }
            let mut f = trace(&foreign, &setup, cx, true);
            if cx.selftest {
                f.corrupt("accumulator.evaluate(1)");
            }
            let fp = fp_mix(fp_str(label), fp_str(&format!("{types:?}{shape:?}{}", n.digest())));
            let nontrivial = n.has_value("accumulator.evaluate(1)") || n.has_value("groups#2.evaluate(All)");
            cx.rep.case(fp, nontrivial);
            cx.rep.count("aggregate.traces-compared", 1);
            if let Some(diff) = n.diff(&f) {
                cx.violation(
                    &format!("aggregate-udf/{}/{}", diff.0, label),
                    json!({"component": "aggregate function", "function": label, "arg_types": types.iter().map(|t| t.to_string()).collect::<Vec<_>>(), "literal_args": shape,
                        "input_rows": rows.iter().map(|r| r.iter().map(render_sv).collect::<Vec<_>>()).collect::<Vec<_>>(), "step": diff.1, "native": diff.2, "foreign": diff.3, "native_trace": n.to_json(), "foreign_trace": f.to_json()}),
                );
            }
            if nontrivial {
                cx.rep.seen("aggregate-functions-compared", label);
            }
            done += 1;
            break;
        }
    }
    if done == 0 {
        cx.rep.skip("aggregate: no accumulator could be created natively for the probed argument lists");
        cx.rep.seen("aggregate-functions-not-exercised", label);
    }
}
