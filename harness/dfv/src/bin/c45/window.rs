//! Window UDFs through `FFI_WindowUDF` -> `ForeignWindowUDF` (+ forced `FFI_PartitionEvaluator`).

use crate::force::force_udwf;
use crate::{field_json, Cx, Trace};
use arrow::array::ArrayRef;
use arrow::datatypes::{DataType, Field, FieldRef};
use datafusion_common::ScalarValue;
use datafusion_expr::function::{PartitionEvaluatorArgs, WindowUDFFieldArgs};
use datafusion_expr::type_coercion::functions::fields_with_udf;
use datafusion_expr::{WindowUDF, WindowUDFImpl};
use datafusion_ffi::udwf::FFI_WindowUDF;
use datafusion_physical_expr::expressions::{Column, Literal};
use datafusion_physical_expr::PhysicalExpr;
use dfv::fnrep::inv::{render, render_sv};
use dfv::fnrep::vals::{column, ArgPools, PoolOpts};
use std::sync::Arc;
use vcommon::{fp_mix, fp_str, json, Rng};

pub fn foreign_udwf(native: &Arc<WindowUDF>) -> WindowUDF {
    let mut ffi: FFI_WindowUDF = native.clone().into();
    force_udwf(&mut ffi);
    let imp: Arc<dyn WindowUDFImpl> = (&ffi).into();
    WindowUDF::new_from_shared_impl(imp)
}

fn candidates() -> Vec<Vec<DataType>> {
    use DataType::*;
    vec![vec![], vec![Int64], vec![Utf8], vec![Float64], vec![Int64, Int64], vec![Utf8, Int64], vec![Int64, Int64, Int64], vec![Utf8, Int64, Utf8], vec![Float64, Int64, Float64], vec![UInt64]]
}

fn arr_repr(a: &ArrayRef) -> String {
    let rows: Vec<String> = (0..a.len().min(24)).map(|i| render(a, i)).collect();
    format!("{}[{}]", a.data_type(), rows.join(", "))
}

struct Setup {
    fields: Vec<FieldRef>,
    exprs: Vec<Arc<dyn PhysicalExpr>>,
    values: Vec<ArrayRef>,
    rows: usize,
    reversed: bool,
    ignore_nulls: bool,
}

fn trace<'a>(udwf: &WindowUDF, s: &Setup, cx: &'a Cx<'a>, foreign: bool) -> Trace<'a> {
    let mut t = Trace::new(cx, if foreign { "ForeignWindowUDF" } else { "" });
    t.note("name+aliases", format!("{} {:?}", udwf.name(), udwf.aliases()));
    t.note("volatility", format!("{:?}", udwf.signature().volatility));
    t.note("sort_options", format!("{:?}", udwf.sort_options()));
    t.step("field", || udwf.field(WindowUDFFieldArgs::new(&s.fields, "w")).map(|f| (field_json(&f).to_string(), ())));
    t.step("coerce_types", || {
        let raw: Vec<FieldRef> = s.fields.iter().map(|f| if f.data_type() == &DataType::Int64 { Arc::new(Field::new(f.name(), DataType::Int32, true)) } else { f.clone() }).collect();
        fields_with_udf(&raw, udwf).map(|fs| (fs.iter().map(|f| f.data_type().to_string()).collect::<Vec<_>>().join(", "), ()))
    });
    let ev = t.step("partition_evaluator", || udwf.partition_evaluator_factory(PartitionEvaluatorArgs::new(&s.exprs, &s.fields, s.reversed, s.ignore_nulls)).map(|e| ("created".to_string(), e)));
    let Some(mut ev) = ev else { return t };
    t.note("evaluator.flags", format!("bounded={} frame={} rank={} causal={}", ev.supports_bounded_execution(), ev.uses_window_frame(), ev.include_rank(), ev.is_causal()));
    let n = s.rows;
    t.step("evaluator.evaluate_all", || ev.evaluate_all(&s.values, n).map(|a| (arr_repr(&a), ())));
    let ranks = vec![0..2.min(n), 2.min(n)..3.min(n), 3.min(n)..n];
    let ranks: Vec<std::ops::Range<usize>> = ranks.into_iter().filter(|r| r.start < r.end).collect();
    t.step("evaluator.evaluate_all_with_rank", || ev.evaluate_all_with_rank(n, &ranks).map(|a| (arr_repr(&a), ())));
    for idx in [0usize, 1, n / 2, n.saturating_sub(1)] {
        if idx >= n {
            continue;
        }
        t.step(&format!("evaluator.get_range({idx})"), || ev.get_range(idx, n).map(|r| (format!("{r:?}"), ())));
    }
    // a fresh evaluator for the row-at-a-time protocol (frames: cumulative and sliding)
    let ev2 = t.step("partition_evaluator#2", || udwf.partition_evaluator_factory(PartitionEvaluatorArgs::new(&s.exprs, &s.fields, s.reversed, s.ignore_nulls)).map(|e| ("created".to_string(), e)));
    if let Some(mut ev2) = ev2 {
        for idx in 0..n {
            let r = if idx % 2 == 0 { 0..idx + 1 } else { idx.saturating_sub(2)..(idx + 2).min(n) };
            t.step(&format!("evaluator#2.evaluate(row {idx}, {r:?})"), || ev2.evaluate(&s.values, &r).map(|v| (format!("{}:{}", v.data_type(), render_sv(&v)), ())));
        }
    }
    t
}

pub fn run_function(cx: &Cx, label: &str, native: &Arc<WindowUDF>, seed: u64) {
    let foreign = foreign_udwf(native);
    let mut done = 0;
    for (li, c) in candidates().into_iter().enumerate() {
        let raw: Vec<FieldRef> = c.iter().enumerate().map(|(j, t)| Arc::new(Field::new(format!("c{j}"), t.clone(), true)) as FieldRef).collect();
        let Ok(Ok(co)) = vcommon::par::guard(|| fields_with_udf(&raw, native.as_ref())) else { continue };
        let types: Vec<DataType> = co.iter().map(|f| f.data_type().clone()).collect();
        if types.len() != c.len() {
            continue;
        }
        let fields: Vec<FieldRef> = types.iter().enumerate().map(|(j, t)| Arc::new(Field::new(format!("c{j}"), t.clone(), true)) as FieldRef).collect();
        let Some(pools) = ArgPools::new(&types, PoolOpts { int_cap: Some(5), small_time: true }) else { continue };
        let mut rng = Rng::derive(seed, &[45, 3, fp_str(label), li as u64]);
        let n = 9usize;
        let rows: Vec<Vec<ScalarValue>> = (0..n).map(|_| pools.row(&mut rng)).collect();
        // trailing arguments (offset, default, n) are literals as in SQL
        let lit_of = |j: usize| -> ScalarValue {
            match &types[j] {
                DataType::Int64 => ScalarValue::Int64(Some(2)),
                DataType::UInt64 => ScalarValue::UInt64(Some(2)),
                DataType::Utf8 => ScalarValue::Utf8(Some("dflt".into())),
                DataType::Float64 => ScalarValue::Float64(Some(0.5)),
                other => ScalarValue::try_new_null(other).unwrap_or(ScalarValue::Null),
            }
        };
        let single_literal = types.len() == 1 && matches!(types[0], DataType::UInt64 | DataType::Int64);
        for variant in 0..3u64 {
            let is_lit = |j: usize| -> bool { (j > 0) || (single_literal && variant == 1) };
            let exprs: Vec<Arc<dyn PhysicalExpr>> = (0..types.len()).map(|j| if is_lit(j) { Arc::new(Literal::new(lit_of(j))) as Arc<dyn PhysicalExpr> } else { Arc::new(Column::new(&format!("c{j}"), j)) as Arc<dyn PhysicalExpr> }).collect();
            let values: Option<Vec<ArrayRef>> = (0..types.len()).map(|j| column(&(0..n).map(|i| if is_lit(j) { lit_of(j) } else { rows[i][j].clone() }).collect::<Vec<_>>(), &types[j]).ok()).collect();
            let Some(values) = values else { continue };
            let setup = Setup { fields: fields.clone(), exprs, values, rows: n, reversed: variant == 2, ignore_nulls: variant == 1 };
            let nt = trace(native.as_ref(), &setup, cx, false);
            if !nt.created("partition_evaluator") {
                continue;
            }
            if nt.panicked() {
                cx.rep.count("window.native-panics (foreign trace skipped)", 1);
                if !cx.rep.has_seen("window-functions-panicking-natively", label) {
                    cx.rep.extra(&format!("native_panic_trace:{label}"), json!({"arg_types": types.iter().map(|t| t.to_string()).collect::<Vec<_>>(), "trace": nt.to_json()}));
                }
                cx.rep.seen("window-functions-panicking-natively", label);
                continue;
            }
            let mut ft = trace(&foreign, &setup, cx, true);
            if cx.selftest {
                ft.corrupt("evaluator.evaluate_all");
                ft.corrupt("evaluator.evaluate_all_with_rank");
            }
            let fp = fp_mix(fp_str(label), fp_str(&format!("{types:?}{variant}{}", nt.digest())));
            let nontrivial = nt.has_value("evaluator.evaluate_all") || nt.has_value("evaluator.evaluate_all_with_rank") || nt.has_value("evaluator#2.evaluate(row 2, 0..3)");
            cx.rep.case(fp, nontrivial);
            cx.rep.count("window.traces-compared", 1);
            if nontrivial {
                cx.rep.seen("window-functions-compared", label);
            }
            if let Some(d) = nt.diff(&ft) {
                cx.violation(
                    &format!("window-udf/{}/{}", d.0, label),
                    json!({"component": "window function", "function": label, "arg_types": types.iter().map(|t| t.to_string()).collect::<Vec<_>>(), "reversed": setup.reversed, "ignore_nulls": setup.ignore_nulls,
                        "partition_rows": rows.iter().map(|r| r.iter().map(render_sv).collect::<Vec<_>>()).collect::<Vec<_>>(), "step": d.1, "native": d.2, "foreign": d.3, "native_trace": nt.to_json(), "foreign_trace": ft.to_json()}),
                );
            }
            done += 1;
        }
        if done >= 6 {
            break;
        }
    }
    if done == 0 {
        cx.rep.skip("window: no partition evaluator could be created natively for the probed argument lists");
    }
}
