//! Scalar UDFs through `FFI_ScalarUDF` -> `ForeignScalarUDF`.

use crate::force::harness_marker;
use crate::{field_json, fields_equal, Cx};
use arrow::datatypes::{DataType, Field, FieldRef};
use datafusion_common::ScalarValue;
use datafusion_expr::type_coercion::functions::fields_with_udf;
use datafusion_expr::{ColumnarValue, ReturnFieldArgs, ScalarFunctionArgs, ScalarUDF, ScalarUDFImpl};
use datafusion_ffi::udf::FFI_ScalarUDF;
use dfv::fnrep::enc::{materialize, ArgRep, Shape};
use dfv::fnrep::inv::{cell_eq, corrupt, finish, render, render_sv, Out};
use dfv::fnrep::types::{type_groups_limited, TypeGroup};
use dfv::fnrep::vals::{ArgPools, PoolOpts};
use dfv::fnrep::FnEntry;
use std::sync::Arc;
use vcommon::{fp_mix, fp_str, json, Json, Rng};

pub fn foreign_udf(native: &Arc<ScalarUDF>) -> ScalarUDF {
    let mut ffi: FFI_ScalarUDF = native.clone().into();
    ffi.library_marker_id = harness_marker;
    let imp: Arc<dyn ScalarUDFImpl> = ffi.into();
    ScalarUDF::new_from_shared_impl(imp)
}

struct Call {
    args: Vec<ColumnarValue>,
    fields: Vec<FieldRef>,
    rows: usize,
}

fn build(cols: &[Vec<ScalarValue>], types: &[DataType], scalar: &[bool]) -> Result<Call, String> {
    let rows = cols.first().map(|c| c.len()).unwrap_or(3);
    let mut args = vec![];
    for j in 0..cols.len() {
        let rep = ArgRep { ty: types[j].clone(), scalar: scalar[j], shape: Shape::Plain };
        args.push(materialize(&cols[j], &types[j], &rep, &[])?);
    }
    let fields = types.iter().enumerate().map(|(j, t)| Arc::new(Field::new(format!("c{j}"), t.clone(), true)) as FieldRef).collect();
    Ok(Call { args, fields, rows })
}

fn return_field(udf: &ScalarUDF, c: &Call) -> Result<FieldRef, String> {
    let scalars: Vec<Option<&ScalarValue>> = c.args.iter().map(|a| if let ColumnarValue::Scalar(s) = a { Some(s) } else { None }).collect();
    match vcommon::par::guard(|| udf.return_field_from_args(ReturnFieldArgs { arg_fields: &c.fields, scalar_arguments: &scalars })) {
        Ok(Ok(f)) => Ok(f),
        Ok(Err(e)) => Err(e.to_string().chars().take(300).collect()),
        Err(p) => Err(format!("panic: {p}")),
    }
}

fn invoke(udf: &ScalarUDF, c: &Call, rf: &FieldRef, cx: &Cx) -> Out {
    let all_scalar = !c.args.is_empty() && c.args.iter().all(|a| matches!(a, ColumnarValue::Scalar(_)));
    let fa = ScalarFunctionArgs { args: c.args.clone(), arg_fields: c.fields.clone(), number_rows: c.rows, return_field: rf.clone(), config_options: cx.cfg.clone() };
    // the public entry point on both sides (it is what the FFI wrapper calls on the provider side)
    let r = vcommon::par::guard(|| udf.invoke_with_args(fa));
    finish(r, rf.clone(), c.rows, all_scalar)
}

fn expand(c: &Call) -> Call {
    Call {
        args: c.args.iter().map(|a| ColumnarValue::Array(a.to_array(c.rows).expect("expand scalar"))).collect(),
        fields: c.fields.clone(),
        rows: c.rows,
    }
}

fn witness(e: &FnEntry, types: &[DataType], cols: &[Vec<ScalarValue>], scalar: &[bool], what: &str, native: Json, foreign: Json) -> Json {
    let n = cols.first().map(|c| c.len()).unwrap_or(0);
    json!({
        "component": "scalar function",
        "function": e.label,
        "arg_types": types.iter().map(|t| t.to_string()).collect::<Vec<_>>(),
        "args_passed_as_scalar": scalar,
        "rows": (0..n).map(|i| cols.iter().map(|c| render_sv(&c[i])).collect::<Vec<_>>()).collect::<Vec<_>>(),
        "what": what,
        "native": native,
        "foreign": foreign,
    })
}

/// Compare one call through the native and the foreign object.
fn compare_call(cx: &Cx, e: &FnEntry, foreign: &ScalarUDF, types: &[DataType], cols: &[Vec<ScalarValue>], scalar: &[bool], selftest: bool) -> bool {
    let native = e.udf.as_ref();
    let Ok(call) = build(cols, types, scalar) else { return false };
    cx.rep.count("scalar.calls", 1);
    let any_scalar = scalar.iter().any(|s| *s);
    // --- return field
    let nf = return_field(native, &call);
    let ff = return_field(foreign, &call);
    cx.method("ForeignScalarUDF::return_field_from_args");
    let (nf, ff) = match (nf, ff) {
        (Ok(a), Ok(b)) => {
            if !fields_equal(&a, &b) {
                cx.violation(&format!("scalar-udf/return-field/{}", e.label), witness(e, types, cols, scalar, "return_field_from_args differs (type, nullability or metadata)", field_json(&a), field_json(&b)));
            }
            (a, b)
        }
        (Err(_), Err(_)) => {
            cx.rep.count("scalar.return-field-both-fail", 1);
            return false;
        }
        (Ok(a), Err(m)) => {
            cx.violation(&format!("scalar-udf/error-parity/{}", e.label), witness(e, types, cols, scalar, "return_field_from_args fails through the foreign path only", field_json(&a), json!(m)));
            return false;
        }
        (Err(m), Ok(b)) => {
            cx.violation(&format!("scalar-udf/error-parity/{}", e.label), witness(e, types, cols, scalar, "return_field_from_args succeeds through the foreign path only", json!(m), field_json(&b)));
            return false;
        }
    };
    // --- invocation
    let n_out = invoke(native, &call, &nf, cx);
    if let Out::Panic(_) = &n_out {
        // a panic cannot unwind through the `extern "C"` wrappers: the same call through the foreign
        // path would abort the process, which says nothing about the FFI layer
        cx.rep.count("scalar.native-panics (foreign call skipped)", 1);
        cx.rep.seen("scalar-functions-panicking-natively", &e.label);
        return false;
    }
    // what the provider side will execute: ForeignScalarUDF::invoke_with_args expands every constant
    // argument to an array (same fields, same return field)
    let pre: Option<Out> = if any_scalar { Some(invoke(native, &expand(&call), &nf, cx)) } else { None };
    if let Some(Out::Panic(m)) = &pre {
        cx.rep.count("scalar.expanded-call-panics-natively (foreign call skipped)", 1);
        cx.rep.seen("scalar-functions-panicking-natively", &e.label);
        if n_out.is_ok() {
            cx.violation("scalar-udf/constant-argument-passed-as-array", witness(e, types, cols, scalar, "the native call with constant arguments succeeds; the foreign path passes the constants as arrays, for which the function panics (through the extern \"C\" wrapper this aborts the process, so the foreign call was not made)", json!("ok"), json!(format!("panic: {m}"))));
        }
        return false;
    }
    let mut f_out = invoke(foreign, &call, &ff, cx);
    cx.method("ForeignScalarUDF::invoke_with_args");
    if selftest {
        if let Out::Ok(o) = &mut f_out {
            if let Some(c) = corrupt(&o.raw) {
                o.raw = c;
            }
        }
    }
    let n = call.rows;
    match (&n_out, &f_out) {
        (Out::Ok(a), Out::Ok(b)) => {
            cx.rep.count("scalar.both-succeed", 1);
            let mut diffs = vec![];
            if a.raw.data_type() != b.raw.data_type() {
                diffs.push(json!({"result_type_native": a.raw.data_type().to_string(), "result_type_foreign": b.raw.data_type().to_string()}));
            } else if a.raw.len() == n && b.raw.len() == n {
                for i in 0..n {
                    if !cell_eq(&a.raw, i, &b.raw, i) {
                        diffs.push(json!({"row": i, "native": render(&a.raw, i), "foreign": render(&b.raw, i)}));
                    }
                }
            } else {
                diffs.push(json!({"rows_native": a.raw.len(), "rows_foreign": b.raw.len(), "number_rows": n}));
            }
            if !diffs.is_empty() {
                diffs.truncate(5);
                let mut sig = format!("scalar-udf/result/{}", e.label);
                if let Some(Out::Ok(x)) = pre.as_ref() {
                    if x.raw.data_type() == b.raw.data_type() && x.raw.len() == n && b.raw.len() == n && (0..n).all(|i| cell_eq(&x.raw, i, &b.raw, i)) {
                        sig = "scalar-udf/constant-argument-passed-as-array".to_string();
                    }
                }
                cx.violation(&sig, witness(e, types, cols, scalar, "results differ", json!(diffs), json!("see native")));
            }
            return (0..n.min(a.raw.len())).any(|i| a.raw.is_valid(i));
        }
        (Out::Ok(_), other) if other.failed() => {
            let mut sig = format!("scalar-udf/error-parity/{}", e.label);
            if let Some(x) = pre.as_ref() {
                if x.failed() {
                    sig = "scalar-udf/constant-argument-passed-as-array".to_string();
                }
            }
            cx.violation(&sig, witness(e, types, cols, scalar, "the native function succeeds, the foreign path fails", json!("ok"), json!(other.message())));
        }
        (other, Out::Ok(_)) if other.failed() => {
            let mut sig = format!("scalar-udf/error-parity/{}", e.label);
            if let Some(Out::Ok(_)) = pre.as_ref() {
                sig = "scalar-udf/constant-argument-passed-as-array".to_string();
            }
            cx.violation(&sig, witness(e, types, cols, scalar, "the native function fails, the foreign path succeeds", json!(other.message()), json!("ok")));
        }
        _ => {
            cx.rep.count("scalar.both-fail", 1);
        }
    }
    false
}

/// Attributes transported by the struct itself.
fn compare_static(cx: &Cx, e: &FnEntry, foreign: &ScalarUDF, group: &TypeGroup) {
    let native = e.udf.as_ref();
    let mut diffs = vec![];
    if native.name() != foreign.name() {
        diffs.push(json!({"name": [native.name(), foreign.name()]}));
    }
    if native.aliases() != foreign.aliases() {
        diffs.push(json!({"aliases": [native.aliases(), foreign.aliases()]}));
    }
    if native.signature().volatility != foreign.signature().volatility {
        diffs.push(json!({"volatility": [format!("{:?}", native.signature().volatility), format!("{:?}", foreign.signature().volatility)]}));
    }
    if native.short_circuits() != foreign.short_circuits() {
        diffs.push(json!({"short_circuits": [native.short_circuits(), foreign.short_circuits()]}));
    }
    cx.method("ForeignScalarUDF::{name,aliases,signature.volatility,short_circuits}");
    // coercion: the canonical list, a list needing casts, and a list that must be rejected
    let mut lists: Vec<Vec<DataType>> = vec![group.canonical.clone()];
    lists.push(group.canonical.iter().map(|t| if t.is_floating() { DataType::Int32 } else if t == &DataType::Utf8 { DataType::Utf8View } else if t == &DataType::Int64 { DataType::Int16 } else { t.clone() }).collect());
    let mut wrong = group.canonical.clone();
    wrong.push(DataType::Interval(arrow::datatypes::IntervalUnit::YearMonth));
    wrong.push(DataType::Boolean);
    lists.push(wrong);
    for l in lists {
        let fields: Vec<FieldRef> = l.iter().enumerate().map(|(j, t)| Arc::new(Field::new(format!("c{j}"), t.clone(), true)) as FieldRef).collect();
        let a = vcommon::par::guard(|| fields_with_udf(&fields, native)).map_err(|p| p.to_string()).and_then(|r| r.map_err(|e| e.to_string()));
        let b = vcommon::par::guard(|| fields_with_udf(&fields, foreign)).map_err(|p| p.to_string()).and_then(|r| r.map_err(|e| e.to_string()));
        cx.method("ForeignScalarUDF::coerce_types");
        let ta = a.as_ref().map(|f| f.iter().map(|x| x.data_type().to_string()).collect::<Vec<_>>()).map_err(|e| e.chars().take(200).collect::<String>());
        let tb = b.as_ref().map(|f| f.iter().map(|x| x.data_type().to_string()).collect::<Vec<_>>()).map_err(|e| e.chars().take(200).collect::<String>());
        match (&ta, &tb) {
            (Ok(x), Ok(y)) if x == y => {}
            (Err(_), Err(_)) => {}
            _ => diffs.push(json!({"coerce_types_of": l.iter().map(|t| t.to_string()).collect::<Vec<_>>(), "native": format!("{ta:?}"), "foreign": format!("{tb:?}")})),
        }
    }
    if !diffs.is_empty() {
        cx.violation(&format!("scalar-udf/attributes/{}", e.label), json!({"component": "scalar function", "function": e.label, "what": "transported attributes differ", "differences": diffs}));
    }
}

pub fn run_function(cx: &Cx, e: &FnEntry, opts: PoolOpts, max_groups: usize, seed: u64) {
    let groups = match vcommon::par::guard(|| type_groups_limited(e.udf.as_ref(), max_groups, if cx.args.stage == "memcheck" { 120 } else { 1500 })) {
        Ok(g) => g,
        Err(_) => vec![],
    };
    if groups.is_empty() {
        cx.rep.skip("scalar: no accepted argument type list");
        return;
    }
    let foreign = foreign_udf(&e.udf);
    let mut compared_nonnull = false;
    for (gi, g) in groups.iter().enumerate() {
        let types = &g.canonical;
        let arity = types.len();
        if gi == 0 {
            compare_static(cx, e, &foreign, g);
        }
        let Some(pools) = ArgPools::new(types, opts) else { continue };
        let mut rng = Rng::derive(seed, &[45, fp_str(&e.label), gi as u64]);
        let n_rows = if arity == 0 { 1 } else if cx.args.stage == "memcheck" { 4 } else { cx.args.bound("scalar_rows", 12, 64) as usize };
        let rows: Vec<Vec<ScalarValue>> = (0..n_rows).map(|_| pools.row(&mut rng)).collect();
        let col_of = |idx: &[usize]| -> Vec<Vec<ScalarValue>> { (0..arity).map(|j| idx.iter().map(|i| rows[*i][j].clone()).collect()).collect() };
        let selftest = cx.selftest;
        // value set 1: each row alone, the last argument passed as a constant (as a literal would be)
        let mut good: Vec<usize> = vec![];
        for i in 0..n_rows {
            let mut sc = vec![false; arity];
            if arity > 0 && i % 2 == 1 {
                sc[arity - 1] = true;
            }
            if arity > 1 && i % 4 == 3 {
                sc[0] = true;
            }
            let cols = col_of(&[i]);
            let fp = fp_mix(fp_str(&e.label), fp_str(&format!("{types:?}{:?}{sc:?}", rows[i].iter().map(render_sv).collect::<Vec<_>>())));
            let nn = compare_call(cx, e, &foreign, types, &cols, &sc, selftest && i == 0);
            cx.rep.case(fp, nn);
            compared_nonnull |= nn;
            if nn {
                good.push(i);
            }
        }
        // value set 2: the rows that succeed, as one batch of arrays; and the whole batch (error parity)
        if good.len() >= 2 && arity > 0 {
            let cols = col_of(&good);
            let fp = fp_mix(fp_str(&e.label), fp_str(&format!("batch{types:?}{good:?}{gi}")));
            let nn = compare_call(cx, e, &foreign, types, &cols, &vec![false; arity], false);
            cx.rep.case(fp, nn);
        }
        if arity > 0 && good.len() < n_rows {
            let all: Vec<usize> = (0..n_rows).collect();
            let cols = col_of(&all);
            compare_call(cx, e, &foreign, types, &cols, &vec![false; arity], false);
        }
    }
    if compared_nonnull {
        cx.rep.seen(&format!("scalar-functions-compared:{}", e.registry), &e.label);
    } else {
        cx.rep.seen("scalar-functions-without-nonnull-comparison", &e.label);
    }
}
