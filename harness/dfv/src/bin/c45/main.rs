//! C45 — components passed through the FFI behave as native.
//!
//! Code under test: `datafusion-ffi` (`FFI_ScalarUDF`, `FFI_AggregateUDF` + accumulators,
//! `FFI_WindowUDF` + partition evaluator, `FFI_TableProvider`, `FFI_ExecutionPlan`,
//! `FFI_PlanProperties`, `FFI_RecordBatchStream`, `FFI_CatalogProvider`/`FFI_SchemaProvider`,
//! `FFI_TableFunction`) and their `Foreign*` adapters. The adapters are forced onto the real FFI
//! path inside one process (see `force.rs`).
//!
//! Oracle: the native object on identical inputs — results, return fields (type, nullability,
//! metadata), transported attributes, and error-vs-success.

mod agg;
mod force;
mod scalar;
mod table;
mod window;

use arrow::datatypes::Field;
use datafusion::prelude::SessionContext;
use datafusion_common::config::ConfigOptions;
use dfv::cases::Case;
use dfv::fnrep::vals::PoolOpts;
use dfv::fnrep::{is_stringish, registry};
use dfv::qgen::GenCfg;
use std::collections::BTreeMap;
use std::sync::atomic::Ordering;
use std::sync::Arc;
use vcommon::{json, Args, Json, Report, Rng};

/// Attributes with no field in the FFI structs: never compared.
const NOT_TRANSPORTED: &[&str] = &[
    "ScalarUDF: the TypeSignature (a ForeignScalarUDF is always Signature::user_defined; only the volatility and coerce_types are transported), documentation, simplify, evaluate_bounds / propagate_constraints, output_ordering (only preserves_lex_ordering), conditional_arguments, struct_field_mapping, preimage",
    "ScalarUDF: constant (ColumnarValue::Scalar) arguments are expanded to arrays by ForeignScalarUDF::invoke_with_args; differences caused by exactly this are classified under one signature, not hidden",
    "ScalarUDF: whether the result is a ColumnarValue::Scalar or ::Array",
    "AggregateUDF: the TypeSignature, default_value, simplify, reverse_expr / reverse_udf, is_descending, value_from_stats, set_monotonicity, supports_within_group_clause, documentation, display names; Accumulator::size / GroupsAccumulator::size are called but not compared",
    "WindowUDF: the TypeSignature, expressions(), reverse_expr, simplify, limit_effect (always Unknown), documentation; PartitionEvaluator::memoize",
    "ExecutionPlan: equivalence classes, constants and all orderings but the first (only schema, output partitioning, one output ordering, emission type and boundedness are fields of FFI_PlanProperties), evaluation/scheduling type, required input distribution / ordering, maintains_input_order, DisplayAs text, metrics values; error *messages* (only error vs success)",
    "TableProvider: constraints, column defaults, get_table_definition / get_logical_plan; the plan returned by scan is native again unless re-wrapped (local-library shortcut)",
    "PhysicalExpr arguments of accumulators / partition evaluators: FFI_PhysicalExpr objects are created by private conversion code with the local marker and cannot be forced onto the foreign path from outside the crate",
];

pub struct Cx<'a> {
    pub rep: &'a Report,
    pub args: &'a Args,
    pub cfg: Arc<ConfigOptions>,
    pub selftest: bool,
}

impl Cx<'_> {
    /// report + count per signature (the report keeps only a bounded number of witnesses)
    pub fn violation(&self, sig: &str, witness: Json) {
        let key = format!("violations-by-signature.{sig}");
        if self.rep.get_count(&key) == 0 && self.rep.seen_count("signatures-with-a-witness-in-evidence") < 60 {
            // the report keeps a bounded number of witnesses overall: make sure every signature has one
            self.rep.seen("signatures-with-a-witness-in-evidence", sig);
            self.rep.extra(&format!("first_witness:{sig}"), witness.clone());
        }
        self.rep.count(&key, 1);
        self.rep.violation(sig, witness);
    }
    /// record that a trait method of a foreign adapter was exercised
    pub fn method(&self, m: &str) {
        self.rep.count(&format!("wrapper-methods.{m}"), 1);
    }
}

pub fn field_json(f: &Field) -> Json {
    json!({"name": f.name(), "type": f.data_type().to_string(), "nullable": f.is_nullable(), "metadata": f.metadata().iter().collect::<BTreeMap<_, _>>()})
}

pub fn fields_equal(a: &Field, b: &Field) -> bool {
    a.name() == b.name() && a.data_type() == b.data_type() && a.is_nullable() == b.is_nullable() && a.metadata() == b.metadata()
}

/// A step-by-step record of everything observable on one object; two traces are diffed.
pub struct Trace<'a> {
    cx: &'a Cx<'a>,
    prefix: &'static str,
    steps: Vec<(String, Result<String, String>)>,
}

impl<'a> Trace<'a> {
    pub fn new(cx: &'a Cx<'a>, prefix: &'static str) -> Self {
        Trace { cx, prefix, steps: vec![] }
    }
    pub fn touch(&mut self, name: &str) {
        if !self.prefix.is_empty() {
            let base = name.split(['(', '#']).next().unwrap_or(name);
            self.cx.method(&format!("{}::{}", self.prefix, base));
        }
    }
    pub fn step<T>(&mut self, name: &str, f: impl FnOnce() -> datafusion_common::Result<(String, T)>) -> Option<T> {
        self.touch(name);
        match vcommon::par::guard(f) {
            Ok(Ok((repr, v))) => {
                self.steps.push((name.to_string(), Ok(repr)));
                Some(v)
            }
            Ok(Err(e)) => {
                self.steps.push((name.to_string(), Err(e.to_string().chars().take(240).collect())));
                None
            }
            Err(p) => {
                self.steps.push((name.to_string(), Err(format!("panic: {}", p.chars().take(240).collect::<String>()))));
                None
            }
        }
    }
    pub fn note(&mut self, name: &str, v: String) {
        self.touch(name);
        self.steps.push((name.to_string(), Ok(v)));
    }
    /// some step panicked (a panic must not be replayed through `extern "C"` wrappers: it would abort)
    pub fn panicked(&self) -> bool {
        self.steps.iter().any(|(_, r)| matches!(r, Err(e) if e.starts_with("panic:")))
    }
    pub fn created(&self, name: &str) -> bool {
        self.steps.iter().any(|(n, r)| n == name && r.is_ok())
    }
    pub fn has_value(&self, name: &str) -> bool {
        self.steps.iter().any(|(n, r)| n == name && matches!(r, Ok(v) if !v.ends_with(":NULL") && !v.is_empty()))
    }
    pub fn corrupt(&mut self, name: &str) {
        for (n, r) in self.steps.iter_mut() {
            if n == name {
                if let Ok(v) = r {
                    v.push_str(" (corrupted by selftest)");
                }
            }
        }
    }
    pub fn digest(&self) -> String {
        self.steps.iter().map(|(n, r)| format!("{n}={}", r.as_ref().map(|s| s.as_str()).unwrap_or("ERR"))).collect::<Vec<_>>().join(";")
    }
    pub fn to_json(&self) -> Json {
        json!(self.steps.iter().map(|(n, r)| json!([n, match r { Ok(v) => v.clone(), Err(e) => format!("ERROR {e}") }])).collect::<Vec<_>>())
    }
    /// first difference: (kind, step, native, foreign)
    pub fn diff(&self, other: &Trace) -> Option<(&'static str, String, String, String)> {
        for (i, (n, r)) in self.steps.iter().enumerate() {
            let Some((n2, r2)) = other.steps.get(i) else {
                return Some(("trace-diverges", n.clone(), "step present".into(), "step missing".into()));
            };
            if n != n2 {
                return Some(("trace-diverges", n.clone(), n.clone(), n2.clone()));
            }
            match (r, r2) {
                (Ok(a), Ok(b)) if a != b => {
                    let kind = if n.contains("field") { "field" } else if n.contains("evaluate") || n.contains("state") { "result" } else { "attribute" };
                    return Some((kind, n.clone(), a.clone(), b.clone()));
                }
                (Ok(a), Err(e)) => return Some(("error-parity", n.clone(), a.clone(), format!("ERROR {e}"))),
                (Err(e), Ok(b)) => return Some(("error-parity", n.clone(), format!("ERROR {e}"), b.clone())),
                _ => {}
            }
        }
        if other.steps.len() > self.steps.len() {
            let (n, _) = &other.steps[self.steps.len()];
            return Some(("trace-diverges", n.clone(), "step missing".into(), "step present".into()));
        }
        None
    }
}

const ALLOC_BY_INT: &[&str] = &["repeat", "lpad", "rpad", "space", "array_repeat", "array_resize", "range", "generate_series", "sequence", "format_string", "printf", "array_pad", "randstr"];

fn run(args: &Args) -> i32 {
    let rep = Report::new("C45", "exploration", args);
    rep.set_rule("case = one component (scalar / aggregate / window function with generated arguments; generated SQL over generated tables; a physical plan; an injected stream failure; a catalog; a table function) observed through the native object and through its FFI wrapper forced onto the foreign path; distinct = hash(component, inputs); non-trivial = the native side produced a non-NULL value / a non-empty result");
    rep.assume("overwriting the pub `library_marker_id` field (and hooking the pub constructor function pointers for nested objects) makes the Foreign* adapters execute exactly the code a second library would execute; both sides still share one allocator and one Rust runtime");
    rep.assume("error messages are not compared, only error versus success");
    let memcheck = args.stage == "memcheck";
    let cx = Cx { rep: &rep, args, cfg: Arc::new(ConfigOptions::default()), selftest: args.opt_u64("selftest", 0) == 1 };
    rep.extra("not_transported_excluded", json!(NOT_TRANSPORTED));
    let only = args.opt_str("only").map(|s| s.to_string());
    let part = args.opt_str("part").map(|s| s.to_string());
    let want = |p: &str| part.as_deref().map(|x| x == p).unwrap_or(true);

    // ---------------------------------------------------------------- scalar functions
    let reg = registry();
    rep.extra("scalar_skipped_by_name", json!(reg.skipped));
    if want("scalar") {
        let fns: Vec<_> = reg.fns.iter().filter(|e| only.as_deref().map(|o| o == e.label).unwrap_or(true)).filter(|e| !memcheck || is_stringish(e)).cloned().collect();
        let fns: Vec<_> = if memcheck { fns.into_iter().step_by(8).collect() } else { fns };
        rep.count("scalar.functions-in-scope", fns.len() as u64);
        let max_groups = if memcheck { 1 } else { args.bound("scalar_groups", 4, 12) as usize };
        vcommon::par::run(args.workers, fns.iter(), |e| {
            let n = e.udf.name();
            let opts = if ALLOC_BY_INT.iter().any(|k| n == *k || n.ends_with(k)) { PoolOpts { int_cap: Some(2000), small_time: true } } else { PoolOpts::default() };
            if let Err(p) = vcommon::par::guard(|| scalar::run_function(&cx, e, opts, max_groups, args.seed)) {
                rep.inconclusive(&format!("harness panicked in scalar function {}: {p}", e.label));
            }
        });
    }

    // ---------------------------------------------------------------- aggregate functions
    let ctx = SessionContext::new();
    if want("aggregate") {
        let mut aggs: BTreeMap<String, Arc<datafusion_expr::AggregateUDF>> = BTreeMap::new();
        for (_, f) in ctx.state().aggregate_functions().iter() {
            aggs.entry(f.name().to_string()).or_insert(f.clone());
        }
        for f in datafusion_spark::all_default_aggregate_functions() {
            aggs.entry(format!("spark:{}", f.name())).or_insert(f);
        }
        let aggs: Vec<_> = aggs.into_iter().filter(|(l, _)| only.as_deref().map(|o| o == l).unwrap_or(true)).collect();
        let aggs: Vec<_> = if memcheck { aggs.into_iter().step_by(3).collect() } else { aggs };
        rep.count("aggregate.functions-in-scope", aggs.len() as u64);
        let lists = if memcheck { 1 } else { args.bound("aggregate_lists", 3, 8) as usize };
        vcommon::par::run(args.workers, aggs.iter(), |(label, f)| {
            if let Err(p) = vcommon::par::guard(|| agg::run_function(&cx, label, f, args.seed, lists)) {
                rep.inconclusive(&format!("harness panicked in aggregate function {label}: {p}"));
            }
        });
    }

    // ---------------------------------------------------------------- window functions
    if want("window") {
        let mut wins: BTreeMap<String, Arc<datafusion_expr::WindowUDF>> = BTreeMap::new();
        for (_, f) in ctx.state().window_functions().iter() {
            wins.entry(f.name().to_string()).or_insert(f.clone());
        }
        for f in datafusion_spark::all_default_window_functions() {
            wins.entry(format!("spark:{}", f.name())).or_insert(f);
        }
        let wins: Vec<_> = wins.into_iter().filter(|(l, _)| only.as_deref().map(|o| o == l).unwrap_or(true)).collect();
        rep.count("window.functions-in-scope", wins.len() as u64);
        vcommon::par::run(args.workers, wins.iter(), |(label, f)| {
            if let Err(p) = vcommon::par::guard(|| window::run_function(&cx, label, f, args.seed)) {
                rep.inconclusive(&format!("harness panicked in window function {label}: {p}"));
            }
        });
    }

    // ---------------------------------------------------------------- tables, plans, streams
    if want("table") && only.is_none() {
        let n_q = if memcheck { 12 } else { args.bound("queries", 240, 8000) };
        let n_p = if memcheck { 8 } else { args.bound("plans", 120, 4000) };
        let gcfg = GenCfg::default();
        vcommon::par::run(args.workers, 0..n_q, |i| {
            let systematic = i < n_q / 2;
            let mut rng = Rng::derive(if systematic { 0xC45 } else { args.seed }, &[45, 10, i]);
            let mut c = gcfg.clone();
            c.max_depth = 1 + (i % 3) as usize;
            let case = Case::generate(&mut rng, &c);
            table::query_case(&cx, &case, i);
        });
        vcommon::par::run(args.workers, 0..n_p, |i| {
            let mut rng = Rng::derive(if i < n_p / 2 { 0xC45 } else { args.seed }, &[45, 11, i]);
            let mut c = gcfg.clone();
            c.max_depth = 1 + (i % 2) as usize;
            let case = Case::generate(&mut rng, &c);
            table::plan_case(&cx, &case, i);
            if i % 8 == 0 {
                table::catalog_case(&cx, &case);
            }
        });
        for total in [0usize, 1, 3] {
            for k in 0..=total + 1 {
                for via_plan in [false, true] {
                    table::error_injection(&cx, k, total, false, via_plan);
                }
            }
        }
        table::error_injection(&cx, 0, 2, true, true);
        for s in 0..(if memcheck { 2 } else { 12 }) {
            table::chaos_stream(&cx, if s < 6 { s } else { args.seed * 100 + s });
        }
        table::table_function_cases(&cx);
    }

    // ---------------------------------------------------------------- evidence
    let forced: BTreeMap<&str, u64> = force::HOOK_NAMES.iter().enumerate().map(|(i, n)| (*n, force::FORCED[i].load(Ordering::Relaxed))).collect();
    rep.extra("nested_objects_forced_onto_the_foreign_path", json!(forced));
    if only.is_none() && part.is_none() {
        rep.obligation("scalar-functions", rep.get_count("scalar.both-succeed") > 500 || memcheck, "scalar functions must have been compared with both sides succeeding");
        rep.obligation("aggregate-accumulators-forced", force::FORCED[force::K_ACC].load(Ordering::Relaxed) > 0 && force::FORCED[force::K_GROUPS].load(Ordering::Relaxed) > 0, "row and groups accumulators must have crossed the boundary as foreign objects");
        rep.obligation("window-evaluators-forced", force::FORCED[force::K_EVALUATOR].load(Ordering::Relaxed) > 0, "partition evaluators must have crossed the boundary as foreign objects");
        rep.obligation("plans-forced", force::FORCED[force::K_PLAN_PROPS].load(Ordering::Relaxed) > 0 && force::FORCED[force::K_PLAN_CHILDREN].load(Ordering::Relaxed) > 0, "plan properties and child plans must have crossed the boundary as foreign objects");
        rep.obligation("table-queries", rep.get_count("table.queries-both-succeed") >= if memcheck { 4 } else { 60 }, "generated queries must have run on both sides");
        rep.obligation("pushdown-observed", rep.get_count("table.scans-with-pushed-filters") > 0 && rep.get_count("table.scans-with-projection") > 0 || memcheck, "filters and projections must have been pushed through the foreign provider");
        rep.obligation("error-injection", rep.get_count("inject.cases") >= 10, "injected stream failures must have been observed through the foreign path");
    }
    rep.finish()
}

fn main() {
    let args = Args::parse();
    vcommon::par::quiet_panics();
    std::process::exit(run(&args));
}
