//! Forcing the REAL foreign path inside one process.
//!
//! Every `FFI_*` struct carries `library_marker_id`; the `Foreign*` adapters short-circuit to the
//! native object when it returns this library's id. The field is `pub`: we overwrite it with
//! `harness_marker`. Objects that are *created behind* the boundary (accumulators, partition
//! evaluators, child plans, plan properties, clones) are built by the crate's private wrapper
//! functions with the local marker again, so the corresponding `pub` function-pointer fields are
//! replaced by hooks that call the original wrapper and then re-mark what it returned.

use datafusion_ffi::execution_plan::FFI_ExecutionPlan;
use datafusion_ffi::plan_properties::FFI_PlanProperties;
use datafusion_ffi::udaf::FFI_AggregateUDF;
use datafusion_ffi::udwf::FFI_WindowUDF;
use datafusion_ffi::util::{FFI_Option, FFI_Result};
use std::sync::atomic::{AtomicU64, AtomicUsize, Ordering};

pub extern "C" fn harness_marker() -> usize {
    datafusion_ffi::get_library_marker_id() + 1
}

/// how many nested objects were re-marked, per hook kind
pub static FORCED: [AtomicU64; 10] = [const { AtomicU64::new(0) }; 10];
static ORIG: [AtomicUsize; 10] = [const { AtomicUsize::new(0) }; 10];
pub const K_ACC: usize = 0;
pub const K_SLIDING: usize = 1;
pub const K_GROUPS: usize = 2;
pub const K_BENEFICIAL: usize = 3;
pub const K_UDAF_CLONE: usize = 4;
pub const K_EVALUATOR: usize = 5;
pub const K_UDWF_CLONE: usize = 6;
pub const K_PLAN_PROPS: usize = 7;
pub const K_PLAN_CHILDREN: usize = 8;
pub const K_PLAN_CLONE: usize = 9;

pub const HOOK_NAMES: [&str; 10] = [
    "FFI_AggregateUDF.accumulator -> FFI_Accumulator",
    "FFI_AggregateUDF.create_sliding_accumulator -> FFI_Accumulator",
    "FFI_AggregateUDF.create_groups_accumulator -> FFI_GroupsAccumulator",
    "FFI_AggregateUDF.with_beneficial_ordering -> FFI_AggregateUDF",
    "FFI_AggregateUDF.clone",
    "FFI_WindowUDF.partition_evaluator -> FFI_PartitionEvaluator",
    "FFI_WindowUDF.clone",
    "FFI_ExecutionPlan.properties -> FFI_PlanProperties",
    "FFI_ExecutionPlan.children -> FFI_ExecutionPlan",
    "FFI_ExecutionPlan.clone",
];

/// Re-mark a `#[repr(C)]` FFI struct whose type cannot be named outside the crate
/// (`FFI_Accumulator`, `FFI_GroupsAccumulator`, `FFI_PartitionEvaluator`). In all three the
/// `library_marker_id: extern "C" fn() -> usize` is the LAST field (checked against the source);
/// the word is only replaced after calling it confirmed that it answers with this library's id.
/// (Comparing function addresses does not work: the tiny marker function is instantiated once per
/// codegen unit.)
unsafe fn remark_words<T>(t: &mut T) -> u64 {
    let words = std::mem::size_of::<T>() / std::mem::size_of::<usize>();
    if words == 0 {
        return 0;
    }
    unsafe {
        let p = (t as *mut T as *mut usize).add(words - 1);
        let w = p.read();
        if w == 0 || w == harness_marker as extern "C" fn() -> usize as usize {
            return 0;
        }
        let f: extern "C" fn() -> usize = std::mem::transmute(w);
        if f() != datafusion_ffi::get_library_marker_id() {
            return 0;
        }
        p.write(harness_marker as extern "C" fn() -> usize as usize);
    }
    1
}

/// Hook for `fn(&S, A) -> FFI_Result<T>` constructors of unnameable `T`.
unsafe extern "C" fn hook_ctor<const K: usize, S, A, T>(this: &S, args: A) -> FFI_Result<T> {
    unsafe {
        let f: unsafe extern "C" fn(&S, A) -> FFI_Result<T> = std::mem::transmute(ORIG[K].load(Ordering::Relaxed));
        let mut r = f(this, args);
        if let FFI_Result::Ok(t) = &mut r {
            FORCED[K].fetch_add(remark_words(t), Ordering::Relaxed);
        }
        r
    }
}

fn install_ctor<const K: usize, S, A, T>(slot: &mut unsafe extern "C" fn(&S, A) -> FFI_Result<T>) {
    let hook: unsafe extern "C" fn(&S, A) -> FFI_Result<T> = hook_ctor::<K, S, A, T>;
    if *slot as usize != hook as usize {
        ORIG[K].store(*slot as usize, Ordering::Relaxed);
        *slot = hook;
    }
}

// ---------------------------------------------------------------------------------------------
// aggregate UDF

unsafe extern "C" fn udaf_clone_hook(u: &FFI_AggregateUDF) -> FFI_AggregateUDF {
    unsafe {
        let f: unsafe extern "C" fn(&FFI_AggregateUDF) -> FFI_AggregateUDF = std::mem::transmute(ORIG[K_UDAF_CLONE].load(Ordering::Relaxed));
        let mut c = f(u);
        force_udaf(&mut c);
        FORCED[K_UDAF_CLONE].fetch_add(1, Ordering::Relaxed);
        c
    }
}

unsafe extern "C" fn udaf_beneficial_hook(u: &FFI_AggregateUDF, b: bool) -> FFI_Result<FFI_Option<FFI_AggregateUDF>> {
    unsafe {
        let f: unsafe extern "C" fn(&FFI_AggregateUDF, bool) -> FFI_Result<FFI_Option<FFI_AggregateUDF>> = std::mem::transmute(ORIG[K_BENEFICIAL].load(Ordering::Relaxed));
        let mut r = f(u, b);
        if let FFI_Result::Ok(FFI_Option::Some(c)) = &mut r {
            force_udaf(c);
            FORCED[K_BENEFICIAL].fetch_add(1, Ordering::Relaxed);
        }
        r
    }
}

pub fn force_udaf(u: &mut FFI_AggregateUDF) {
    u.library_marker_id = harness_marker;
    install_ctor::<K_ACC, _, _, _>(&mut u.accumulator);
    install_ctor::<K_SLIDING, _, _, _>(&mut u.create_sliding_accumulator);
    install_ctor::<K_GROUPS, _, _, _>(&mut u.create_groups_accumulator);
    if u.with_beneficial_ordering as usize != udaf_beneficial_hook as *const () as usize {
        ORIG[K_BENEFICIAL].store(u.with_beneficial_ordering as usize, Ordering::Relaxed);
        u.with_beneficial_ordering = udaf_beneficial_hook;
    }
    if u.clone as usize != udaf_clone_hook as *const () as usize {
        ORIG[K_UDAF_CLONE].store(u.clone as usize, Ordering::Relaxed);
        u.clone = udaf_clone_hook;
    }
}

// ---------------------------------------------------------------------------------------------
// window UDF

unsafe extern "C" fn udwf_clone_hook(u: &FFI_WindowUDF) -> FFI_WindowUDF {
    unsafe {
        let f: unsafe extern "C" fn(&FFI_WindowUDF) -> FFI_WindowUDF = std::mem::transmute(ORIG[K_UDWF_CLONE].load(Ordering::Relaxed));
        let mut c = f(u);
        force_udwf(&mut c);
        FORCED[K_UDWF_CLONE].fetch_add(1, Ordering::Relaxed);
        c
    }
}

pub fn force_udwf(u: &mut FFI_WindowUDF) {
    u.library_marker_id = harness_marker;
    install_ctor::<K_EVALUATOR, _, _, _>(&mut u.partition_evaluator);
    if u.clone as usize != udwf_clone_hook as *const () as usize {
        ORIG[K_UDWF_CLONE].store(u.clone as usize, Ordering::Relaxed);
        u.clone = udwf_clone_hook;
    }
}

// ---------------------------------------------------------------------------------------------
// execution plan

unsafe extern "C" fn plan_props_hook(p: &FFI_ExecutionPlan) -> FFI_PlanProperties {
    unsafe {
        let f: unsafe extern "C" fn(&FFI_ExecutionPlan) -> FFI_PlanProperties = std::mem::transmute(ORIG[K_PLAN_PROPS].load(Ordering::Relaxed));
        let mut r = f(p);
        r.library_marker_id = harness_marker;
        FORCED[K_PLAN_PROPS].fetch_add(1, Ordering::Relaxed);
        r
    }
}

unsafe extern "C" fn plan_clone_hook(p: &FFI_ExecutionPlan) -> FFI_ExecutionPlan {
    unsafe {
        let f: unsafe extern "C" fn(&FFI_ExecutionPlan) -> FFI_ExecutionPlan = std::mem::transmute(ORIG[K_PLAN_CLONE].load(Ordering::Relaxed));
        let mut c = f(p);
        force_plan(&mut c);
        FORCED[K_PLAN_CLONE].fetch_add(1, Ordering::Relaxed);
        c
    }
}

pub fn force_plan(p: &mut FFI_ExecutionPlan) {
    p.library_marker_id = harness_marker;
    if p.properties as usize != plan_props_hook as *const () as usize {
        ORIG[K_PLAN_PROPS].store(p.properties as usize, Ordering::Relaxed);
        p.properties = plan_props_hook;
    }
    if p.clone as usize != plan_clone_hook as *const () as usize {
        ORIG[K_PLAN_CLONE].store(p.clone as usize, Ordering::Relaxed);
        p.clone = plan_clone_hook;
    }
    install_children(&mut p.children);
}

/// Hook for `children: fn(&Plan) -> V` where `V` is `stabby::vec::Vec<FFI_ExecutionPlan>`:
/// `stabby` is not a dependency of the harness, so the vector type is only known through inference.
unsafe extern "C" fn children_hook<V: AsMutPlans>(p: &FFI_ExecutionPlan) -> V {
    unsafe {
        let f: unsafe extern "C" fn(&FFI_ExecutionPlan) -> V = std::mem::transmute(ORIG[K_PLAN_CHILDREN].load(Ordering::Relaxed));
        let mut v = f(p);
        for c in v.plans_mut() {
            force_plan(c);
            FORCED[K_PLAN_CHILDREN].fetch_add(1, Ordering::Relaxed);
        }
        v
    }
}

pub trait AsMutPlans {
    fn plans_mut(&mut self) -> &mut [FFI_ExecutionPlan];
}

impl<V: std::ops::DerefMut<Target = [FFI_ExecutionPlan]>> AsMutPlans for V {
    fn plans_mut(&mut self) -> &mut [FFI_ExecutionPlan] {
        &mut *self
    }
}

fn install_children<V: AsMutPlans>(slot: &mut unsafe extern "C" fn(&FFI_ExecutionPlan) -> V) {
    let hook: unsafe extern "C" fn(&FFI_ExecutionPlan) -> V = children_hook::<V>;
    if *slot as usize != hook as usize {
        ORIG[K_PLAN_CHILDREN].store(*slot as usize, Ordering::Relaxed);
        *slot = hook;
    }
}
