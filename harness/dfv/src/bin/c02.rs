//! C02 — results do not depend on execution configuration, input layout, repetition or concurrency.

use dfv::canon::compare;
use dfv::cases::Case;
use dfv::diffrun::*;
use dfv::engine::*;
use dfv::qgen::GenCfg;
use datafusion::prelude::*;
use vcommon::{fp_mix, fp_str, json, Args, Report, Rng};

/// Semantics-neutral options only (explicit allow-list) and the values each may take.
const OPTIONS: &[(&str, &[&str])] = &[
    ("datafusion.execution.target_partitions", &["1", "2", "3", "7", "16"]),
    ("datafusion.execution.batch_size", &["1", "2", "3", "8", "8192"]),
    ("datafusion.execution.coalesce_batches", &["true", "false"]),
    ("datafusion.optimizer.repartition_joins", &["true", "false"]),
    ("datafusion.optimizer.repartition_aggregations", &["true", "false"]),
    ("datafusion.optimizer.repartition_windows", &["true", "false"]),
    ("datafusion.optimizer.repartition_sorts", &["true", "false"]),
    ("datafusion.optimizer.enable_round_robin_repartition", &["true", "false"]),
    ("datafusion.optimizer.prefer_hash_join", &["true", "false"]),
    ("datafusion.optimizer.enable_piecewise_merge_join", &["true", "false"]),
    ("datafusion.optimizer.hash_join_single_partition_threshold", &["0", "4194304"]),
    ("datafusion.optimizer.hash_join_single_partition_threshold_rows", &["0", "131072"]),
    ("datafusion.execution.perfect_hash_join_small_build_threshold", &["0", "1024"]),
    ("datafusion.execution.perfect_hash_join_min_key_density", &["0.0", "0.15", "1.0"]),
    ("datafusion.execution.hash_join_buffering_capacity", &["0", "4"]),
    ("datafusion.execution.enforce_batch_size_in_joins", &["true", "false"]),
    ("datafusion.optimizer.enable_dynamic_filter_pushdown", &["true", "false"]),
    ("datafusion.optimizer.enable_join_dynamic_filter_pushdown", &["true", "false"]),
    ("datafusion.optimizer.enable_aggregate_dynamic_filter_pushdown", &["true", "false"]),
    ("datafusion.optimizer.enable_topk_dynamic_filter_pushdown", &["true", "false"]),
    ("datafusion.optimizer.hash_join_inlist_pushdown_max_size", &["0", "131072"]),
    ("datafusion.optimizer.hash_join_inlist_pushdown_max_distinct_values", &["0", "2", "150"]),
    ("datafusion.optimizer.enable_topk_aggregation", &["true", "false"]),
    ("datafusion.optimizer.enable_topk_repartition", &["true", "false"]),
    ("datafusion.optimizer.enable_window_limits", &["true", "false"]),
    ("datafusion.optimizer.enable_window_topn", &["true", "false"]),
    ("datafusion.optimizer.enable_distinct_aggregation_soft_limit", &["true", "false"]),
    ("datafusion.optimizer.enable_sort_pushdown", &["true", "false"]),
    ("datafusion.execution.skip_partial_aggregation_probe_ratio_threshold", &["0.0", "0.8"]),
    ("datafusion.execution.skip_partial_aggregation_probe_rows_threshold", &["0", "2", "100000"]),
    ("datafusion.execution.sort_in_place_threshold_bytes", &["0", "1048576"]),
    ("datafusion.optimizer.prefer_existing_sort", &["true", "false"]),
    ("datafusion.optimizer.prefer_existing_union", &["true", "false"]),
    ("datafusion.optimizer.enable_unions_to_filter", &["true", "false"]),
    ("datafusion.optimizer.enable_leaf_expression_pushdown", &["true", "false"]),
    ("datafusion.optimizer.filter_null_join_keys", &["true", "false"]),
    ("datafusion.optimizer.top_down_join_key_reordering", &["true", "false"]),
    ("datafusion.optimizer.join_reordering", &["true", "false"]),
    ("datafusion.optimizer.max_passes", &["1", "3"]),
];

type Setting = Vec<(&'static str, &'static str)>;

fn sample_setting(rng: &mut Rng, density: u64) -> Setting {
    let mut s = vec![];
    for (k, vals) in OPTIONS {
        if rng.chance(density, 10) {
            s.push((*k, *rng.pick(vals)));
        }
    }
    s
}

fn config_of(setting: &Setting) -> Result<SessionConfig, String> {
    let mut cfg = base_config();
    for (k, v) in setting {
        cfg.options_mut().set(k, v).map_err(|e| format!("{k}={v}: {e}"))?;
    }
    Ok(cfg)
}

fn run_with(case: &Case, setting: &Setting, layout: &DbLayout) -> Result<Result<Exec, datafusion::error::DataFusionError>, String> {
    let cfg = config_of(setting)?;
    let sql = case.sql.clone();
    block(async {
        let ctx = SessionContext::new_with_config(cfg);
        register_db_layout(&ctx, &case.db, layout)?;
        exec_sql(&ctx, &sql).await
    })
}

fn setting_json(s: &Setting) -> vcommon::Json {
    json!(s.iter().map(|(k, v)| format!("{k}={v}")).collect::<Vec<_>>())
}

/// Find one option of `setting` whose removal (back to baseline) makes the difference disappear.
fn localize(case: &Case, setting: &Setting, layout: &DbLayout, baseline: &[dfv::value::Row]) -> Option<String> {
    for i in 0..setting.len() {
        let mut s2 = setting.clone();
        s2.remove(i);
        if let Ok(Ok(out)) = run_with(case, &s2, layout) {
            if compare(&out.rows, baseline, &case.mode).is_ok() {
                return Some(setting[i].0.to_string());
            }
        }
    }
    None
}

fn one_case(rep: &Report, case: &Case, rng: &mut Rng, n_variants: u64, pairs: &std::sync::Mutex<std::collections::HashSet<u64>>) {
    let fp = case.fingerprint();
    let base_setting: Setting = vec![];
    let base = match run_with(case, &base_setting, &case.layout) {
        Err(p) => {
            rep.case(fp, false);
            rep.skip(&format!("baseline-panic: {}", p.chars().take(60).collect::<String>()));
            return;
        }
        Ok(Err(e)) => {
            rep.case(fp, false);
            rep.skip(&format!("baseline-error/{}", skip_class(&e)));
            return;
        }
        Ok(Ok(b)) => b,
    };
    // repetition: same config, same layout, again
    if let Ok(Ok(again)) = run_with(case, &base_setting, &case.layout) {
        rep.count("repeat_runs", 1);
        if let Err(d) = compare(&again.rows, &base.rows, &case.mode) {
            rep.violation("repeat-differs", case.witness(Some(&again.rows), Some(&base.rows), &format!("second run of the same query/config differs: {d}")));
        }
    }
    let mut differed_plans = 0u64;
    for v in 0..n_variants {
        let setting = sample_setting(rng, if v % 3 == 0 { 8 } else { 3 });
        let nparts = 1 + rng.usize(5);
        let layout = if v % 2 == 0 { random_db_layout(&case.db, nparts, 1 + rng.usize(8), rng) } else { case.layout.clone() };
        {
            // option-value pair coverage
            let mut g = pairs.lock().unwrap();
            for a in &setting {
                for b in &setting {
                    if a.0 < b.0 {
                        g.insert(fp_mix(fp_str(&format!("{}={}", a.0, a.1)), fp_str(&format!("{}={}", b.0, b.1))));
                    }
                }
            }
        }
        match run_with(case, &setting, &layout) {
            Err(p) => {
                rep.case(fp_mix(fp, v), true);
                // key the panic by its source location (file:line), not by the query
                let loc = p.rsplit(" @ ").next().unwrap_or("").rsplit('/').next().unwrap_or("").to_string();
                rep.violation(&format!("variant-panic/{loc}"), json!({"case": case.witness(None, Some(&base.rows), &format!("panic under variant config: {p}")), "setting": setting_json(&setting), "variant_layout": json!(layout)}));
            }
            Ok(Err(e)) => {
                let cls = classify(&e);
                rep.case(fp_mix(fp, v), false);
                if matches!(cls, ErrClass::NotImplemented | ErrClass::Plan) {
                    rep.skip(&format!("variant-rejected/{cls:?}"));
                } else {
                    // the baseline configuration succeeded: failing under a neutral option is a dependence on it
                    let msg = e.to_string();
                    let kind = if msg.contains("Physical input schema should be the same") {
                        "internal-error:physical-logical-schema".to_string()
                    } else if let Some(i) = msg.find("panicked with message") {
                        // a spawned task panicked: key by the message with numbers normalised
                        let m: String = msg[i + 21..].chars().take(80).map(|c| if c.is_ascii_digit() { 'N' } else { c }).collect();
                        format!("task-panic:{}", m.trim().trim_matches('"').replace("NN", "N").replace("NN", "N"))
                    } else {
                        format!("{cls:?}")
                    };
                    rep.violation(&format!("variant-fails/{kind}"), json!({"case": case.witness(None, Some(&base.rows), &format!("error under variant config: {}", msg.chars().take(300).collect::<String>())), "setting": setting_json(&setting)}));
                }
            }
            Ok(Ok(out)) => {
                let plan_differs = out.plan_text != base.plan_text;
                if plan_differs {
                    differed_plans += 1;
                    for op in operators_in(&out.plan_text) {
                        rep.seen("operators", &op);
                    }
                }
                rep.case(fp_mix(fp, fp_str(&out.plan_text)), plan_differs);
                if let Err(d) = compare(&out.rows, &base.rows, &case.mode) {
                    // localisation: known TopK dynamic filter finding, then single-option delta
                    let topk_off: Setting = setting.iter().cloned().filter(|(k, _)| !k.contains("dynamic_filter")).chain([("datafusion.optimizer.enable_topk_dynamic_filter_pushdown", "false"), ("datafusion.optimizer.enable_dynamic_filter_pushdown", "false")]).collect();
                    let base_off: Setting = vec![("datafusion.optimizer.enable_dynamic_filter_pushdown", "false")];
                    let mut sig = None;
                    if let (Ok(Ok(a)), Ok(Ok(b))) = (run_with(case, &topk_off, &layout), run_with(case, &base_off, &case.layout)) {
                        if compare(&a.rows, &b.rows, &case.mode).is_ok() && case.feats.contains("limit") {
                            sig = Some(if case.feats.contains("union-all") { "topk-dynamic-filter-drops-rows/union-all".to_string() } else { "topk-dynamic-filter-drops-rows".to_string() });
                        }
                    }
                    let sig = sig.unwrap_or_else(|| match localize(case, &setting, &layout, &base.rows) {
                        Some(opt) => format!("config-dependence/{}", opt.trim_start_matches("datafusion.")),
                        None => {
                            if layout != case.layout && matches!(run_with(case, &base_setting, &layout), Ok(Ok(ref o)) if compare(&o.rows, &base.rows, &case.mode).is_err()) {
                                "layout-dependence".to_string()
                            } else {
                                "config-dependence/combination".to_string()
                            }
                        }
                    });
                    rep.violation(&sig, json!({"case": case.witness(Some(&out.rows), Some(&base.rows), &format!("variant vs baseline: {d}")), "setting": setting_json(&setting), "variant_layout": json!(layout), "variant_plan": out.plan_text, "baseline_plan": base.plan_text}));
                } else if rep.want_sample() && plan_differs {
                    rep.sample(json!({"sql": case.sql, "setting": setting_json(&setting), "rows": base.rows.len()}));
                }
            }
        }
    }
    rep.count("variants_with_different_plan", differed_plans);
}

/// N copies of the query plus unrelated queries, concurrently in ONE session on a multi-thread runtime.
fn concurrent_stage(rep: &Report, args: &Args, n: u64) {
    let cfg = GenCfg::default();
    vcommon::par::run((args.workers / 4).max(1), 0..n, |i| {
        let mut rng = Rng::derive(args.seed, &[2, 7, i]);
        let mut c = cfg.clone();
        c.max_depth = 1 + (i % 3) as usize;
        let case = Case::generate(&mut rng, &c);
        let other = Case::generate(&mut rng, &c);
        let base = match run_with(&case, &vec![], &case.layout) {
            Ok(Ok(b)) => b,
            _ => return,
        };
        let res = vcommon::par::guard(|| {
            let rt = tokio::runtime::Builder::new_multi_thread().worker_threads(4).enable_all().build().expect("rt");
            rt.block_on(async {
                let ctx = SessionContext::new_with_config(base_config());
                register_db_layout(&ctx, &case.db, &case.layout)?;
                // the unrelated query reads its own tables under different names
                for (t, l) in other.db.tables.iter().zip(other.layout.iter()) {
                    let mt = datafusion::datasource::MemTable::try_new(table_schema(t), table_partitions(t, l))?;
                    ctx.register_table(format!("o_{}", t.name).as_str(), std::sync::Arc::new(mt))?;
                }
                let mut handles = vec![];
                for _ in 0..4 {
                    let (ctx2, sql) = (ctx.clone(), case.sql.clone());
                    handles.push(tokio::spawn(async move { exec_sql(&ctx2, &sql).await.map(|e| e.rows) }));
                }
                let mut outs = vec![];
                for h in handles {
                    outs.push(h.await.map_err(|e| datafusion::error::DataFusionError::Execution(e.to_string()))??);
                }
                Ok::<_, datafusion::error::DataFusionError>(outs)
            })
        });
        match res {
            Ok(Ok(outs)) => {
                rep.count("concurrent_sessions", 1);
                for o in outs {
                    rep.case(fp_mix(case.fingerprint(), 0xC0C0), !o.is_empty());
                    if let Err(d) = compare(&o, &base.rows, &case.mode) {
                        rep.violation("concurrent-run-differs", case.witness(Some(&o), Some(&base.rows), &format!("copy run concurrently in one session differs from the sequential answer: {d}")));
                    }
                }
            }
            Ok(Err(e)) => rep.skip(&format!("concurrent-error/{}", skip_class(&e))),
            Err(p) => rep.violation("concurrent-panic", case.witness(None, Some(&base.rows), &format!("panic: {p}"))),
        }
    });
}

fn run(args: &Args) -> i32 {
    let rep = Report::new("C02", "exploration", args);
    rep.set_rule("case = (generated tables + query, variant): variant = sampled assignment of semantics-neutral options (allow-list of 39) + a re-drawn input layout (1-5 partitions, batch sizes 1-8), plus a repeat run and 4 concurrent copies in one session on a 4-worker runtime; oracle = the engine's own answer under the baseline config; distinct = hash(case, variant physical plan); non-trivial = the variant's physical plan differs from the baseline plan");
    rep.assume("only options on the explicit neutral allow-list are varied; the determinism discipline of the generator makes every query's answer unique");
    let cfg = GenCfg::default();
    let n_sys = args.bound("systematic", 250, 1500);
    let n_rand = args.bound("random", 450, 12000);
    let nv = args.bound("variants", 10, 24);
    let pairs = std::sync::Mutex::new(std::collections::HashSet::new());
    for_each_case(args, &rep, 0xC02, n_sys, n_rand, &cfg, |case, rng, _| one_case(&rep, case, rng, nv, &pairs));
    concurrent_stage(&rep, args, args.bound("concurrent", 60, 600));
    rep.extra("option_value_pairs_covered", json!(pairs.lock().unwrap().len()));
    rep.extra("options_varied", json!(OPTIONS.iter().map(|o| o.0).collect::<Vec<_>>()));
    rep.obligation("plans-varied", rep.get_count("variants_with_different_plan") > 100, "variants must actually change physical plans");
    rep.obligation("off-default-operators", rep.has_seen("operators", "SortMergeJoinExec") && rep.has_seen("operators", "NestedLoopJoinExec"), "off-default join operators must be reached");
    rep.finish()
}

fn main() {
    let args = Args::parse();
    vcommon::par::quiet_panics();
    std::process::exit(run(&args));
}
